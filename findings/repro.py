"""Reproduction scripts for the findings of DESIGN.md section 4.

NOT part of the static machinery: these programs only document that each
finding is a genuine defect of kfac-pytorch (they run the real code).  Usage:

    /venv/bin/python /verif/findings/repro.py F1 [--repo /repo]

exit 0 = defect absent (repaired tree), exit 1 = defect reproduced.
"""
from __future__ import annotations

import multiprocessing as mp
import os
import socket
import sys
import traceback


def _port() -> int:
    s = socket.socket()
    s.bind(('', 0))
    p = s.getsockname()[1]
    s.close()
    return p


def _worker(rank, ws, port, fn, q):
    import torch.distributed as dist
    os.environ.update(MASTER_ADDR='127.0.0.1', MASTER_PORT=str(port),
                      RANK=str(rank), WORLD_SIZE=str(ws), LOCAL_RANK=str(rank))
    try:
        dist.init_process_group('gloo')
        out = fn(rank, ws)
        q.put((rank, 'ok', out))
    except BaseException as e:  # noqa: BLE001
        q.put((rank, 'error', f'{type(e).__name__}: {e}'))
        traceback.print_exc()


def spawn(ws, fn, timeout=60):
    """Run fn(rank, ws) on ws gloo ranks; returns {rank: (status, value)}."""
    ctx = mp.get_context('fork')
    q = ctx.Queue()
    port = _port()
    ps = [ctx.Process(target=_worker, args=(r, ws, port, fn, q)) for r in range(ws)]
    for p in ps:
        p.start()
    res = {}
    import queue
    import time
    t0 = time.time()
    while len(res) < ws and time.time() - t0 < timeout:
        try:
            r, st, v = q.get(timeout=1)
            res[r] = (st, v)
        except queue.Empty:
            pass
    for r in range(ws):
        res.setdefault(r, ('hang', None))
    for p in ps:
        p.terminate()
    return res


def F1():
    import torch
    from kfac.preconditioner import KFACPreconditioner
    m = torch.nn.Linear(3, 2)
    try:
        p = KFACPreconditioner(m, kl_clip=None)
    except TypeError as e:
        print('REPRODUCED F1: kl_clip=None rejected:', e)
        return 1
    m(torch.randn(4, 3)).sum().backward()
    p.step()
    print('F1 absent: kl_clip=None accepted and step() ran')
    return 0


def F3():
    from kfac.assignment import KAISAAssignment
    bad = []
    for ws in range(1, 129):
        for k in range(1, ws + 1):
            if ws % k:
                continue
            try:
                KAISAAssignment({'l': {'A': 1.0, 'G': 1.0}}, local_rank=0, world_size=ws,
                                grad_worker_fraction=k / ws, group_func=lambda r: None)
            except ValueError:
                bad.append((ws, k))
    try:
        KAISAAssignment({'l': {'A': 1.0}}, local_rank=0, world_size=8,
                        grad_worker_fraction=0.33, group_func=lambda r: None)
        print('REGRESSION: (8, 0.33) accepted')
        return 1
    except ValueError:
        pass
    if bad:
        print('REPRODUCED F3: valid k/world_size rejected for', bad)
        return 1
    print('F3 absent: every k/ws with k | ws <= 128 accepted; (8,0.33) rejected')
    return 0


def F2():
    def fn(rank, ws):
        import torch
        from kfac.preconditioner import KFACPreconditioner
        from kfac.enums import DistributedStrategy
        torch.manual_seed(0)
        m = torch.nn.Sequential(torch.nn.Linear(4, 6), torch.nn.Linear(6, 3))
        p = KFACPreconditioner(m, grad_worker_fraction=DistributedStrategy.HYBRID_OPT)
        m(torch.randn(5, 4)).sum().backward()
        p.step()
        sd = p.state_dict()
        p2 = KFACPreconditioner(m, grad_worker_fraction=DistributedStrategy.HYBRID_OPT)
        p2.load_state_dict(sd)
        m.zero_grad()
        m(torch.randn(5, 4)).sum().backward()
        p2.step()
        return 'loaded+stepped'
    res = spawn(4, fn)
    print(res)
    if any(st != 'ok' for st, _ in res.values()):
        print('REPRODUCED F2: load_state_dict under HYBRID-OPT fails')
        return 1
    print('F2 absent')
    return 0


def F4():
    def fn(rank, ws):
        import torch
        import torch.distributed as dist
        from kfac.distributed import TorchDistributedCommunicator
        g01 = dist.new_group([0, 1])
        g02 = dist.new_group([0, 2])
        tdc = TorchDistributedCommunicator(bucket_cap_mb=25)
        futs = []
        if rank in (0, 1):
            futs.append(('g01', tdc.allreduce_bucketed(torch.full((2,), float(rank + 1)), group=g01)))
        if rank in (0, 2):
            futs.append(('g02', tdc.allreduce_bucketed(torch.full((3,), float(10 * (rank + 1))), group=g02)))
        tdc.flush_allreduce_buckets()
        out = {}
        for k, f in futs:
            out[k] = (f.wait() if not isinstance(f, torch.Tensor) else f).tolist()
        return out
    res = spawn(3, fn, timeout=25)
    print(res)
    want = {0: {'g01': [3.0, 3.0], 'g02': [40.0] * 3}, 1: {'g01': [3.0, 3.0]}, 2: {'g02': [40.0] * 3}}
    if any(res[r] != ('ok', want[r]) for r in range(3)):
        print('REPRODUCED F4: distinct groups of equal size share one bucket')
        return 1
    print('F4 absent')
    return 0


def F8():
    def fn(rank, ws):
        import torch
        from kfac.distributed import TorchDistributedCommunicator
        tdc = TorchDistributedCommunicator(bucket_cap_mb=25)
        f1 = tdc.allreduce_bucketed(torch.ones(2, dtype=torch.float16))
        f2 = tdc.allreduce_bucketed(torch.ones(2, dtype=torch.float32))
        tdc.flush_allreduce_buckets()
        return str(f1.wait().dtype), str(f2.wait().dtype)
    res = spawn(2, fn, timeout=25)
    print(res)
    if any(v != ('ok', ('torch.float16', 'torch.float32')) for v in res.values()):
        print('REPRODUCED F8: mixed-dtype bucket changes a result dtype')
        return 1
    return 0


def _gpt_layer(rank, ws, parallelism, bias):
    import torch
    import torch.distributed as dist
    from kfac.distributed import TorchDistributedCommunicator
    from kfac.gpt_neox.layer import GPTNeoXKFACEigenLayer
    from kfac.gpt_neox.modules import GPTNeoXLinearModuleHelper
    from kfac.layers.eigen import KFACEigenLayer
    from kfac.layers.modules import LinearModuleHelper
    torch.manual_seed(1)
    IN, OUT, B = 4, 6, 8
    full = torch.nn.Linear(IN, OUT, bias=bias)
    x = torch.randn(B, IN)
    go = torch.randn(B, OUT)
    full.weight.grad = torch.randn(OUT, IN)
    if bias:
        full.bias.grad = torch.randn(OUT)
    # reference: unsharded layer
    ref = KFACEigenLayer(LinearModuleHelper(full), tdc=TorchDistributedCommunicator())
    ref.save_layer_input([x]); ref.save_layer_grad_output((go,))
    ref.update_a_factor(); ref.update_g_factor()
    ref.compute_a_inv(0.01); ref.compute_g_inv(0.01)
    ref.preconditioned_grad(0.01)
    want = ref.grad.clone()
    # shard
    mp_group = dist.new_group(list(range(ws)))
    if parallelism == 'output':
        shard = torch.nn.Linear(IN, OUT // ws, bias=bias)
        shard.weight.grad = full.weight.grad[rank * (OUT // ws):(rank + 1) * (OUT // ws)].clone()
        if bias:
            shard.bias.grad = full.bias.grad[rank * (OUT // ws):(rank + 1) * (OUT // ws)].clone()
        want_shard = want[rank * (OUT // ws):(rank + 1) * (OUT // ws)]
    else:
        shard = torch.nn.Linear(IN // ws, OUT, bias=bias)
        shard.weight.grad = full.weight.grad[:, rank * (IN // ws):(rank + 1) * (IN // ws)].clone()
        if bias:
            shard.bias.grad = full.bias.grad.clone()
        cols = list(range(rank * (IN // ws), (rank + 1) * (IN // ws))) + ([IN] if bias else [])
        want_shard = want[:, cols]
    orig_w = shard.weight.grad.clone()
    orig_b = shard.bias.grad.clone() if bias else None
    layer = GPTNeoXKFACEigenLayer(
        GPTNeoXLinearModuleHelper(shard, mp_group, parallelism),
        parallelism=parallelism, model_parallel_group=mp_group,
        data_parallel_group=None, pipe_parallel_peer_group=None, primary_rank=0,
        tdc=TorchDistributedCommunicator())
    if rank == 0:
        layer.a_factor = ref.a_factor; layer.g_factor = ref.g_factor
        layer.compute_a_inv(0.01); layer.compute_g_inv(0.01)
    layer.preconditioned_grad(0.01)
    intact = torch.equal(shard.weight.grad, orig_w) and (not bias or torch.equal(shard.bias.grad, orig_b))
    close = torch.allclose(layer.grad, want_shard, atol=1e-5)
    return {'grad_intact_before_update': bool(intact), 'matches_unsharded': bool(close)}


def F6():
    rc = 0
    for par in ('input', 'output'):
        res = spawn(2, lambda r, w, par=par: _gpt_layer(r, w, par, True), timeout=40)
        print(par, 'bias', res)
        for st, v in res.values():
            if st != 'ok' or not v['grad_intact_before_update'] or not v['matches_unsharded']:
                rc = 1
    print('REPRODUCED F6: module gradient overwritten before update_grad' if rc else 'F6 absent')
    return rc


def F9():
    res = spawn(2, lambda r, w: _gpt_layer(r, w, 'output', False), timeout=25)
    print(res)
    if any(st != 'ok' or not v['matches_unsharded'] for st, v in res.values()):
        print('REPRODUCED F9: output-parallel layer without bias fails on the non-primary rank')
        return 1
    print('F9 absent')
    return 0


def _install_deepspeed_stub():
    """Minimal stand-in for deepspeed's PipeModelDataParallelTopology (axes pipe, data, model)."""
    import collections
    import itertools
    import types

    class PipeModelDataParallelTopology:
        def __init__(self, num_pp, num_mp, num_dp):
            self.axes = ['pipe', 'data', 'model']
            self.dims = [num_pp, num_dp, num_mp]
            self.Coord = collections.namedtuple('ProcessCoord', self.axes)
            self.mapping = {}
            for rank, c in enumerate(itertools.product(*[range(d) for d in self.dims])):
                self.mapping[self.Coord(*c)] = rank

        def world_size(self):
            return len(self.mapping)

        def get_dim(self, axis):
            return self.dims[self.axes.index(axis)]

        def get_coord(self, rank):
            for c, r in self.mapping.items():
                if r == rank:
                    return c
            raise ValueError(rank)

        def get_axis_comm_lists(self, axis):
            others = [a for a in self.axes if a != axis]
            lists = []
            for oc in itertools.product(*[range(self.get_dim(a)) for a in others]):
                fixed = dict(zip(others, oc))
                lists.append([self.mapping[self.Coord(**{axis: i, **fixed})] for i in range(self.get_dim(axis))])
            return lists

    ds = types.ModuleType('deepspeed')
    for name in ('deepspeed.runtime', 'deepspeed.runtime.pipe', 'deepspeed.runtime.pipe.topology', 'deepspeed.pipe'):
        sys.modules[name] = types.ModuleType(name)
    sys.modules['deepspeed'] = ds
    sys.modules['deepspeed.runtime.pipe.topology'].PipeModelDataParallelTopology = PipeModelDataParallelTopology
    sys.modules['deepspeed.pipe'].PipelineModule = type('PipelineModule', (), {})
    return PipeModelDataParallelTopology


def F5():
    Topo = _install_deepspeed_stub()

    def fn(rank, ws):
        import torch
        import torch.distributed as dist
        from kfac.gpt_neox.assignment import GPTNeoXAssignment
        calls = []
        real = dist.new_group

        def spy(ranks=None, *a, **k):
            calls.append(list(ranks) if ranks is not None else None)
            return real(ranks, *a, **k)
        dist.new_group = spy
        topo = Topo(num_pp=2, num_mp=2, num_dp=2)
        a = GPTNeoXAssignment({'l1': {'A': 1.0, 'G': 1.0}}, local_rank=rank, topology=topo,
                              data_parallel_group=None, model_parallel_group=None)
        t = torch.ones(1) * (rank + 1)
        dist.all_reduce(t, group=a.pipe_parallel_peer_group)
        return {'new_group_calls': calls, 'sum_over_stage': t.item()}
    res = spawn(8, fn, timeout=40)
    for r in sorted(res):
        print(r, res[r])
    seqs = {str(v[1]['new_group_calls']) if v[0] == 'ok' else v[0] for v in res.values()}
    want = {r: (10.0 if r < 4 else 26.0) for r in range(8)}
    bad = len(seqs) != 1 or any(res[r][0] != 'ok' or res[r][1]['sum_over_stage'] != want[r] for r in range(8))
    if bad:
        print('REPRODUCED F5: ranks issue different new_group sequences:', seqs)
        return 1
    print('F5 absent: every rank creates the same groups in the same order; stage allreduce ok')
    return 0


def F10():
    """Clip scale from local shards only (GPT-NeoX family, model-parallel size > 1).  Uses the harness of the seeded
    change C11-1 (unchanged library code): a 2-layer Megatron-style MLP on dp x mp gloo ranks against a pure-torch
    unsharded reference, this time with KL clipping active."""
    import importlib.util
    spec = importlib.util.spec_from_file_location('c11demo', '/verif/seeded/C11-1/demo.py')
    d = importlib.util.module_from_spec(spec)
    spec.loader.exec_module(d)
    rc = 0
    for title, cfg in (('dp=2 mp=1 (control)', dict(d.BASE_CFG, dp=2, mp=1, kl_clip=0.001)),
                       ('dp=1 mp=2', dict(d.BASE_CFG, dp=1, mp=2, kl_clip=0.001)),
                       ('dp=2 mp=2', dict(d.BASE_CFG, dp=2, mp=2, kl_clip=0.001))):
        bad = d.run_config(cfg)
        print(f'{title}: {len(bad)} deviation(s) from the unsharded reference with clipping')
        for line in bad[:2]:
            print('    ' + line)
        if bad and 'control' not in title:
            rc = 1
    print('REPRODUCED F10: clipped gradients of the sharded run differ from the unsharded layer' if rc else 'F10 absent')
    return rc


if __name__ == '__main__':
    repo = '/repo'
    if '--repo' in sys.argv:
        repo = sys.argv[sys.argv.index('--repo') + 1]
    sys.path.insert(0, repo)
    import warnings
    warnings.simplefilter('ignore')
    sys.exit(globals()[sys.argv[1]]())
