"""Must-fire mutants and silent twins, one list; see tools/selftest.py.

Every mutant keeps kfac importable; mutants are edits a maintainer could
plausibly commit and that the pinned suite does not notice (spot-checked, not
all re-run).  Twins are behaviour-preserving edits that must stay silent.
"""
CASES: list[dict] = []


def M(id, prop, rule, what, *edits):  # noqa: A002
    CASES.append({'id': id, 'prop': prop, 'expect': 'fire', 'rule': rule, 'what': what, 'edits': list(edits)})


def T(id, prop, what, *edits):  # noqa: A002
    CASES.append({'id': id, 'prop': prop, 'expect': 'silent', 'what': what, 'edits': list(edits)})


TR = 'kfac/tracing.py'
BP = 'kfac/base_preconditioner.py'
DI = 'kfac/distributed.py'
AS = 'kfac/assignment.py'
LB = 'kfac/layers/base.py'
LE = 'kfac/layers/eigen.py'
LI = 'kfac/layers/inverse.py'
LM = 'kfac/layers/modules.py'
LU = 'kfac/layers/utils.py'
LR = 'kfac/layers/register.py'
PC = 'kfac/preconditioner.py'
SC = 'kfac/scheduler.py'
HP = 'kfac/hyperparams.py'
GA = 'kfac/gpt_neox/assignment.py'
GL = 'kfac/gpt_neox/layer.py'
GP = 'kfac/gpt_neox/preconditioner.py'
GM = 'kfac/gpt_neox/modules.py'
GU = 'kfac/gpt_neox/mpu.py'

# ---------------------------------------------------------------- C20
M('c20-call-twice', 'C20', 'T1', 'traced function called twice',
  (TR, "            out = func(*args, **kwargs)\n", "            func(*args, **kwargs)\n            out = func(*args, **kwargs)\n"))
M('c20-clock-before-call', 'C20', 'T4', 'second clock read moved before the call',
  (TR, "            out = func(*args, **kwargs)\n            if sync:\n                torch.distributed.barrier()\n            t = time.time() - t\n",
       "            t = time.time() - t\n            out = func(*args, **kwargs)\n            if sync:\n                torch.distributed.barrier()\n"))
M('c20-return-none', 'C20', 'T1', 'wrapper drops the return value',
  (TR, "            return out\n\n        return func_timer", "            return None\n\n        return func_timer"))
M('c20-first-sample-lost', 'C20', 'T3', 'first call creates an empty list',
  (TR, "                _func_traces[func.__name__] = [t]", "                _func_traces[func.__name__] = []"))
M('c20-qualname-key', 'C20', 'T3', 'sample keyed by __qualname__',
  (TR, "                _func_traces[func.__name__].append(t)", "                _func_traces[func.__qualname__].append(t)"))
M('c20-mean-over-all', 'C20', 'T5', 'mean divides by the unwindowed count',
  (TR, "            out[fname] /= len(times)", "            out[fname] /= len(_func_traces[fname])"))
M('c20-window-first', 'C20', 'T5', 'window takes the first max_history samples',
  (TR, "times = times[-max_history:]", "times = times[:max_history]"))
M('c20-clear-noop', 'C20', 'T6', 'clear_trace rebinds a local',
  (TR, "    _func_traces.clear()", "    _func_traces = {}  # noqa: F841"))
M('c20-swallow', 'C20', 'T2', 'exceptions of the traced function swallowed',
  (TR, "            out = func(*args, **kwargs)\n", "            try:\n                out = func(*args, **kwargs)\n            except Exception:\n                out = None\n"))
M('c20-mixed-clocks', 'C20', 'T4', 'two different clocks',
  (TR, "            t = time.time() - t", "            t = time.perf_counter() - t"))
M('c20-double-record', 'C20', 'T3', 'sample appended twice after first call',
  (TR, "                _func_traces[func.__name__].append(t)", "                _func_traces[func.__name__].append(t)\n                _func_traces[func.__name__].append(t)"))
T('c20-twin-perf-counter', 'C20', 'perf_counter for both reads',
  (TR, "            t = time.time()\n", "            t = time.perf_counter()\n"),
  (TR, "            t = time.time() - t", "            t = time.perf_counter() - t"))
T('c20-twin-rename', 'C20', 'renamed locals',
  (TR, "            t = time.time()\n            out = func(*args, **kwargs)", "            start = time.time()\n            out = func(*args, **kwargs)"),
  (TR, "            t = time.time() - t", "            t = time.time() - start"))
T('c20-twin-setdefault', 'C20', 'setdefault().append idiom',
  (TR, "            if func.__name__ not in _func_traces:\n                _func_traces[func.__name__] = [t]\n            else:\n                _func_traces[func.__name__].append(t)\n",
       "            _func_traces.setdefault(func.__name__, []).append(t)\n"))

# ---------------------------------------------------------------- C19
M('c19-crosswire-lambda', 'C19', 'SIB-SCHED', 'damping block uses the factor_decay lambda',
  (SC, "            factor = self._damping_lambda(\n", "            factor = self._factor_decay_lambda(\n"))
M('c19-crosswire-target', 'C19', None, 'kl_clip block multiplies lr',
  (SC, "            self._preconditioner._kl_clip *= factor", "            self._preconditioner._lr *= factor"))
M('c19-no-int', 'C19', 'AFF-SCHED', 'inv_update_steps not truncated',
  (SC, "            self._preconditioner._inv_update_steps = int(\n                self._preconditioner._inv_update_steps * factor,\n            )",
       "            self._preconditioner._inv_update_steps = (\n                self._preconditioner._inv_update_steps * factor\n            )"))
M('c19-additive', 'C19', 'AFF-SCHED', 'lr updated additively',
  (SC, "            self._preconditioner._lr *= factor", "            self._preconditioner._lr += factor"))
M('c19-ignores-explicit-step', 'C19', 'STEP-PREC', 'lr block ignores the explicit step',
  (SC, "            factor = self._lr_lambda(\n                step if step is not None else self._preconditioner.steps,\n            )",
       "            factor = self._lr_lambda(\n                self._preconditioner.steps,\n            )"))
M('c19-step-truthiness', 'C19', 'STEP-PREC', 'explicit step 0 treated as absent',
  (SC, "            factor = self._kl_clip_lambda(\n                step if step is not None else self._preconditioner.steps,",
       "            factor = self._kl_clip_lambda(\n                step if step else self._preconditioner.steps,"))
M('c19-refusal-dropped', 'C19', 'SIB-REFUSE', 'refusal tests the wrong parameter',
  (SC, "            if callable(self._preconditioner._kl_clip):", "            if callable(self._preconditioner._lr):"))
M('c19-ctor-crosswire', 'C19', 'SIB-SCHED', 'constructor stores the wrong lambda',
  (SC, "        self._damping_lambda = damping_lambda", "        self._damping_lambda = factor_decay_lambda"))
M('c19-round-intervals', 'C19', 'AFF-SCHED', 'round() instead of int()',
  (SC, "            self._preconditioner._factor_update_steps = int(", "            self._preconditioner._factor_update_steps = round("))
M('c19-expdecay-max', 'C19', 'AFF-EXPDECAY', 'max for min',
  (HP, "        return min(1 - (1 / step), min_value)", "        return max(1 - (1 / step), min_value)"))
M('c19-expdecay-plus', 'C19', 'AFF-EXPDECAY', '1 - 1/(k+1)',
  (HP, "        return min(1 - (1 / step), min_value)", "        return min(1 - (1 / (step + 1)), min_value)"))
M('c19-expdecay-cap-check', 'C19', 'AFF-EXPDECAY', 'cap < 0 instead of <= 0',
  (HP, "    if min_value <= 0:", "    if min_value < 0:"))
M('c19-expdecay-neg-ok', 'C19', 'AFF-EXPDECAY', 'step <= 0 mapped to 1 (negative accepted)',
  (HP, "        if step < 0:\n            raise ValueError(\n                f'step value cannot be negative. Got step={step}.',\n            )\n        if step == 0:", "        if step <= 0:"))
T('c19-twin-expanded-mul', 'C19', 'x = x * factor instead of *=',
  (SC, "            self._preconditioner._damping *= factor", "            self._preconditioner._damping = self._preconditioner._damping * factor"))
T('c19-twin-commuted', 'C19', 'factor * old',
  (SC, "                self._preconditioner._inv_update_steps * factor,", "                factor * self._preconditioner._inv_update_steps,"))
T('c19-twin-is-none-flip', 'C19', 'preconditioner.steps if step is None else step',
  (SC, "            factor = self._lr_lambda(\n                step if step is not None else self._preconditioner.steps,",
       "            factor = self._lr_lambda(\n                self._preconditioner.steps if step is None else step,"))
T('c19-twin-expdecay-max', 'C19', 'max(step, 1) instead of the zero branch',
  (HP, "        if step == 0:\n            step = 1\n        return min(1 - (1 / step), min_value)", "        return min(1 - (1 / max(step, 1)), min_value)"))
T('c19-twin-expdecay-commute', 'C19', 'min(cap, 1 - 1/step)',
  (HP, "        return min(1 - (1 / step), min_value)", "        return min(min_value, 1 - 1 / step)"))
