"""Must-fire mutants and silent twins, one list; see tools/selftest.py.

Every mutant keeps kfac importable; mutants are edits a maintainer could
plausibly commit and that the pinned suite does not notice (spot-checked, not
all re-run).  Twins are behaviour-preserving edits that must stay silent.
"""
CASES: list[dict] = []


def M(id, prop, rule, what, *edits):  # noqa: A002
    CASES.append({'id': id, 'prop': prop, 'expect': 'fire', 'rule': rule, 'what': what, 'edits': list(edits)})


def T(id, prop, what, *edits):  # noqa: A002
    CASES.append({'id': id, 'prop': prop, 'expect': 'silent', 'what': what, 'edits': list(edits)})


TR = 'kfac/tracing.py'
BP = 'kfac/base_preconditioner.py'
DI = 'kfac/distributed.py'
AS = 'kfac/assignment.py'
LB = 'kfac/layers/base.py'
LE = 'kfac/layers/eigen.py'
LI = 'kfac/layers/inverse.py'
LM = 'kfac/layers/modules.py'
LU = 'kfac/layers/utils.py'
LR = 'kfac/layers/register.py'
PC = 'kfac/preconditioner.py'
SC = 'kfac/scheduler.py'
HP = 'kfac/hyperparams.py'
GA = 'kfac/gpt_neox/assignment.py'
GL = 'kfac/gpt_neox/layer.py'
GP = 'kfac/gpt_neox/preconditioner.py'
GM = 'kfac/gpt_neox/modules.py'
GU = 'kfac/gpt_neox/mpu.py'

# ---------------------------------------------------------------- C20
M('c20-call-twice', 'C20', 'T1', 'traced function called twice',
  (TR, "            out = func(*args, **kwargs)\n", "            func(*args, **kwargs)\n            out = func(*args, **kwargs)\n"))
M('c20-clock-before-call', 'C20', 'T4', 'second clock read moved before the call',
  (TR, "            out = func(*args, **kwargs)\n            if sync:\n                torch.distributed.barrier()\n            t = time.time() - t\n",
       "            t = time.time() - t\n            out = func(*args, **kwargs)\n            if sync:\n                torch.distributed.barrier()\n"))
M('c20-return-none', 'C20', 'T1', 'wrapper drops the return value',
  (TR, "            return out\n\n        return func_timer", "            return None\n\n        return func_timer"))
M('c20-first-sample-lost', 'C20', 'T3', 'first call creates an empty list',
  (TR, "                _func_traces[func.__name__] = [t]", "                _func_traces[func.__name__] = []"))
M('c20-qualname-key', 'C20', 'T3', 'sample keyed by __qualname__',
  (TR, "                _func_traces[func.__name__].append(t)", "                _func_traces[func.__qualname__].append(t)"))
M('c20-mean-over-all', 'C20', 'T5', 'mean divides by the unwindowed count',
  (TR, "            out[fname] /= len(times)", "            out[fname] /= len(_func_traces[fname])"))
M('c20-window-first', 'C20', 'T5', 'window takes the first max_history samples',
  (TR, "times = times[-max_history:]", "times = times[:max_history]"))
M('c20-clear-noop', 'C20', 'T6', 'clear_trace rebinds a local',
  (TR, "    _func_traces.clear()", "    _func_traces = {}  # noqa: F841"))
M('c20-swallow', 'C20', 'T2', 'exceptions of the traced function swallowed',
  (TR, "            out = func(*args, **kwargs)\n", "            try:\n                out = func(*args, **kwargs)\n            except Exception:\n                out = None\n"))
M('c20-mixed-clocks', 'C20', 'T4', 'two different clocks',
  (TR, "            t = time.time() - t", "            t = time.perf_counter() - t"))
M('c20-double-record', 'C20', 'T3', 'sample appended twice after first call',
  (TR, "                _func_traces[func.__name__].append(t)", "                _func_traces[func.__name__].append(t)\n                _func_traces[func.__name__].append(t)"))
T('c20-twin-perf-counter', 'C20', 'perf_counter for both reads',
  (TR, "            t = time.time()\n", "            t = time.perf_counter()\n"),
  (TR, "            t = time.time() - t", "            t = time.perf_counter() - t"))
T('c20-twin-rename', 'C20', 'renamed locals',
  (TR, "            t = time.time()\n            out = func(*args, **kwargs)", "            start = time.time()\n            out = func(*args, **kwargs)"),
  (TR, "            t = time.time() - t", "            t = time.time() - start"))
T('c20-twin-setdefault', 'C20', 'setdefault().append idiom',
  (TR, "            if func.__name__ not in _func_traces:\n                _func_traces[func.__name__] = [t]\n            else:\n                _func_traces[func.__name__].append(t)\n",
       "            _func_traces.setdefault(func.__name__, []).append(t)\n"))

# ---------------------------------------------------------------- C19
M('c19-crosswire-lambda', 'C19', 'SIB-SCHED', 'damping block uses the factor_decay lambda',
  (SC, "            factor = self._damping_lambda(\n", "            factor = self._factor_decay_lambda(\n"))
M('c19-crosswire-target', 'C19', None, 'kl_clip block multiplies lr',
  (SC, "            self._preconditioner._kl_clip *= factor", "            self._preconditioner._lr *= factor"))
M('c19-no-int', 'C19', 'AFF-SCHED', 'inv_update_steps not truncated',
  (SC, "            self._preconditioner._inv_update_steps = int(\n                self._preconditioner._inv_update_steps * factor,\n            )",
       "            self._preconditioner._inv_update_steps = (\n                self._preconditioner._inv_update_steps * factor\n            )"))
M('c19-additive', 'C19', 'AFF-SCHED', 'lr updated additively',
  (SC, "            self._preconditioner._lr *= factor", "            self._preconditioner._lr += factor"))
M('c19-ignores-explicit-step', 'C19', 'STEP-PREC', 'lr block ignores the explicit step',
  (SC, "            factor = self._lr_lambda(\n                step if step is not None else self._preconditioner.steps,\n            )",
       "            factor = self._lr_lambda(\n                self._preconditioner.steps,\n            )"))
M('c19-step-truthiness', 'C19', 'STEP-PREC', 'explicit step 0 treated as absent',
  (SC, "            factor = self._kl_clip_lambda(\n                step if step is not None else self._preconditioner.steps,",
       "            factor = self._kl_clip_lambda(\n                step if step else self._preconditioner.steps,"))
M('c19-refusal-dropped', 'C19', 'SIB-REFUSE', 'refusal tests the wrong parameter',
  (SC, "            if callable(self._preconditioner._kl_clip):", "            if callable(self._preconditioner._lr):"))
M('c19-ctor-crosswire', 'C19', 'SIB-SCHED', 'constructor stores the wrong lambda',
  (SC, "        self._damping_lambda = damping_lambda", "        self._damping_lambda = factor_decay_lambda"))
M('c19-round-intervals', 'C19', 'AFF-SCHED', 'round() instead of int()',
  (SC, "            self._preconditioner._factor_update_steps = int(", "            self._preconditioner._factor_update_steps = round("))
M('c19-expdecay-max', 'C19', 'AFF-EXPDECAY', 'max for min',
  (HP, "        return min(1 - (1 / step), min_value)", "        return max(1 - (1 / step), min_value)"))
M('c19-expdecay-plus', 'C19', 'AFF-EXPDECAY', '1 - 1/(k+1)',
  (HP, "        return min(1 - (1 / step), min_value)", "        return min(1 - (1 / (step + 1)), min_value)"))
M('c19-expdecay-cap-check', 'C19', 'AFF-EXPDECAY', 'cap < 0 instead of <= 0',
  (HP, "    if min_value <= 0:", "    if min_value < 0:"))
M('c19-expdecay-neg-ok', 'C19', 'AFF-EXPDECAY', 'step <= 0 mapped to 1 (negative accepted)',
  (HP, "        if step < 0:\n            raise ValueError(\n                f'step value cannot be negative. Got step={step}.',\n            )\n        if step == 0:", "        if step <= 0:"))
T('c19-twin-expanded-mul', 'C19', 'x = x * factor instead of *=',
  (SC, "            self._preconditioner._damping *= factor", "            self._preconditioner._damping = self._preconditioner._damping * factor"))
T('c19-twin-commuted', 'C19', 'factor * old',
  (SC, "                self._preconditioner._inv_update_steps * factor,", "                factor * self._preconditioner._inv_update_steps,"))
T('c19-twin-is-none-flip', 'C19', 'preconditioner.steps if step is None else step',
  (SC, "            factor = self._lr_lambda(\n                step if step is not None else self._preconditioner.steps,",
       "            factor = self._lr_lambda(\n                self._preconditioner.steps if step is None else step,"))
T('c19-twin-expdecay-max', 'C19', 'max(step, 1) instead of the zero branch',
  (HP, "        if step == 0:\n            step = 1\n        return min(1 - (1 / step), min_value)", "        return min(1 - (1 / max(step, 1)), min_value)"))
T('c19-twin-expdecay-commute', 'C19', 'min(cap, 1 - 1/step)',
  (HP, "        return min(1 - (1 / step), min_value)", "        return min(min_value, 1 - 1 / step)"))

M('c06-isclose-abs-tol-only', 'C06', 'FLT-INT', 'integrality test with rel_tol=0 and an absolute tolerance below one ulp of a two-digit count',
  (AS, "if not math.isclose(grad_workers, round(grad_workers)):", "if not math.isclose(grad_workers, round(grad_workers), rel_tol=0.0, abs_tol=1e-15):"))
M('c06-isclose-rel-tol-tiny', 'C06', 'FLT-INT', 'relative tolerance below the rounding error of the product',
  (AS, "if not math.isclose(grad_workers, round(grad_workers)):", "if not math.isclose(grad_workers, round(grad_workers), rel_tol=1e-17):"))
T('c06-twin-isclose-explicit-tol', 'C06', 'explicit tolerances that cover the rounding error',
  (AS, "if not math.isclose(grad_workers, round(grad_workers)):", "if not math.isclose(grad_workers, round(grad_workers), rel_tol=1e-12, abs_tol=0.0):"))
T('c06-twin-isclose-abs-tol-wide', 'C06', 'absolute tolerance 1e-6 with rel_tol=0',
  (AS, "if not math.isclose(grad_workers, round(grad_workers)):", "if not math.isclose(grad_workers, round(grad_workers), rel_tol=0.0, abs_tol=1e-6):"))
M('c01-skip-inverse-when-present', 'C01', 'MEMO-KEY', 'compute_a_inv returns early while an inverse exists and a generation stamp matches; damping is not compared',
  (LI, "            raise RuntimeError('Cannot invert A before A has been computed')\n\n        d = torch.diag(", "            raise RuntimeError('Cannot invert A before A has been computed')\n        if self.a_inv is not None and getattr(self, '_a_src', None) is self.a_factor:\n            return\n        self._a_src = self.a_factor\n\n        d = torch.diag("))
T('c01-twin-skip-inverse-keyed-by-damping', 'C01', 'the same early return, keyed by the factor identity and by the damping it was computed with',
  (LI, "            raise RuntimeError('Cannot invert A before A has been computed')\n\n        d = torch.diag(", "            raise RuntimeError('Cannot invert A before A has been computed')\n        if self.a_inv is not None and getattr(self, '_a_src', None) is self.a_factor and getattr(self, '_a_damping', None) == damping:\n            return\n        self._a_src = self.a_factor\n        self._a_damping = damping\n\n        d = torch.diag("))
M('c15-pointwise-fast-path-above-pad', 'C15', 'DOM-PAD', '1x1 fast path returns above the padding step',
  (LM, "        stride = cast(List[int], self.module.stride)\n        if padding[0] + padding[1] > 0:", "        stride = cast(List[int], self.module.stride)\n        if kernel_size[0] == 1 and kernel_size[1] == 1:\n            return x[:, :, :: stride[0], :: stride[1]].permute(0, 2, 3, 1).contiguous()\n        if padding[0] + padding[1] > 0:"))
# ---------------------------------------------------------------- C05
M('c05-gate-plus-one', 'C05', 'AFF-GATE', '(steps+1) % inv_update_steps',
  (BP, "        if self.steps % self.inv_update_steps == 0:", "        if (self.steps + 1) % self.inv_update_steps == 0:"))
M('c05-wrong-interval', 'C05', 'DOM-INVGATE', 'inverse phase gated by the factor interval',
  (BP, "        if self.steps % self.inv_update_steps == 0:", "        if self.steps % self.factor_update_steps == 0:"))
M('c05-extra-conjunct', 'C05', 'DOM-INVGATE', 'inverse refresh also needs a factor step',
  (BP, "        if self.steps % self.inv_update_steps == 0:", "        if self.steps % self.inv_update_steps == 0 and self.steps % self.factor_update_steps == 0:"))
M('c05-skip-step0', 'C05', 'DOM-INVGATE', 'no inverse on step 0',
  (BP, "        if self.steps % self.inv_update_steps == 0:", "        if self.steps > 0 and self.steps % self.inv_update_steps == 0:"))
M('c05-hook-wrong-interval', 'C05', 'DOM-FGATE', 'backward hook gated by the inverse interval',
  (BP, "        if self.steps % self.factor_update_steps == 0:\n            name, layer = self._layers[module]\n            if isinstance(grad_output",
       "        if self.steps % self.inv_update_steps == 0:\n            name, layer = self._layers[module]\n            if isinstance(grad_output"))
M('c05-hp-next-step', 'C05', 'SIB-HP', 'damping schedule evaluated at steps+1',
  (BP, "            self._damping(self.steps)", "            self._damping(self.steps + 1)"))
M('c05-hp-wrong-field', 'C05', 'SIB-HP', 'lr property returns kl_clip when constant',
  (BP, "        return self._lr(self.steps) if callable(self._lr) else self._lr", "        return self._lr(self.steps) if callable(self._lr) else self._kl_clip"))
M('c05-double-increment', 'C05', 'OWN-STEPS', 'counter incremented twice on inverse steps',
  (BP, "            self._tdc.flush_allreduce_buckets()\n\n        # Compute Preconditioned Gradients", "            self._tdc.flush_allreduce_buckets()\n            self._steps += 1\n\n        # Compute Preconditioned Gradients"))
M('c05-increment-early', 'C05', 'OWN-STEPS', 'counter incremented before the gradient phase',
  (BP, "        # Compute Preconditioned Gradients\n", "        self._steps += 1\n        # Compute Preconditioned Gradients\n"),
  (BP, "            layer.update_grad(scale=scale)\n\n        self._steps += 1\n", "            layer.update_grad(scale=scale)\n\n"))
M('c05-mini-not-reset', 'C05', 'OWN-MINI', 'micro-step table not cleared',
  (BP, "        self._steps += 1\n        self._mini_steps = defaultdict(int)\n", "        self._steps += 1\n"))
M('c05-damping-default', 'C05', 'DOM-DAMPARG', 'compute_g_inv called with the layer default damping',
  (BP, "                if get_rank() == self._assignment.inv_worker(name, 'G'):\n                    layer.compute_g_inv(damping=self.damping)", "                if get_rank() == self._assignment.inv_worker(name, 'G'):\n                    layer.compute_g_inv()"))
M('c05-stale-damping-load', 'C05', 'DOM-DAMPARG', 'damping read before the checkpoint is applied',
  (BP, "        self._steps = state_dict['steps']\n", "        damping = self.damping\n        self._steps = state_dict['steps']\n"),
  (BP, "                layer.compute_a_inv(damping=self.damping)\n                layer.compute_g_inv(damping=self.damping)\n                if (\n", "                layer.compute_a_inv(damping=damping)\n                layer.compute_g_inv(damping=damping)\n                if (\n"))
M('c05-precond-gated', 'C05', 'DOM-ALWAYS', 'preconditioning skipped off inverse steps',
  (BP, "            if self._assignment.is_grad_worker(name):\n                layer.preconditioned_grad(damping=self.damping)", "            if self._assignment.is_grad_worker(name) and self.steps % self.inv_update_steps == 0:\n                layer.preconditioned_grad(damping=self.damping)"))
M('c05-so-written-elsewhere', 'C05', 'OWN-SO', 'preconditioned_grad recomputes eigenvalues clamp in place of cache',
  (LE, "        grad = self.module.get_grad()\n        grad_type = grad.dtype\n        grad = grad.to(self.qa.dtype)\n        v1 = self.qg.t() @ grad @ self.qa", "        grad = self.module.get_grad()\n        grad_type = grad.dtype\n        grad = grad.to(self.qa.dtype)\n        self.qa = self.qa.contiguous()\n        v1 = self.qg.t() @ grad @ self.qa"))
M('c05-dirty-flag-inverse', 'C05', 'DOM-INVGATE', 'inverse refresh skipped while a dirty flag (cleared in step, set in the hooks) is off; read through a local',
  (BP, "        self._mini_steps: dict[str, int] = defaultdict(int)\n", "        self._mini_steps: dict[str, int] = defaultdict(int)\n        self._dirty = True\n"),
  (BP, "        if self.steps % self.inv_update_steps == 0:\n            for name, layer in reversed(list(self._layers.values())):\n                if get_rank() == self._assignment.inv_worker(name, 'A'):",
       "        stale = self._dirty\n        self._dirty = False\n        if self.steps % self.inv_update_steps == 0 and stale:\n            for name, layer in reversed(list(self._layers.values())):\n                if get_rank() == self._assignment.inv_worker(name, 'A'):"),
  (BP, "                layer.update_a_factor(alpha=self.factor_decay)\n                layer.reduce_a_factor(self._assignment.factor_group(name, 'A'))\n\n    @torch.no_grad()",
       "                layer.update_a_factor(alpha=self.factor_decay)\n                layer.reduce_a_factor(self._assignment.factor_group(name, 'A'))\n                self._dirty = True\n\n    @torch.no_grad()"))
M('c05-grad-phase-mutable-flag', 'C05', 'DOM-ALWAYS', 'preconditioning skipped while a flag toggled by step() is off',
  (BP, "        self._mini_steps: dict[str, int] = defaultdict(int)\n", "        self._mini_steps: dict[str, int] = defaultdict(int)\n        self._warm = False\n"),
  (BP, "            if self._assignment.is_grad_worker(name):\n                layer.preconditioned_grad(damping=self.damping)", "            if self._assignment.is_grad_worker(name) and self._warm:\n                layer.preconditioned_grad(damping=self.damping)"),
  (BP, "        self._steps += 1\n        self._mini_steps = defaultdict(int)\n", "        self._steps += 1\n        self._warm = True\n        self._mini_steps = defaultdict(int)\n"))
T('c05-twin-guard-on-construction-field', 'C05', 'inverse gate also tests a field that only __init__ writes (always true)',
  (BP, "        self._mini_steps: dict[str, int] = defaultdict(int)\n", "        self._mini_steps: dict[str, int] = defaultdict(int)\n        self._enabled = True\n"),
  (BP, "        if self.steps % self.inv_update_steps == 0:\n            for name, layer in reversed(", "        if self.steps % self.inv_update_steps == 0 and self._enabled:\n            for name, layer in reversed("))
T('c05-twin-hoist-damping-step', 'C05', 'damping hoisted to a local at the top of step()',
  (BP, "        # Compute Inverses\n        if self.steps % self.inv_update_steps == 0:", "        damping = self.damping\n        # Compute Inverses\n        if self.steps % self.inv_update_steps == 0:"),
  (BP, "                if get_rank() == self._assignment.inv_worker(name, 'A'):\n                    layer.compute_a_inv(damping=self.damping)", "                if get_rank() == self._assignment.inv_worker(name, 'A'):\n                    layer.compute_a_inv(damping=damping)"))
T('c05-twin-gate-commuted', 'C05', '0 == steps % interval',
  (BP, "        if self.steps % self.inv_update_steps == 0:", "        if 0 == self._steps % self.inv_update_steps:"))
T('c05-twin-not-neq', 'C05', 'not (steps % interval != 0)',
  (BP, "        if self.steps % self.inv_update_steps == 0:", "        if not self.steps % self.inv_update_steps != 0:"))
T('c05-twin-positional-damping', 'C05', 'damping passed positionally',
  (BP, "                    layer.compute_g_inv(damping=self.damping)\n                if (\n                    self._assignment.broadcast_inverses()\n                    and self._assignment.is_grad_worker(name)\n                ):\n                    layer.broadcast_g_inv(\n                        src=self._assignment.inv_worker(name, 'G'),\n                        group=self._assignment.grad_worker_group(name),\n                    )\n            self._tdc",
       "                    layer.compute_g_inv(self.damping)\n                if (\n                    self._assignment.broadcast_inverses()\n                    and self._assignment.is_grad_worker(name)\n                ):\n                    layer.broadcast_g_inv(\n                        src=self._assignment.inv_worker(name, 'G'),\n                        group=self._assignment.grad_worker_group(name),\n                    )\n            self._tdc"))
T('c05-twin-hp-if-stmt', 'C05', 'property written with if/return',
  (BP, "        return self._lr(self.steps) if callable(self._lr) else self._lr", "        if callable(self._lr):\n            return self._lr(self.steps)\n        return self._lr"))

# ---------------------------------------------------------------- C09
M('c09-steps-restored-last', 'C09', 'DOM-DAMPARG', 'step counter restored after the recomputation',
  (BP, "        self._steps = state_dict['steps']\n        if 'factor_update_steps' in state_dict:", "        if 'factor_update_steps' in state_dict:"),
  (BP, "                        src=self._assignment.inv_worker(name, 'G'),\n                        group=self._assignment.grad_worker_group(name),\n                    )\n\n    @torch.no_grad()",
       "                        src=self._assignment.inv_worker(name, 'G'),\n                        group=self._assignment.grad_worker_group(name),\n                    )\n        self._steps = state_dict['steps']\n\n    @torch.no_grad()"))
M('c09-key-not-restored', 'C09', 'TAB-SD', 'kl_clip saved but not restored',
  (BP, "        if 'kl_clip' in state_dict:\n            self._kl_clip = state_dict['kl_clip']\n", ""))
M('c09-crosswired-restore', 'C09', 'TAB-SD', 'lr restored from the damping key',
  (BP, "            self._lr = state_dict['lr']", "            self._lr = state_dict['damping']"))
M('c09-crosswired-save', 'C09', 'TAB-SD', 'factor_decay saved from damping',
  (BP, "            state_dict['factor_decay'] = self._factor_decay", "            state_dict['factor_decay'] = self._damping"))
M('c09-save-callable', 'C09', 'TAB-SD', 'damping saved even when callable',
  (BP, "        if not callable(self._damping):\n            state_dict['damping'] = self._damping", "        state_dict['damping'] = self._damping"))
M('c09-layer-swap', 'C09', 'TAB-LAYER', "layer restores G from key 'A'",
  (LB, "            self.g_factor = state_dict['G'].to(device)", "            self.g_factor = state_dict['A'].to(device)"))
M('c09-raw-slot-saved', 'C09', 'TAB-LAYER', 'raw (possibly Future) slot saved',
  (LB, "        return {'A': self.a_factor, 'G': self.g_factor}", "        return {'A': self._a_factor, 'G': self._g_factor}"))
M('c09-count-after-load', 'C09', 'DOM-COUNT', 'layer count compared with >',
  (BP, "            if len(state_dict['layers']) != len(self._layers):", "            if len(state_dict['layers']) > len(self._layers):"))
M('c09-load-by-position', 'C09', 'DOM-COUNT', 'layers matched by position instead of name',
  (BP, "            for found_name, layer_state in state_dict['layers'].items():\n                for name, layer in self._layers.values():\n                    if found_name == name:\n                        layer.load_state_dict(layer_state)",
       "            for layer_state, (name, layer) in zip(\n                state_dict['layers'].values(),\n                self._layers.values(),\n            ):\n                layer.load_state_dict(layer_state)"))
M('c09-unguarded-broadcast', 'C09', 'S2', 'revert of the membership guard (F2)',
  (BP, "                layer.compute_g_inv(damping=self.damping)\n                if (\n                    self._assignment.broadcast_inverses()\n                    and self._assignment.is_grad_worker(name)\n                ):\n                    layer.broadcast_a_inv(\n                        src=self._assignment.inv_worker(name, 'A'),\n                        group=self._assignment.grad_worker_group(name),\n                    )\n                    layer.broadcast_g_inv(", "                layer.compute_g_inv(damping=self.damping)\n                if self._assignment.broadcast_inverses():\n                    layer.broadcast_a_inv(\n                        src=self._assignment.inv_worker(name, 'A'),\n                        group=self._assignment.grad_worker_group(name),\n                    )\n                    layer.broadcast_g_inv("))
T('c09-twin-steps-private', 'C09', "state saved from self._steps",
  (BP, "state_dict: dict[str, Any] = {'steps': self.steps}", "state_dict: dict[str, Any] = {'steps': self._steps}"))
T('c09-twin-reordered-restores', 'C09', 'restores reordered',
  (BP, "        if 'kl_clip' in state_dict:\n            self._kl_clip = state_dict['kl_clip']\n        if 'lr' in state_dict:\n            self._lr = state_dict['lr']\n", "        if 'lr' in state_dict:\n            self._lr = state_dict['lr']\n        if 'kl_clip' in state_dict:\n            self._kl_clip = state_dict['kl_clip']\n"))

# ---------------------------------------------------------------- C13
M('c13-unguarded-compute', 'C13', 'DOM-ROLE', 'every rank eigendecomposes A',
  (BP, "                if get_rank() == self._assignment.inv_worker(name, 'A'):\n                    layer.compute_a_inv(damping=self.damping)", "                if True:\n                    layer.compute_a_inv(damping=self.damping)"))
M('c13-world-inverse-bcast', 'C13', 'COH-SRC', 'A inverse broadcast on the world group',
  (BP, "                    layer.broadcast_a_inv(\n                        src=self._assignment.inv_worker(name, 'A'),\n                        group=self._assignment.grad_worker_group(name),\n                    )\n                if get_rank()", "                    layer.broadcast_a_inv(\n                        src=self._assignment.inv_worker(name, 'A'),\n                        group=None,\n                    )\n                if get_rank()"))
M('c13-wrong-factor-src', 'C13', 'COH-SRC', 'A inverse broadcast from the G worker',
  (BP, "                    layer.broadcast_a_inv(\n                        src=self._assignment.inv_worker(name, 'A'),\n                        group=self._assignment.grad_worker_group(name),\n                    )\n                if get_rank()", "                    layer.broadcast_a_inv(\n                        src=self._assignment.inv_worker(name, 'G'),\n                        group=self._assignment.grad_worker_group(name),\n                    )\n                if get_rank()"))
M('c13-flag-le', 'C13', 'AFF-FLAGS', '<= for < in broadcast_gradients',
  (AS, "        return self.grad_workers < self.world_size", "        return self.grad_workers <= self.world_size"))
M('c13-mem-missing-dgda', 'C13', 'EXH-MEM', 'dgda not counted',
  (LE, "        g_size += (\n            self.dgda.nelement() * self.dgda.element_size()\n            if self.dgda is not None\n            else 0\n        )\n", ""))
M('c13-mem-elements-only', 'C13', 'EXH-MEM', 'a_inv counted in elements, not bytes',
  (LI, "            self.a_inv.nelement() * self.a_inv.element_size()", "            self.a_inv.nelement()"))
M('c13-double-reduce', 'C13', 'EXCL-HOOK', 'step-mode block runs in hook mode too',
  (BP, "        if (\n            not self._update_factors_in_hook\n            and self.steps % self.factor_update_steps == 0\n        ):", "        if self.steps % self.factor_update_steps == 0:"))
M('c13-reduce-on-inv-steps', 'C13', 'DOM-FGATE', 'factors allreduced again on inverse steps',
  (BP, "            and self.steps % self.factor_update_steps == 0\n        ):", "            and (\n                self.steps % self.factor_update_steps == 0\n                or self.steps % self.inv_update_steps == 0\n            )\n        ):"))
M('c13-precond-everywhere', 'C13', 'DOM-ROLE', 'all ranks precondition',
  (BP, "            if self._assignment.is_grad_worker(name):\n                layer.preconditioned_grad(damping=self.damping)", "            if True:\n                layer.preconditioned_grad(damping=self.damping)"))
T('c13-twin-flag-mirrored', 'C13', 'world_size > grad_workers',
  (AS, "        return self.grad_workers < self.world_size", "        return self.world_size > self.grad_workers"))

# ---------------------------------------------------------------- C02
M('c02-no-average', 'C02', 'AFF-AVG', 'G reduction not averaged',
  (LB, "        self.g_factor = allreduce(  # type: ignore\n            self.g_factor,\n            average=True,", "        self.g_factor = allreduce(  # type: ignore\n            self.g_factor,\n            average=False,"))
M('c02-avg-world', 'C02', 'AFF-AVG', 'bucketed average divides by the world size',
  (DI, "            t = future_.value()\n            if average:\n                t = (1 / get_world_size(group)) * t", "            t = future_.value()\n            if average:\n                t = (1 / get_world_size()) * t"))
M('c02-raw-slot-read', 'C02', 'TS-FUT', 'preconditioned_grad reads the raw qa slot',
  (LE, "        v1 = self.qg.t() @ grad @ self.qa\n        if self.prediv_eigenvalues:\n            v2 = v1 * self.dgda\n        else:\n            v2 = v1 / (\n                torch.outer(\n                    cast(torch.Tensor, self.dg),", "        v1 = self.qg.t() @ grad @ self._qa  # type: ignore\n        if self.prediv_eigenvalues:\n            v2 = v1 * self.dgda\n        else:\n            v2 = v1 / (\n                torch.outer(\n                    cast(torch.Tensor, self.dg),"))
M('c02-future-dropped', 'C02', 'TS-FUT-USED', 'broadcast result of da stored into qa',
  (LE, "            self.da = self.tdc.broadcast(  # type: ignore\n                self.da,", "            self.qa = self.tdc.broadcast(  # type: ignore\n                self.da,"))
M('c02-getter-no-store', 'C02', 'TS-FUT', 'getter does not store the awaited tensor',
  (LB, "        if isinstance(self._grad, Future):\n            self._grad = cast(torch.Tensor, self._grad.wait())\n        return self._grad", "        if isinstance(self._grad, Future):\n            return cast(torch.Tensor, self._grad.wait())\n        return self._grad"))
M('c02-scale-before-bcast', 'C02', 'DOM-PHASE', 'clip scale computed before the gradient phase',
  (BP, "        # Compute Preconditioned Gradients\n", "        scale = None if self.kl_clip is None else self._compute_grad_scale()\n        # Compute Preconditioned Gradients\n"),
  (BP, "                )\n        self._tdc.flush_allreduce_buckets()\n\n        scale = None if self.kl_clip is None else self._compute_grad_scale()\n", "                )\n        self._tdc.flush_allreduce_buckets()\n"))
M('c02-hybrid-third', 'C02', 'ENUM-STRAT', 'HYBRID_OPT mapped to 0.25',
  (PC, "                grad_worker_fraction = 0.5", "                grad_worker_fraction = 0.25"))
M('c02-grad-src-inv-worker', 'C02', 'COH-SRC', 'gradient broadcast from the inverse worker',
  (BP, "                    src=self._assignment.src_grad_worker(name),", "                    src=self._assignment.inv_worker(name, 'A'),"))
M('c02-wrong-decay', 'C02', 'COH-SRC', 'G factor averaged with damping as decay',
  (BP, "                layer.update_g_factor(alpha=self.factor_decay)\n                layer.reduce_g_factor(self._assignment.factor_group(name, 'G'))\n\n        # Flush", "                layer.update_g_factor(alpha=self.damping)\n                layer.reduce_g_factor(self._assignment.factor_group(name, 'G'))\n\n        # Flush"))

# ---------------------------------------------------------------- C17 / C06 / C12 (assignment)
M('c17-max-group', 'C17', 'DIR-MIN', 'most-loaded group chosen',
  (AS, "                worker_group_loads.index(min(worker_group_loads))", "                worker_group_loads.index(max(worker_group_loads))"))
M('c17-ascending', 'C17', 'DIR-SORT', 'layers placed in increasing cost',
  (AS, "                key=lambda item: item[1],\n                reverse=True,", "                key=lambda item: item[1],"))
M('c17-sort-by-name', 'C17', 'DIR-SORT', 'layers ordered by name',
  (AS, "                key=lambda item: item[1],\n                reverse=True,", "                key=lambda item: item[0],\n                reverse=True,"))
M('c17-stale-group-loads', 'C17', 'DET-STALE', 'group loads hoisted out of the layer loop',
  (AS, "        for layer in sorted_groups:\n            # Sum up loads across workers in each worker group\n            worker_group_loads = [\n                sum(worker_loads[i] for i in group) for group in worker_groups\n            ]\n",
       "        worker_group_loads = [\n            sum(worker_loads[i] for i in group) for group in worker_groups\n        ]\n        for layer in sorted_groups:\n"))
M('c17-stale-worker-loads', 'C17', 'DET-STALE', 'worker loads computed once per layer in the per-factor branch',
  (AS, "                for factor, cost in factors:\n                    _worker_group_loads = [\n                        worker_loads[i] for i in worker_group\n                    ]\n", "                _worker_group_loads = [\n                    worker_loads[i] for i in worker_group\n                ]\n                for factor, cost in factors:\n"))
M('c17-index-as-rank', 'C17', 'COH-CONFINE', 'position in the group used as the rank',
  (AS, "                min_worker = worker_group[\n                    _worker_group_loads.index(min(_worker_group_loads))\n                ]\n                worker_loads[min_worker] += summed_work[layer]", "                min_worker = _worker_group_loads.index(min(_worker_group_loads))\n                worker_loads[min_worker] += summed_work[layer]"))
M('c17-wrong-group-index', 'C17', 'COH-CONFINE', 'worker index applied to the list of all groups',
  (AS, "                    min_worker = worker_group[\n                        _worker_group_loads.index(min(_worker_group_loads))\n                    ]\n                    worker_loads[min_worker] += cost", "                    min_worker = worker_groups[0][\n                        _worker_group_loads.index(min(_worker_group_loads))\n                    ]\n                    worker_loads[min_worker] += cost"))
M('c17-load-not-updated', 'C17', 'AFF-LOAD', 'per-factor load update dropped',
  (AS, "                    worker_loads[min_worker] += cost\n", ""))
M('c17-load-wrong-cost', 'C17', 'AFF-LOAD', 'colocated load grows by 1',
  (AS, "                worker_loads[min_worker] += summed_work[layer]", "                worker_loads[min_worker] += 1"))
M('c17-global-state', 'C17', 'DET-PURE', 'tie-break reads a module-level counter',
  (AS, "        worker_loads = [0.0] * world_size\n", "        worker_loads = [0.0] * world_size\n        worker_loads[0] += _BIAS\n"),
  (AS, "@dataclass(frozen=True)\nclass _Group:", "_BIAS = 0.0\n\n\n@dataclass(frozen=True)\nclass _Group:"))
M('c17-set-order', 'C17', 'DET-HASH', 'layers ordered through a set of names',
  (AS, "        sorted_groups = [\n            layer\n            for layer, _ in sorted(\n                summed_work.items(),\n                key=lambda item: item[1],\n                reverse=True,\n            )\n        ]", "        sorted_groups = sorted(\n            set(summed_work),\n            key=summed_work.__getitem__,\n            reverse=True,\n        )"))
T('c17-twin-negated-key', 'C17', 'sorted by negated cost',
  (AS, "                key=lambda item: item[1],\n                reverse=True,", "                key=lambda item: -item[1],"))
T('c17-twin-rename', 'C17', 'renamed load list',
  (AS, "                _worker_group_loads = [worker_loads[i] for i in worker_group]\n                min_worker = worker_group[\n                    _worker_group_loads.index(min(_worker_group_loads))\n                ]", "                loads_here = [worker_loads[r] for r in worker_group]\n                min_worker = worker_group[\n                    loads_here.index(min(loads_here))\n                ]"))

M('c06-int-truncation', 'C06', 'FLT-INT', 'int() after the tolerant test',
  (AS, "            grad_workers = round(grad_workers)", "            grad_workers = int(grad_workers)"))
M('c06-exact-integrality', 'C06', 'FLT-INT', 'revert of F3',
  (AS, "        if not math.isclose(grad_workers, round(grad_workers)):", "        if grad_workers != int(grad_workers):"))
M('c06-rank-tiebreak', 'C06', 'DET-UNIF', 'greedy assignment seeded with the local rank',
  (AS, "        self._inv_assignments = self.greedy_assignment(\n            work,\n            [list(ranks) for ranks in grad_worker_ranks],", "        self._inv_assignments = self.greedy_assignment(\n            work,\n            [list(ranks) for ranks in grad_worker_ranks][self.local_rank % 1:],"))
M('c06-row-for-column', 'C06', 'COH-GRID', 'worker group looked up among the receiver rows',
  (AS, "            for ranks in grad_worker_ranks:\n                if inv_worker in ranks:", "            for ranks in grad_receiver_ranks:\n                if inv_worker in ranks:"))
M('c06-handle-mismatch', 'C06', 'COH-GRID', 'receiver record gets the handle of the worker ranks',
  (AS, "                    self._grad_receiver_groups[layer] = _Group(\n                        ranks=ranks,\n                        group=ranks_to_communication_group[ranks],", "                    self._grad_receiver_groups[layer] = _Group(\n                        ranks=ranks,\n                        group=self._grad_worker_groups[layer].group,"))
M('c06-stride-grad-workers', 'C06', 'AFF-GRID', 'columns strided by the worker count',
  (AS, "            frozenset(range(i, world_size, partitions))\n            for i in range(partitions)", "            frozenset(range(i, world_size, grad_workers))\n            for i in range(partitions)"))
M('c06-rows-off', 'C06', 'AFF-GRID', 'rows of the wrong length',
  (AS, "            frozenset(range(i * partitions, i * partitions + partitions))", "            frozenset(range(i * partitions, i * partitions + grad_workers))"))
M('c06-src-from-worker-group', 'C06', 'COH-GRID', 'gradient source = minimum of the worker group',
  (AS, "        return set(\n            self._grad_worker_groups[layer].ranks\n            & self._grad_receiver_groups[layer].ranks,\n        ).pop()", "        return min(self._grad_worker_groups[layer].ranks)"))
M('c06-group-only-members', 'C06', 'S4', 'process groups created only by their members',
  (AS, "            ranks_to_communication_group[ranks] = self.group_func(list(ranks))", "            ranks_to_communication_group[ranks] = (\n                self.group_func(list(ranks)) if self.local_rank in ranks else None\n            )"))
T('c06-twin-rows-factored', 'C06', '(i+1)*partitions',
  (AS, "            frozenset(range(i * partitions, i * partitions + partitions))", "            frozenset(range(i * partitions, (i + 1) * partitions))"))
T('c06-twin-sorted-ranks', 'C06', 'group_func(sorted(ranks))',
  (AS, "            ranks_to_communication_group[ranks] = self.group_func(list(ranks))", "            ranks_to_communication_group[ranks] = self.group_func(sorted(ranks))"))

M('c12-index-as-rank', 'C12', 'COH-CONFINE', 'peer index stored as the inverse worker',
  (GA, "            min_worker = self.pipe_parallel_peers[min_worker_index]", "            min_worker = min_worker_index"))
M('c12-max-load', 'C12', 'DIR-MIN', 'most loaded peer chosen',
  (GA, "            min_worker_index = worker_loads.index(min(worker_loads))", "            min_worker_index = worker_loads.index(max(worker_loads))"))
M('c12-no-tiebreak', 'C12', 'DET-TIE', 'sort key without the name',
  (GA, "            key=lambda item: (item[1], item[0]),", "            key=lambda item: (item[1],),"))
M('c12-factor-worker-mp-inv', 'C12', 'ROLE-GRP', 'factor worker uses the model-parallel group of the inverse worker',
  (GA, "        data_parallel_ranks = get_group_with_rank(\n            inv_rank,\n            self.data_parallel_groups,\n        )", "        data_parallel_ranks = get_group_with_rank(\n            inv_rank,\n            self.model_parallel_groups,\n        )"))
M('c12-src-self-mp', 'C12', 'ROLE-GRP', 'gradient source from the own model-parallel group',
  (GA, "        model_parallel_ranks = get_group_with_rank(\n            src_rank,\n            self.model_parallel_groups,\n        )", "        model_parallel_ranks = get_group_with_rank(\n            self.local_rank,\n            self.model_parallel_groups,\n        )"))
M('c12-range-membership', 'C12', 'ROLE-GRP', 'range test instead of membership',
  (GU, "        if rank in group:", "        if group[0] <= rank <= group[-1]:"))
M('c12-revert-f5', 'C12', 'S4', 'stage group created only on its members (revert of F5)',
  (GA, "            stage_peers: dict[int, list[int]] = {}\n            for r in range(topology.world_size()):\n                stage_peers.setdefault(topology.get_coord(r).pipe, []).append(r)\n            self.pipe_parallel_peer_group = None\n            for stage in sorted(stage_peers):\n                stage_group = dist.new_group(stage_peers[stage])\n                if stage == self.pipe_parallel_rank:\n                    self.pipe_parallel_peer_group = stage_group\n", "            self.pipe_parallel_peer_group = dist.new_group(\n                self.pipe_parallel_peers,\n            )\n"))
M('c12-reuse-mp-always', 'C12', 'GRP-REUSE', 'model-parallel group reused as the stage group',
  (GA, "            stage_peers: dict[int, list[int]] = {}\n            for r in range(topology.world_size()):\n                stage_peers.setdefault(topology.get_coord(r).pipe, []).append(r)\n            self.pipe_parallel_peer_group = None\n            for stage in sorted(stage_peers):\n                stage_group = dist.new_group(stage_peers[stage])\n                if stage == self.pipe_parallel_rank:\n                    self.pipe_parallel_peer_group = stage_group\n", "            self.pipe_parallel_peer_group = self.model_parallel_group\n"))
M('c12-load-by-rank', 'C12', 'AFF-LOAD', 'position-indexed load table updated by rank',
  (GA, "            worker_loads[min_worker_index] += cost", "            worker_loads[min_worker] += cost"))
T('c19-twin-hoisted-step', 'C19', 'effective step resolved once in a prologue',
  (SC, '        if self._factor_update_steps_lambda is not None:\n            factor = self._factor_update_steps_lambda(\n                step if step is not None else self._preconditioner.steps,\n            )',
       '        if step is None:\n            step = self._preconditioner.steps\n        if self._factor_update_steps_lambda is not None:\n            factor = self._factor_update_steps_lambda(\n                step,\n            )'))
M('c19-skip-repeated-step', 'C19', 'SIB-SCHED', 'scheduler returns early when the step repeats',
  (SC, '        if self._factor_update_steps_lambda is not None:\n            factor = self._factor_update_steps_lambda(', '        if step is not None and step == getattr(self, "_last", None):\n            return\n        self._last = step\n        if self._factor_update_steps_lambda is not None:\n            factor = self._factor_update_steps_lambda('))
M('c19-elif-refusals', 'C19', 'SIB-REFUSE', 'refusal checks chained with elif',
  (SC, "        if self._inv_update_steps_lambda is not None:\n            if callable(self._preconditioner._inv_update_steps):", "        elif self._inv_update_steps_lambda is not None:\n            if callable(self._preconditioner._inv_update_steps):"))

# ---------------------------------------------------------------- C16
M('c16-match-not-search', 'C16', 'REG-PRED', 'patterns anchored with match()',
  (LR, "    return any(regex.search(query) for regex in regexes)", "    return any(regex.match(query) for regex in regexes)"))
M('c16-ignorecase', 'C16', 'REG-PRED', 'case-insensitive patterns',
  (LR, "    regexes = [re.compile(p) for p in patterns]", "    regexes = [re.compile(p, re.IGNORECASE) for p in patterns]"))
M('c16-any-trainable', 'C16', 'REG-ALL', 'any() parameter trainable suffices',
  (LR, "    return all([p.requires_grad for p in module.parameters()])", "    return any([p.requires_grad for p in module.parameters()])"))
M('c16-class-not-checked', 'C16', 'REG-GUARD', 'class name not tested against the patterns',
  (LR, "            not any_match(name, skip_layers)\n            and not any_match(module.__class__.__name__, skip_layers)\n            and requires_grad(module)", "            not any_match(name, skip_layers)\n            and requires_grad(module)"))
M('c16-exact-type', 'C16', 'REG-DISPATCH', 'exact type instead of isinstance',
  (LR, "    if isinstance(module, LINEAR_TYPES):", "    if type(module) in LINEAR_TYPES:"))
M('c16-name-prefilter', 'C16', 'REG-DISPATCH', 'class-name prefilter before dispatch',
  (LR, "    if isinstance(module, LINEAR_TYPES):", "    if module.__class__.__name__.lower() not in KNOWN_MODULES:\n        return None\n    if isinstance(module, LINEAR_TYPES):"))
M('c16-non-leaf', 'C16', 'REG-LEAF', 'all modules considered, not only leaves',
  (LR, "        for name, module in root.named_modules()\n        if len(list(module.children())) == 0\n", "        for name, module in root.named_modules()\n"))
M('c16-keyed-by-name', 'C16', 'REG-UNIQ', 'registry keyed by the bare class name',
  (LR, "            kfac_layers[module] = (name, kfac_layer)", "            kfac_layers[module] = (module.__class__.__name__, kfac_layer)"))
M('c16-gpt-lowercase', 'C16', 'SIB-REG', 'revert of F7',
  (GP, "            and not any_match(module.__class__.__name__, skip_layers)", "            and not any_match(module_name, skip_layers)"))
M('c16-gpt-swapped-parallelism', 'C16', 'SIB-REG', 'row-parallel layer helper tagged output',
  (GP, "                    GPTNeoXLinearModuleHelper(\n                        module,\n                        model_parallel_group,\n                        parallelism='input',", "                    GPTNeoXLinearModuleHelper(\n                        module,\n                        model_parallel_group,\n                        parallelism='output',"))
M('c16-hooks-twice', 'C16', 'OWN-HOOKREG', 'forward hook registered again by the subclass',
  (PC, "        logger.log(loglevel, f'KFAC layer assignments: {assignment}')\n", "        logger.log(loglevel, f'KFAC layer assignments: {assignment}')\n        for module in kfac_layers:\n            module.register_forward_pre_hook(self._save_input)\n"))
T('c16-twin-genexp', 'C16', 'generator instead of list in all()',
  (LR, "    return all([p.requires_grad for p in module.parameters()])", "    return all(p.requires_grad for p in module.parameters())"))
T('c16-twin-type-name', 'C16', 'type(module).__name__',
  (LR, "            and not any_match(module.__class__.__name__, skip_layers)", "            and not any_match(type(module).__name__, skip_layers)"))

# ---------------------------------------------------------------- C08
M('c08-key-by-size', 'C08', 'KEY-INJ', 'revert of F4: buckets keyed by group size',
  (DI, "        if group is None or not dist.is_initialized():\n            return frozenset(range(get_world_size(group)))\n        return frozenset(dist.get_process_group_ranks(group))", "        return frozenset(range(get_world_size(group)))"))
M('c08-bucket-world-group', 'C08', 'KEY-INJ', 'new bucket always built for the world group',
  (DI, "        bucket = AllreduceTensorBucket(group)", "        bucket = AllreduceTensorBucket()"))
M('c08-cap-after-add', 'C08', None, 'capacity checked after the tensor is added',
  (DI, "        if bucket.size + tensor_size > self.bucket_cap_bytes:\n            bucket.allreduce()\n            bucket = self._new_allreduce_bucket(group)\n        future = bucket.add_tensor(tensor)\n",
       "        future = bucket.add_tensor(tensor)\n        if bucket.size > self.bucket_cap_bytes:\n            bucket.allreduce()\n            bucket = self._new_allreduce_bucket(group)\n"))
M('c08-cap-ge', 'C08', 'AFF-CAP', '>= instead of >',
  (DI, "        if bucket.size + tensor_size > self.bucket_cap_bytes:", "        if bucket.size + tensor_size >= self.bucket_cap_bytes:"))
M('c08-cap-ignores-incoming', 'C08', 'AFF-CAP', 'overflow test ignores the incoming tensor',
  (DI, "        if bucket.size + tensor_size > self.bucket_cap_bytes:", "        if bucket.size > self.bucket_cap_bytes:"))
M('c08-no-replace', 'C08', 'TS-BKTLIFE', 'full bucket communicated but not replaced',
  (DI, "            bucket.allreduce()\n            bucket = self._new_allreduce_bucket(group)\n        future = bucket.add_tensor(tensor)", "            bucket.allreduce()\n        future = bucket.add_tensor(tensor)"))
M('c08-lost-average', 'C08', 'SIB-CB', 'bucketed callback drops the average',
  (DI, "            t = future_.value()\n            if average:\n                t = (1 / get_world_size(group)) * t\n            if symmetric:", "            t = future_.value()\n            if symmetric:"))
M('c08-lost-refill', 'C08', 'SIB-CB', 'bucketed callback does not refill the symmetric matrix',
  (DI, "                t = (1 / get_world_size(group)) * t\n            if symmetric:\n                t = fill_triu(shape, t)\n            return t\n\n        return future.then(callback_)\n\n    def group_ranks", "                t = (1 / get_world_size(group)) * t\n            return t\n\n        return future.then(callback_)\n\n    def group_ranks"))
M('c08-flush-return', 'C08', 'TS-FLUSH', 'flush returns at the first empty entry',
  (DI, "            if bucket is not None:\n                bucket.allreduce()\n                self._allreduce_buckets[group] = None", "            if bucket is None:\n                return\n            bucket.allreduce()\n            self._allreduce_buckets[group] = None"))
M('c08-flush-no-reset', 'C08', 'TS-FLUSH', 'flush does not reset the entries',
  (DI, "                bucket.allreduce()\n                self._allreduce_buckets[group] = None", "                bucket.allreduce()"))
M('c08-futures-reversed', 'C08', 'PAIR-TF', 'futures resolved in reverse order',
  (DI, "            for sub_tensor, sub_future in zip(tensors, self._futures):", "            for sub_tensor, sub_future in zip(tensors, reversed(self._futures)):"))
M('c08-size-in-elements', 'C08', 'PAIR-TF', 'bucket size counted in elements',
  (DI, "        self._size += tensor.element_size() * tensor.nelement()", "        self._size += tensor.nelement()"))
M('c08-no-short-circuit', 'C08', 'DOM-SHORT', 'single-member short circuit removed from the bucketed path',
  (DI, "        if get_world_size(group) == 1:\n            return tensor\n        shape = tensor.size()\n        if symmetric:\n            if len(shape) != 2 or shape[0] != shape[1]:\n                raise NonSquareTensorError(\n                    'Symmetric communication can only be done with a 2D '\n                    f'square tensor. Got tensor with shape {shape}.',\n                )\n            tensor = get_triu(tensor)\n        tensor_size", "        shape = tensor.size()\n        if symmetric:\n            if len(shape) != 2 or shape[0] != shape[1]:\n                raise NonSquareTensorError(\n                    'Symmetric communication can only be done with a 2D '\n                    f'square tensor. Got tensor with shape {shape}.',\n                )\n            tensor = get_triu(tensor)\n        tensor_size"))
T('c08-twin-commuted-cap', 'C08', 'tensor_size + bucket.size > cap',
  (DI, "        if bucket.size + tensor_size > self.bucket_cap_bytes:", "        if tensor_size + bucket.size > self.bucket_cap_bytes:"))
T('c08-twin-cap-lt', 'C08', 'cap < size + incoming',
  (DI, "        if bucket.size + tensor_size > self.bucket_cap_bytes:", "        if self.bucket_cap_bytes < bucket.size + tensor_size:"))

# ---------------------------------------------------------------- C14
M('c14-pack-swapped', 'C14', 'IDX-TRIU', 'pack gathers the transposed positions',
  (DI, "    return tensor[idxs[0], idxs[1]]", "    return tensor[idxs[1], idxs[0]]"))
M('c14-pack-offset', 'C14', 'IDX-TRIU', 'pack skips the diagonal',
  (DI, "    idxs = torch.triu_indices(\n        tensor.shape[0],\n        tensor.shape[1],\n        device=tensor.device,\n    )", "    idxs = torch.triu_indices(\n        tensor.shape[0],\n        tensor.shape[1],\n        1,\n        device=tensor.device,\n    )"))
M('c14-mirror-wrong-way', 'C14', 'IDX-TRIU', 'mirror copies the (uninitialised) lower triangle up',
  (DI, "    dst_tensor.transpose(0, 1)[idxs[0], idxs[1]] = dst_tensor[idxs[0], idxs[1]]", "    dst_tensor[idxs[0], idxs[1]] = dst_tensor.transpose(0, 1)[idxs[0], idxs[1]]"))
M('c14-mirror-offset2', 'C14', 'IDX-TRIU', 'mirror skips the first off-diagonal',
  (DI, "    idxs = torch.triu_indices(rows, rows, 1, device=dst_tensor.device)", "    idxs = torch.triu_indices(rows, rows, 2, device=dst_tensor.device)"))
M('c14-no-mirror', 'C14', 'IDX-TRIU', 'lower triangle never filled',
  (DI, "    dst_tensor.transpose(0, 1)[idxs[0], idxs[1]] = dst_tensor[idxs[0], idxs[1]]\n", ""))
M('c14-stride-gather', 'C14', 'IDX-LAYOUT', 'flat gather through the memory stride',
  (DI, "    return tensor[idxs[0], idxs[1]]", "    return tensor.reshape(-1)[idxs[0] * tensor.stride(0) + idxs[1]]"))
M('c14-validate-after-pack', 'C14', 'DOM-VALID', 'broadcast validates only squareness',
  (DI, "        if get_world_size(group) == 1:\n            return tensor\n        shape = tensor.size()\n        if symmetric:\n            if len(shape) != 2 or shape[0] != shape[1]:\n                raise NonSquareTensorError(\n                    'Symmetric communication can only be done with a 2D '\n                    f'square tensor. Got tensor with shape {shape}.',\n                )\n            tensor = get_triu(tensor)\n        tensor = tensor.contiguous()\n        future = dist.broadcast(",
       "        if get_world_size(group) == 1:\n            return tensor\n        shape = tensor.size()\n        if symmetric:\n            if shape[0] != shape[-1]:\n                raise NonSquareTensorError(\n                    'Symmetric communication can only be done with a 2D '\n                    f'square tensor. Got tensor with shape {shape}.',\n                )\n            tensor = get_triu(tensor)\n        tensor = tensor.contiguous()\n        future = dist.broadcast("))
M('c14-pack-only-src', 'C14', None, 'only the source packs; compared with the group-local rank',
  (DI, "            tensor = get_triu(tensor)\n        tensor = tensor.contiguous()\n        future = dist.broadcast(", "            if get_rank(group) == src:\n                tensor = get_triu(tensor)\n            else:\n                tensor = tensor.new_empty(shape[0] * (shape[0] + 1) // 2)\n        tensor = tensor.contiguous()\n        future = dist.broadcast("))
M('c14-unpack-wrong-shape', 'C14', 'IDX-TRIU', 'unpack into the packed shape',
  (DI, "                lambda fut: fill_triu(shape, fut.value()[0]),", "                lambda fut: fill_triu(tensor.size(), fut.value()[0]),"))
T('c14-twin-t', 'C14', 'dst.t() instead of transpose(0, 1)',
  (DI, "    dst_tensor.transpose(0, 1)[idxs[0], idxs[1]] = dst_tensor[idxs[0], idxs[1]]", "    dst_tensor.t()[idxs[0], idxs[1]] = dst_tensor[idxs[0], idxs[1]]"))
T('c14-twin-mirror-offset0', 'C14', 'mirror including the diagonal',
  (DI, "    idxs = torch.triu_indices(rows, rows, 1, device=dst_tensor.device)", "    idxs = torch.triu_indices(rows, rows, 0, device=dst_tensor.device)"))

# ---------------------------------------------------------------- C01
M('c01-missing-transpose', 'C01', 'TT-EIG', 'qg instead of qg.t() in the first product',
  (LE, "        v1 = self.qg.t() @ grad @ self.qa\n        if self.prediv_eigenvalues:\n            v2 = v1 * self.dgda\n        else:\n            v2 = v1 / (\n                torch.outer(\n                    cast(torch.Tensor, self.dg),", "        v1 = self.qg @ grad @ self.qa\n        if self.prediv_eigenvalues:\n            v2 = v1 * self.dgda\n        else:\n            v2 = v1 / (\n                torch.outer(\n                    cast(torch.Tensor, self.dg),"))
M('c01-back-transform-swapped', 'C01', 'TT-EIG', 'qa.t() dropped in the back transform',
  (LE, "        self.grad = (self.qg @ v2 @ self.qa.t()).to(grad_type)", "        self.grad = (self.qg @ v2 @ self.qa).to(grad_type)"))
M('c01-outer-swapped', 'C01', 'TT-EIG', 'outer(da, dg)',
  (LE, "                torch.outer(\n                    cast(torch.Tensor, self.dg),\n                    cast(torch.Tensor, self.da),\n                )", "                torch.outer(\n                    cast(torch.Tensor, self.da),\n                    cast(torch.Tensor, self.dg),\n                )"))
M('c01-no-damping', 'C01', 'TT-DAMP', 'damping dropped in the on-the-fly path',
  (LE, "                    cast(torch.Tensor, self.da),\n                )\n                + damping\n            )", "                    cast(torch.Tensor, self.da),\n                )\n            )"))
M('c01-damping-one-spectrum', 'C01', 'TT-DAMP', 'damping added to dg only',
  (LE, "            self.dgda = 1 / (torch.outer(self.dg, self.da) + damping)", "            self.dgda = 1 / torch.outer(self.dg + damping, self.da)"))
M('c01-multiply-spectrum', 'C01', 'TT-UNIT', 'multiply instead of divide',
  (LE, "            v2 = v1 / (\n                torch.outer(", "            v2 = v1 * (\n                torch.outer("))
M('c01-no-clamp-prediv', 'C01', 'TT-PSD', 'clamp only in the non-prediv branch (seed C01-1)',
  (LE, "        self.dg = torch.clamp(self.dg, min=0.0)\n        if self.prediv_eigenvalues:\n            self.dgda = 1 / (torch.outer(self.dg, self.da) + damping)\n            self.dg = None\n            self.da = None", "        if self.prediv_eigenvalues:\n            self.dgda = 1 / (torch.outer(self.dg, self.da) + damping)\n            self.dg = None\n            self.da = None\n        else:\n            self.dg = torch.clamp(self.dg, min=0.0)"))
M('c01-clamp-eps', 'C01', 'TT-PSD', 'A eigenvalues clamped from above',
  (LE, "        self.da = torch.clamp(self.da, min=0.0)", "        self.da = torch.clamp(self.da, max=0.0)"))
M('c01-dtype-after-cast', 'C01', 'TT-DTYPE', 'gradient dtype captured after the cast',
  (LE, "        grad = self.module.get_grad()\n        grad_type = grad.dtype\n        grad = grad.to(self.qa.dtype)", "        grad = self.module.get_grad()\n        grad = grad.to(self.qa.dtype)\n        grad_type = grad.dtype"))
M('c01-no-cast-back', 'C01', 'TT-DTYPE', 'inverse method result left in the inverse dtype',
  (LI, "        self.grad = (self.g_inv @ grad @ self.a_inv).to(grad_type)", "        self.grad = self.g_inv @ grad @ self.a_inv"))
M('c01-inverse-order', 'C01', 'TT-INV', 'A^-1 D G^-1',
  (LI, "        self.grad = (self.g_inv @ grad @ self.a_inv).to(grad_type)", "        self.grad = (self.a_inv @ grad @ self.g_inv).to(grad_type)"))
M('c01-inverse-no-damping', 'C01', 'TT-INV', 'G inverted without damping',
  (LI, "        g = self.g_factor + d\n", "        g = self.g_factor\n"))
M('c01-forgot-inverse', 'C01', 'TT-UNIT', 'A factor used instead of its inverse',
  (LI, "        self.a_inv = torch.linalg.inv(a.to(torch.float32)).to(self.inv_dtype)", "        self.a_inv = a.to(torch.float32).to(self.inv_dtype)"))
M('c01-scale-dropped', 'C01', 'OWN-WRITEBACK', 'clip scale computed but not applied',
  (LB, "        if scale is not None:\n            grad = scale * grad\n        self.module.set_grad(grad)", "        self.module.set_grad(grad)"))
M('c01-slot-not-cleared', 'C01', 'OWN-WRITEBACK', 'preconditioned gradient kept after write-back',
  (LB, "        self.module.set_grad(grad)\n        self.grad = None", "        self.module.set_grad(grad)"))
T('c01-twin-recip', 'C01', 'v1 * (1 / (outer + damping))',
  (LE, "            v2 = v1 / (\n                torch.outer(\n                    cast(torch.Tensor, self.dg),\n                    cast(torch.Tensor, self.da),\n                )\n                + damping\n            )", "            v2 = v1 * (\n                1\n                / (\n                    torch.outer(\n                        cast(torch.Tensor, self.dg),\n                        cast(torch.Tensor, self.da),\n                    )\n                    + damping\n                )\n            )"))
T('c01-twin-temporaries', 'C01', 'temporaries in the back transform',
  (LE, "        self.grad = (self.qg @ v2 @ self.qa.t()).to(grad_type)", "        left = self.qg @ v2\n        out = left @ self.qa.t()\n        self.grad = out.to(grad_type)"))
T('c01-twin-damping-first', 'C01', 'damping + outer',
  (LE, "            self.dgda = 1 / (torch.outer(self.dg, self.da) + damping)", "            self.dgda = 1 / (damping + torch.outer(self.dg, self.da))"))

# ---------------------------------------------------------------- TT-SYM / TT-BUF (C02, C03)
M('c02-sym-eigvec', 'C02', 'TT-SYM', 'eigenvectors broadcast as symmetric',
  (LE, "        self.qa = self.tdc.broadcast(  # type: ignore\n            self.qa,\n            src=src,\n            group=group,\n        )", "        self.qa = self.tdc.broadcast(  # type: ignore\n            self.qa,\n            src=src,\n            group=group,\n            symmetric=self.symmetric_factors and self.symmetry_aware,\n        )"))
M('c03-placeholder-dtype', 'C03', 'TT-BUF', 'receiver allocates the inverse placeholder in the factor dtype',
  (LI, "            self.a_inv = torch.empty(\n                self.a_factor.shape,\n                device=self.a_factor.device,\n                dtype=self.inv_dtype,\n            )", "            self.a_inv = torch.empty(\n                self.a_factor.shape,\n                device=self.a_factor.device,\n                dtype=self.a_factor.dtype,\n            )"))
M('c03-placeholder-shape', 'C03', 'TT-BUF', 'dgda placeholder sized (A, G)',
  (LE, "                    (self.g_factor.shape[0], self.a_factor.shape[0]),", "                    (self.a_factor.shape[0], self.g_factor.shape[0]),"))
M('c03-sym-mismatch', 'C03', None, 'G inverse broadcast dense on... symmetric only in one layer method',
  (LI, "        self.g_inv = self.tdc.broadcast(  # type: ignore\n            self.g_inv,\n            src=src,\n            group=group,\n            symmetric=self.symmetric_factors and self.symmetry_aware,\n        )", "        self.g_inv = self.tdc.broadcast(  # type: ignore\n            self.g_inv,\n            src=src,\n            group=group,\n            symmetric=get_rank() == src and self.symmetry_aware,\n        )"))

# ---------------------------------------------------------------- C04
M('c04-swapped-alpha', 'C04', 'AFF-EMA', 'alpha and 1-alpha swapped',
  (LB, "        self.a_factor = (alpha * self.a_factor) + ((1 - alpha) * a_new)", "        self.a_factor = ((1 - alpha) * self.a_factor) + (alpha * a_new)"))
M('c04-zero-init', 'C04', 'AFF-ID', 'first factor initialised to zeros',
  (LB, "            self.g_factor = torch.diag(g_new.new(g_new.shape[0]).fill_(1))", "            self.g_factor = torch.diag(g_new.new(g_new.shape[0]).fill_(0))"))
M('c04-no-count-division', 'C04', 'AFF-ACC', 'accumulated sum not divided by the count',
  (LB, "        if self._a_count > 1:\n            self._a_batch = (1 / self._a_count) * self._a_batch\n", ""))
M('c04-count-ge-1', 'C04', 'AFF-ACC', 'G count test off by one (>= 1 harmless?) -> > 2',
  (LB, "        if self._g_count > 1:", "        if self._g_count > 2:"))
M('c04-stale-count', 'C04', 'AFF-ACC', 'count always incremented; reset keeps the count (seed C04-2)',
  (LB, "        if self._a_batch is None:\n            self._a_batch = a\n            self._a_count = 1\n        else:", "        if self._a_batch is None:\n            self._a_batch = a\n            self._a_count += 1\n        else:"))
M('c04-reset-keeps-count', 'C04', 'AFF-ACC', 'reset_batch keeps the G count',
  (LB, "        self._g_batch = None\n        self._g_count = 0", "        self._g_batch = None"))
M('c04-batch-not-cleared', 'C04', 'AFF-ACC', 'batch buffer kept after the update',
  (LB, "        g_new = self._g_batch\n        self._g_batch = None\n", "        g_new = self._g_batch\n"))
M('c04-outer-product', 'C04', None, 'a @ a.t() instead of a.t() @ a',
  (LU, "        cov_a = a.t() @ (a / scale)", "        cov_a = a @ (a.t() / scale)"))
M('c04-no-row-norm', 'C04', 'TT-COV', 'second moment not divided by the number of rows',
  (LU, "        cov_a = a.t() @ (a / scale)", "        cov_a = a.t() @ a"))
M('c04-asym-weights', 'C04', 'TT-COV', 'symmetrisation weights do not sum to one',
  (LU, "        return (cov_a + cov_a.t()) / 2.0", "        return cov_a + cov_a.t()"))
M('c04-bias-zeros', 'C04', 'TT-BIAS1', 'bias column of zeros',
  (LU, "    return torch.cat([tensor, tensor.new_ones(shape)], dim=-1)", "    return torch.cat([tensor, tensor.new_zeros(shape)], dim=-1)"))
M('c04-bias-first', 'C04', None, 'bias column prepended',
  (LU, "    return torch.cat([tensor, tensor.new_ones(shape)], dim=-1)", "    return torch.cat([tensor.new_ones(shape), tensor], dim=-1)"))
M('c04-conv-wrong-spatial', 'C04', 'TT-CONV', 'spatial size from the batch and row axes',
  (LM, "        spatial_size = a.size(1) * a.size(2)", "        spatial_size = a.size(0) * a.size(1)"))
M('c04-conv-g-spatial', 'C04', 'TT-CONV', 'G spatial size from channel axes',
  (LM, "        spatial_size = g.size(2) * g.size(3)", "        spatial_size = g.size(1) * g.size(2)"))
M('c04-scaler-multiplied', 'C04', 'AFF-SCALER', 'output gradient multiplied by the loss scale',
  (LB, "            g = g / self.grad_scaler()", "            g = g * self.grad_scaler()"))
M('c04-no-factor-dtype', 'C04', 'TT-FDTYPE', 'input not cast to the factor dtype',
  (LB, "        a = input_[0].to(self.factor_dtype).clone()", "        a = input_[0].clone()"))
M('c04-eval-updates', 'C04', 'DOM-FGATE', 'forward hook ignores the factor interval',
  (BP, "        if not module.training:\n            return\n        if self.steps % self.factor_update_steps == 0:\n            name, layer = self._layers[module]\n            layer.save_layer_input(input_)", "        if not module.training:\n            return\n        if True:\n            name, layer = self._layers[module]\n            layer.save_layer_input(input_)"))
T('c04-twin-ema-incremental', 'C04', 'old + (1-alpha)*(new-old)',
  (LB, "        self.a_factor = (alpha * self.a_factor) + ((1 - alpha) * a_new)", "        self.a_factor = self.a_factor + (1 - alpha) * (a_new - self.a_factor)"))
T('c04-twin-divide', 'C04', 'batch / count',
  (LB, "            self._a_batch = (1 / self._a_count) * self._a_batch", "            self._a_batch = self._a_batch / self._a_count"))

# ---------------------------------------------------------------- C15
M('c15-pad-swapped', 'C15', 'TT-GEOM', 'height/width padding swapped (seed C15-1)',
  (LM, "                (padding[1], padding[1], padding[0], padding[0]),", "                (padding[0], padding[0], padding[1], padding[1]),"))
M('c15-stride-swapped', 'C15', 'TT-GEOM', 'W unfolded with the H stride',
  (LM, "        x = x.unfold(3, kernel_size[1], stride[1])", "        x = x.unfold(3, kernel_size[1], stride[0])"))
M('c15-kernel-order', 'C15', None, 'kernel dims moved in front of the channels',
  (LM, "        x = x.transpose_(1, 2).transpose_(2, 3).contiguous()\n        x = x.view(\n            x.size(0),\n            x.size(1),\n            x.size(2),\n            x.size(3) * x.size(4) * x.size(5),\n        )", "        x = x.permute(0, 2, 3, 4, 5, 1).contiguous()\n        x = x.view(\n            x.size(0),\n            x.size(1),\n            x.size(2),\n            x.size(3) * x.size(4) * x.size(5),\n        )"))
M('c15-bias-first-grad', 'C15', 'TT-BIASLAST', 'bias column first in the combined gradient',
  (LM, "            g = torch.cat(\n                [g, self.module.bias.grad.view(-1, 1)],  # type: ignore\n                1,\n            )", "            g = torch.cat(\n                [self.module.bias.grad.view(-1, 1), g],  # type: ignore\n                1,\n            )"))
M('c15-shape-no-bias', 'C15', 'TT-SHAPEFN', 'advertised A shape ignores the bias',
  (LM, "        x = self.module.weight.size(1) + int(self.has_bias())  # type: ignore", "        x = self.module.weight.size(1)  # type: ignore"))
M('c15-g-shape-in', 'C15', 'TT-SHAPEFN', 'advertised conv G shape uses in_channels',
  (LM, "        out_ch: int = self.module.out_channels  # type: ignore", "        out_ch: int = self.module.in_channels  # type: ignore"))
M('c15-setgrad-swapped', 'C15', 'TT-ROUNDTRIP', 'bias gradient taken from the first column',
  (LM, "            bias_grad = grad[:, -1:].view(self.get_bias_grad().size())", "            bias_grad = grad[:, :1].view(self.get_bias_grad().size())"))
M('c15-conv-grad-transposed', 'C15', None, 'conv weight gradient flattened after a transpose',
  (LM, "            self.module.weight.grad.view(  # type: ignore\n                self.module.weight.grad.size(0),  # type: ignore\n                -1,\n            ),", "            self.module.weight.grad.transpose(1, 3).reshape(  # type: ignore\n                self.module.weight.grad.size(0),  # type: ignore\n                -1,\n            ),"))
T('c15-twin-reshape', 'C15', 'reshape instead of view in the linear A factor',
  (LM, "        a = a.view(-1, a.size(-1))\n        if self.has_bias():\n            a = append_bias_ones(a)\n        return get_cov(a)", "        a = a.reshape(-1, a.size(-1))\n        if self.has_bias():\n            a = append_bias_ones(a)\n        return get_cov(a)"))
T('c15-twin-permute', 'C15', 'permute instead of two transposes',
  (LM, "        x = x.transpose_(1, 2).transpose_(2, 3).contiguous()", "        x = x.permute(0, 2, 3, 1, 4, 5).contiguous()"))

# ---------------------------------------------------------------- C07
M('c07-no-sqrt', 'C07', 'AFF-CLIP', 'sqrt dropped',
  (BP, "        return min(1.0, math.sqrt(self.kl_clip / abs(vg_sum)))", "        return min(1.0, self.kl_clip / abs(vg_sum))"))
M('c07-lr-not-squared', 'C07', 'AFF-CLIP', 'lr instead of lr**2 in the weight term',
  (BP, "            vg_sum += (v1 * w * self.lr**2).sum().item()", "            vg_sum += (v1 * w * self.lr).sum().item()"))
M('c07-no-abs', 'C07', 'AFF-CLIP', 'abs dropped',
  (BP, "        return min(1.0, math.sqrt(self.kl_clip / abs(vg_sum)))", "        return min(1.0, math.sqrt(self.kl_clip / vg_sum))"))
M('c07-bias-term-dropped', 'C07', 'AFF-CLIP', 'bias inner product not added',
  (BP, "            if layer.module.has_bias():\n                vg_sum += (v2 * b * self.lr**2).sum().item()\n", ""))
M('c07-max-for-min', 'C07', 'AFF-CLIP', 'max instead of min',
  (BP, "        return min(1.0, math.sqrt(self.kl_clip / abs(vg_sum)))", "        return max(1.0, math.sqrt(self.kl_clip / abs(vg_sum)))"))
M('c07-zero-returns-zero', 'C07', 'AFF-CLIP', 'zero inner product gives scale 0',
  (BP, "        if vg_sum == 0.0:\n            return 1.0", "        if vg_sum == 0.0:\n            return 0.0"))
M('c07-sum-reset-per-layer', 'C07', 'AFF-CLIP', 'accumulator reset inside the loop',
  (BP, "            w = layer.module.get_weight_grad()\n", "            vg_sum = 0.0\n            w = layer.module.get_weight_grad()\n"))
M('c07-stale-bias', 'C07', 'DEF-FLAGS', 'bias term guarded by leftover locals (seed C07-1)',
  (BP, "        vg_sum = 0.0\n        for _, layer in reversed(list(self._layers.values())):", "        vg_sum = 0.0\n        b = None\n        v2 = None\n        for _, layer in reversed(list(self._layers.values())):"),
  (BP, "            if layer.module.has_bias():\n                vg_sum += (v2 * b * self.lr**2).sum().item()", "            if b is not None and v2 is not None:\n                vg_sum += (v2 * b * self.lr**2).sum().item()"))
M('c07-reject-none', 'C07', 'NULL-KL', 'revert of F1',
  (BP, "        if (\n            kl_clip is not None\n            and not callable(kl_clip)\n            and not 0.0 < kl_clip\n        ):", "        if not callable(kl_clip) and not 0.0 < kl_clip:"))
M('c07-scale-always', 'C07', 'NULL-KL', 'scale computed even when kl_clip is None',
  (BP, "        scale = None if self.kl_clip is None else self._compute_grad_scale()", "        scale = self._compute_grad_scale()"))
M('c07-gpt-no-clone', 'C07', 'ALIAS-GRAD', 'bias broadcast into the module gradient (seed C07-2)',
  (GL, "                    assert bias_grad is not None\n                    bias_grad = bias_grad.clone()\n", "                    assert bias_grad is not None\n"))
M('c07-gpt-inplace-scatter', 'C07', 'ALIAS-GRAD', 'revert of F6 (weight)',
  (GL, "            grad_partition = torch.empty_like(grad_partition)\n", ""))
T('c07-twin-sqrt-pow', 'C07', '(kl/|S|) ** 0.5',
  (BP, "        return min(1.0, math.sqrt(self.kl_clip / abs(vg_sum)))", "        return min(1.0, (self.kl_clip / abs(vg_sum)) ** 0.5)"))
T('c07-twin-reordered-product', 'C07', 'w * v1 * lr**2',
  (BP, "            vg_sum += (v1 * w * self.lr**2).sum().item()", "            vg_sum += (w * v1 * self.lr**2).sum().item()"))

# ---------------------------------------------------------------- C11
M('c11-unbound-bias', 'C11', 'DEF-FLAGS', 'revert of F9',
  (GL, "            if self.module.has_bias() and self.parallelism == 'output':\n                bias_grads = [\n                    torch.zeros_like(bias_grad_partition)", "            if self.parallelism == 'output':\n                bias_grads = [\n                    torch.zeros_like(bias_grad_partition)"))
M('c11-gather-dim', 'C11', None, 'weight gradient gathered along the wrong dimension',
  (GL, "            model_parallel_group=self.model_parallel_group,\n            dim=-1 if self.parallelism == 'input' else 0,\n        )\n\n        if self.module.has_bias():", "            model_parallel_group=self.model_parallel_group,\n            dim=0 if self.parallelism == 'input' else -1,\n        )\n\n        if self.module.has_bias():"))
M('c11-split-dim', 'C11', None, 'preconditioned weight split along the wrong dimension',
  (GL, "                    weight_grad,\n                    get_world_size(self.model_parallel_group),\n                    dim=-1 if self.parallelism == 'input' else 0,", "                    weight_grad,\n                    get_world_size(self.model_parallel_group),\n                    dim=0,"))
M('c11-bcast-rank0', 'C11', 'COH-PRIMARY', 'bias broadcast from model-parallel rank 0 (seed C11-1)',
  (GL, "                        src=self.primary_rank,\n                        group=self.model_parallel_group,", "                        src=torch.distributed.get_global_rank(self.model_parallel_group, 0),\n                        group=self.model_parallel_group,"))
M('c11-shape-both-scaled', 'C11', 'TT-SHAPEFN', 'A shape scaled by mp for output-parallel layers too',
  (GM, "        else:\n            x = dim1_size + int(self.has_bias())\n        return (x, x)", "        else:\n            x = (dim1_size * self.model_parallel_world_size) + int(self.has_bias())\n        return (x, x)"))
M('c11-local-shard-moments', 'C11', 'DOM-GATHER', 'local input shard fed into the moments',
  (GL, "            if a is not None:\n                super().save_layer_input([a])", "            if a is not None:\n                super().save_layer_input(input_)"))
M('c11-dual-broken', 'C11', 'SIB-DUAL', 'G of an output-parallel layer reduced over the stage peers',
  (GL, "            if get_rank() != self.primary_rank:\n                return\n            super().reduce_g_factor(self.data_parallel_group)", "            super().reduce_g_factor(self.pipe_parallel_peer_group)"))
M('c11-no-primary-guard', 'C11', None, 'every rank reduces the sharded A factor on its data-parallel group',
  (GL, "            if get_rank() != self.primary_rank:\n                return\n            super().reduce_a_factor(self.data_parallel_group)", "            super().reduce_a_factor(self.data_parallel_group)"))
M('c11-reuse-mp-group', 'C11', 'GRP-REUSE', 'stage peer group replaced by the model-parallel group (seed C11-2)',
  (GA, "            stage_peers: dict[int, list[int]] = {}\n            for r in range(topology.world_size()):\n                stage_peers.setdefault(topology.get_coord(r).pipe, []).append(r)\n            self.pipe_parallel_peer_group = None\n            for stage in sorted(stage_peers):\n                stage_group = dist.new_group(stage_peers[stage])\n                if stage == self.pipe_parallel_rank:\n                    self.pipe_parallel_peer_group = stage_group\n", "            self.pipe_parallel_peer_group = self.model_parallel_group\n"))

# ---------------------------------------------------------------- C10
M('c10-no-clone', 'C10', 'ALIAS-INPUT', 'clone of the hook input removed',
  (LB, "        a = input_[0].to(self.factor_dtype).clone()", "        a = input_[0].to(self.factor_dtype)"))
M('c10-inplace-scaler', 'C10', 'ALIAS-INPUT', 'in-place division of the output gradient (seed C10-1)',
  (LB, "            g = g / self.grad_scaler()", "            g /= self.grad_scaler()"))
M('c10-hook-returns-input', 'C10', 'HOOK-RET', 'forward-pre hook returns its input',
  (BP, "                layer.update_a_factor(alpha=self.factor_decay)\n                layer.reduce_a_factor(self._assignment.factor_group(name, 'A'))\n\n    @torch.no_grad()\n    def _save_grad_output", "                layer.update_a_factor(alpha=self.factor_decay)\n                layer.reduce_a_factor(self._assignment.factor_group(name, 'A'))\n        return input_  # type: ignore\n\n    @torch.no_grad()\n    def _save_grad_output"))
M('c10-eval-not-skipped', 'C10', 'DOM-EVAL', 'backward hook ignores the training flag',
  (BP, "    ) -> None:\n        \"\"\"Hook for saving the gradient w.r.t. output in the backward pass.\"\"\"\n        if not module.training:\n            return\n", "    ) -> None:\n        \"\"\"Hook for saving the gradient w.r.t. output in the backward pass.\"\"\"\n"))
M('c10-no-nograd', 'C10', 'DEC-NOGRAD', 'step not under no_grad',
  (BP, "    @torch.no_grad()\n    def step(self) -> None:", "    def step(self) -> None:"))
M('c10-bias-written-elsewhere', 'C10', 'OWN-PARAMWRITE', 'update_grad zeroes the bias gradient directly',
  (LB, "        self.module.set_grad(grad)\n        self.grad = None", "        self.module.set_grad(grad)\n        self.module.module.bias.grad = None  # type: ignore\n        self.grad = None"))
M('c10-inplace-damping', 'C10', 'ALIAS-FACTOR', 'damping added in place to the running average (seed C02-2)',
  (LI, "        d = torch.diag(\n            self.a_factor.new(self.a_factor.shape[0]).fill_(damping),\n        )\n        a = self.a_factor + d\n        self.a_inv = torch.linalg.inv(a.to(torch.float32)).to(self.inv_dtype)", "        a = self.a_factor.to(torch.float32)\n        a.diagonal().add_(damping)\n        self.a_inv = torch.linalg.inv(a).to(self.inv_dtype)"))
M('c10-inplace-ema', 'C10', 'ALIAS-FACTOR', 'running average updated in place',
  (LB, "        self.g_factor = (alpha * self.g_factor) + ((1 - alpha) * g_new)", "        self.g_factor.mul_(alpha).add_((1 - alpha) * g_new)"))
M('c10-not-contiguous', 'C10', 'TT-ROUNDTRIP', 'weight gradient written back as a view',
  (LM, "        self.module.weight.grad = weight_grad.contiguous()", "        self.module.weight.grad = weight_grad"))
M('c10-postscale-cov', 'C10', 'NUM-PRESCALE', 'row normalisation after the product (seed C10-2)',
  (LU, "        cov_a = a.t() @ (a / scale)", "        cov_a = (a.t() @ a) / scale"))
T('c10-twin-detach-clone', 'C10', 'clone before the cast',
  (LB, "        a = input_[0].to(self.factor_dtype).clone()", "        a = input_[0].clone().to(self.factor_dtype)"))

# ---------------------------------------------------------------- C18
M('c18-load-on-inv-worker', 'C18', 'COH-LOADGUARD', 'in-memory load restores only on the inverse worker (seed C18-1)',
  (GP, "                    and cast(\n                        GPTNeoXAssignment,\n                        self._assignment,\n                    ).factor_worker(name, 'A')\n                    == get_rank()", "                    and get_rank() == self._assignment.inv_worker(name, 'A')"))
M('c18-barrier-if-missing', 'C18', 'S1', 'directory barrier skipped when the directory exists (seed C18-2)',
  (GP, "        if get_rank() == 0:\n            os.makedirs(self.factor_checkpoint_dir, exist_ok=True)\n        torch.distributed.barrier()", "        if not os.path.isdir(self.factor_checkpoint_dir):\n            if get_rank() == 0:\n                os.makedirs(self.factor_checkpoint_dir, exist_ok=True)\n            torch.distributed.barrier()"))
M('c18-save-everyone', 'C18', 'COH-SAVEGUARD', 'every rank contributes every layer',
  (GP, "            if get_rank() == self._assignment.inv_worker(name, 'A'):\n                layer_state_dict = layer.state_dict()\n                assert layer_state_dict['A'] is not None", "            if True:\n                layer_state_dict = layer.state_dict()\n                assert layer_state_dict['A'] is not None"))
M('c18-no-final-barrier', 'C18', 'DOM-BARRIER', 'final barrier of the in-memory load removed',
  (GP, "                        layer.compute_g_inv(damping=self.damping)\n\n        torch.distributed.barrier()\n", "                        layer.compute_g_inv(damping=self.damping)\n"))
M('c18-barrier-in-branch', 'C18', 'S1', 'barrier only on ranks that loaded something',
  (GP, "                        layer.compute_g_inv(damping=self.damping)\n\n        torch.distributed.barrier()\n", "                        layer.compute_g_inv(damping=self.damping)\n                    torch.distributed.barrier()\n"))
M('c18-path-mismatch', 'C18', 'TAB-PATH', 'files read from name + .pt',
  (GP, "                filepath = os.path.join(self.factor_checkpoint_dir, name)\n                if os.path.exists(filepath):", "                filepath = os.path.join(self.factor_checkpoint_dir, name + '.pt')\n                if os.path.exists(filepath):"))
M('c18-no-recompute', 'C18', 'COH-LOADGUARD', 'directory load ignores compute_inverses',
  (GP, "                    layer.load_state_dict(state_dict)\n                    if compute_inverses:\n                        layer.compute_a_inv(damping=self.damping)", "                    layer.load_state_dict(state_dict)\n                    if True:\n                        layer.compute_a_inv(damping=self.damping)"))
M('c18-gather-subset', 'C18', 'TAB-GATHER', 'receive list sized by the data-parallel group',
  (GP, "        partitions = [None for _ in range(get_world_size())]", "        partitions = [None for _ in range(get_world_size(self.data_parallel_group))]"))
M('c18-gather-inv-only', 'C18', 'S1', 'only ranks with layers take part in the gather',
  (GP, "        torch.distributed.all_gather_object(partitions, partition, group=group)\n", "        if partition:\n            torch.distributed.all_gather_object(partitions, partition, group=group)\n"))

# ---------------------------------------------------------------- C03 (typestate, SPMD)
M('c03-no-flush-after-hooks', 'C03', 'TS-BKT', 'flush after the hooks removed',
  (BP, "        # Flush last allreduce bucket from forward/backward pass.\n        # Will be a no-op if bucketing was not used\n        self._tdc.flush_allreduce_buckets()\n", ""))
M('c03-flush-only-on-inv-steps', 'C03', 'TS-BKT', 'flush moved into the inverse branch, trailing flushes dropped (seed C03-1)',
  (BP, "        # Flush last allreduce bucket from forward/backward pass.\n        # Will be a no-op if bucketing was not used\n        self._tdc.flush_allreduce_buckets()\n\n        # Compute Inverses\n        if self.steps % self.inv_update_steps == 0:\n", "        # Compute Inverses\n        if self.steps % self.inv_update_steps == 0:\n            self._tdc.flush_allreduce_buckets()\n"),
  (BP, "                )\n        self._tdc.flush_allreduce_buckets()\n\n        scale = None", "                )\n\n        scale = None"))
M('c03-memory-no-flush', 'C03', 'TS-BKT', 'memory_usage reads factors without flushing',
  (BP, "        self._tdc.flush_allreduce_buckets()\n        for _, layer in self._layers.values():\n            layer_sizes = layer.memory_usage()", "        for _, layer in self._layers.values():\n            layer_sizes = layer.memory_usage()"))
M('c03-rank-early-return', 'C03', 'S1', 'non gradient workers skip the gradient phase loop body',
  (BP, "            if self._assignment.is_grad_worker(name):\n                layer.preconditioned_grad(damping=self.damping)\n            if self._assignment.broadcast_gradients():", "            if self._assignment.is_grad_worker(name):\n                layer.preconditioned_grad(damping=self.damping)\n            elif name.startswith('_'):\n                continue\n            if self._assignment.broadcast_gradients():"))
M('c03-bcast-grad-workers-only', 'C03', 'S1', 'gradient broadcast entered only by gradient workers',
  (BP, "            if self._assignment.broadcast_gradients():\n                layer.broadcast_grad(", "            if self._assignment.broadcast_gradients() and self._assignment.is_grad_worker(name):\n                layer.broadcast_grad("))
M('c03-src-is-me', 'C03', 'S3', 'gradient broadcast rooted at the local rank',
  (BP, "                    src=self._assignment.src_grad_worker(name),", "                    src=get_rank(),"))
M('c03-layer-order-by-rank', 'C03', 'S5', 'layer order rotated by the rank',
  (BP, "        # Compute Preconditioned Gradients\n        for name, layer in reversed(list(self._layers.values())):", "        # Compute Preconditioned Gradients\n        for name, layer in list(self._layers.values())[get_rank() % 2:]:"))
M('c03-state-dict-barrier', 'C03', 'S8', 'state_dict synchronises',
  (BP, "        state_dict: dict[str, Any] = {'steps': self.steps}\n", "        state_dict: dict[str, Any] = {'steps': self.steps}\n        torch.distributed.barrier()\n"))
T('c03-twin-no-trailing-flushes', 'C03', 'the two no-op flushes removed',
  (BP, "                    )\n            self._tdc.flush_allreduce_buckets()\n\n        # Compute Preconditioned Gradients", "                    )\n\n        # Compute Preconditioned Gradients"),
  (BP, "                )\n        self._tdc.flush_allreduce_buckets()\n\n        scale = None", "                )\n\n        scale = None"))

# ---------------------------------------------------------------- E8 role traces (C09, C13)
M('c09-load-compute-on-workers', 'C09', 'E8-ROLES', 'load recomputes only on the assigned inverse workers (seed C09-2)',
  (BP, "                layer.compute_a_inv(damping=self.damping)\n                layer.compute_g_inv(damping=self.damping)\n                if (\n", "                if get_rank() == self._assignment.inv_worker(name, 'A'):\n                    layer.compute_a_inv(damping=self.damping)\n                if get_rank() == self._assignment.inv_worker(name, 'G'):\n                    layer.compute_g_inv(damping=self.damping)\n                if (\n"))
M('c13-g-before-a-broadcast', 'C13', 'E8-ROLES', 'G eigendecomposition moved before the A broadcast in step()',
  (BP, "                if get_rank() == self._assignment.inv_worker(name, 'A'):\n                    layer.compute_a_inv(damping=self.damping)\n                if (\n                    self._assignment.broadcast_inverses()\n                    and self._assignment.is_grad_worker(name)\n                ):\n                    layer.broadcast_a_inv(\n                        src=self._assignment.inv_worker(name, 'A'),\n                        group=self._assignment.grad_worker_group(name),\n                    )\n                if get_rank() == self._assignment.inv_worker(name, 'G'):\n                    layer.compute_g_inv(damping=self.damping)\n",
       "                if get_rank() == self._assignment.inv_worker(name, 'A'):\n                    layer.compute_a_inv(damping=self.damping)\n                if get_rank() == self._assignment.inv_worker(name, 'G'):\n                    layer.compute_g_inv(damping=self.damping)\n                if (\n                    self._assignment.broadcast_inverses()\n                    and self._assignment.is_grad_worker(name)\n                ):\n                    layer.broadcast_a_inv(\n                        src=self._assignment.inv_worker(name, 'A'),\n                        group=self._assignment.grad_worker_group(name),\n                    )\n"))
M('c15-pointwise-fastpath', 'C15', 'SIB-PATH', '1x1 fast path that forgets the stride (seed C15-2)',
  (LM, "        a = self._extract_patches(a)\n        spatial_size = a.size(1) * a.size(2)\n        a = a.view(-1, a.size(-1))", "        if max(self.module.kernel_size) == 1 and max(self.module.padding) == 0:\n            a = a.permute(0, 2, 3, 1)\n        else:\n            a = self._extract_patches(a)\n        spatial_size = a.size(1) * a.size(2)\n        a = a.reshape(-1, a.size(-1))"))
T('c15-twin-pointwise-fastpath-stride1', 'C15', '1x1, stride 1, unpadded fast path',
  (LM, "        a = self._extract_patches(a)\n        spatial_size = a.size(1) * a.size(2)\n        a = a.view(-1, a.size(-1))", "        if max(self.module.kernel_size) == 1 and max(self.module.padding) == 0 and max(self.module.stride) == 1:\n            a = a.permute(0, 2, 3, 1)\n        else:\n            a = self._extract_patches(a)\n        spatial_size = a.size(1) * a.size(2)\n        a = a.reshape(-1, a.size(-1))"))

# ---------------------------------------------------------------- generic refactoring twins (run against every check by tools/cross_twins.py)
def G(id, what, *edits):  # noqa: A002
    CASES.append({'id': id, 'prop': '*', 'expect': 'silent', 'what': what, 'edits': list(edits)})


G('g-rename-loop-vars', 'loop variables renamed in the gradient phase',
  (BP, "        for name, layer in reversed(list(self._layers.values())):\n            if self._assignment.is_grad_worker(name):\n                layer.preconditioned_grad(damping=self.damping)\n            if self._assignment.broadcast_gradients():\n                layer.broadcast_grad(\n                    src=self._assignment.src_grad_worker(name),\n                    group=self._assignment.grad_receiver_group(name),\n                )",
       "        for lname, klayer in reversed(list(self._layers.values())):\n            if self._assignment.is_grad_worker(lname):\n                klayer.preconditioned_grad(damping=self.damping)\n            if self._assignment.broadcast_gradients():\n                klayer.broadcast_grad(\n                    src=self._assignment.src_grad_worker(lname),\n                    group=self._assignment.grad_receiver_group(lname),\n                )"))
G('g-hoist-layer-list', 'reversed layer list computed once',
  (BP, "        # Compute Preconditioned Gradients\n        for name, layer in reversed(list(self._layers.values())):", "        # Compute Preconditioned Gradients\n        ordered = list(reversed(list(self._layers.values())))\n        for name, layer in ordered:"))
G('g-logging-added', 'debug logging added to step()',
  (BP, "        # Compute Inverses\n        if self.steps % self.inv_update_steps == 0:", "        logger.debug('kfac step %d', self.steps)\n        # Compute Inverses\n        if self.steps % self.inv_update_steps == 0:"))
G('g-error-message', 'error message reworded',
  (LB, "            raise RuntimeError('a_factor is None, cannot reduce')", "            raise RuntimeError('cannot reduce the A factor before it exists')"))
G('g-callback-renamed', 'allreduce callback renamed',
  (DI, "        def callback_(future_: FutureType) -> torch.Tensor:  # pragma: no cover\n            t = future_.value()[0]\n            if average:\n                t = (1 / get_world_size(group)) * t\n            if symmetric:\n                t = fill_triu(shape, t)\n            return t\n\n        return future.then(callback_)\n\n    def broadcast",
       "        def _finish(future_: FutureType) -> torch.Tensor:  # pragma: no cover\n            t = future_.value()[0]\n            if average:\n                t = (1 / get_world_size(group)) * t\n            if symmetric:\n                t = fill_triu(shape, t)\n            return t\n\n        return future.then(_finish)\n\n    def broadcast"))
G('g-grad-dtype-renamed', 'local renamed in the eigen preconditioning',
  (LE, "        grad_type = grad.dtype\n        grad = grad.to(self.qa.dtype)\n        v1 = self.qg.t() @ grad @ self.qa", "        orig_dtype = grad.dtype\n        grad = grad.to(self.qa.dtype)\n        v1 = self.qg.t() @ grad @ self.qa"),
  (LE, "        self.grad = (self.qg @ v2 @ self.qa.t()).to(grad_type)", "        self.grad = (self.qg @ v2 @ self.qa.t()).to(orig_dtype)"))
G('g-patch-view-minus-one', 'patch view uses -1 for the feature axis',
  (LM, "            x.size(3) * x.size(4) * x.size(5),\n        )", "            -1,\n        )"))
G('g-work-renamed', 'greedy assignment comprehension variables renamed',
  (AS, "            layer: sum(factors.values()) for layer, factors in work.items()", "            lname: sum(fcosts.values()) for lname, fcosts in work.items()"))
G('g-update-grad-restructured', 'update_grad with an explicit else branch',
  (LB, "        if scale is not None:\n            grad = scale * grad\n        self.module.set_grad(grad)\n        self.grad = None", "        if scale is not None:\n            self.module.set_grad(scale * grad)\n        else:\n            self.module.set_grad(grad)\n        self.grad = None"))
G('g-eye-damping', 'damping*eye instead of diag(fill_)',
  (LI, "        d = torch.diag(\n            self.g_factor.new(self.g_factor.shape[0]).fill_(damping),\n        )\n        g = self.g_factor + d", "        d = torch.diag(\n            self.g_factor.new_ones(self.g_factor.shape[0]),\n        )\n        g = self.g_factor + damping * d"))
G('g-new-method', 'an unrelated helper method added to the preconditioner',
  (BP, "    def reset_batch(self) -> None:", "    def layer_names(self) -> list[str]:\n        \"\"\"Names of the registered layers.\"\"\"\n        return [name for name, _ in self._layers.values()]\n\n    def reset_batch(self) -> None:"))
G('g-training-check-merged', 'hook guards merged into one test',
  (BP, "        if not module.training:\n            return\n        if self.steps % self.factor_update_steps == 0:\n            name, layer = self._layers[module]\n            layer.save_layer_input(input_)", "        if module.training and self.steps % self.factor_update_steps == 0:\n            name, layer = self._layers[module]\n            layer.save_layer_input(input_)"))
G('g-numel', 'numel() instead of nelement() in memory accounting and bucket size',
  (DI, "        self._size += tensor.element_size() * tensor.nelement()", "        self._size += tensor.element_size() * tensor.numel()"))
G('g-trace-annotations', 'return annotation and docstring of tracing changed',
  (TR, "        def func_timer(*args: list[Any], **kwargs: dict[str, Any]) -> Any:\n            \"\"\"Time and execute function.\"\"\"", "        def func_timer(*args: Any, **kwargs: Any) -> RT:\n            \"\"\"Execute func and record its wall time.\"\"\""))
G('g-sched-comment', 'comments and blank lines in scheduler.step',
  (SC, "        if self._damping_lambda is not None:\n            factor = self._damping_lambda(", "        # damping\n        if self._damping_lambda is not None:\n\n            factor = self._damping_lambda("))
G('g-register-continue-removed', 'registration loop without continue',
  (LR, "            module_helper = get_module_helper(module)\n            if module_helper is None:\n                continue\n\n            kfac_layer = kfac_layer_type(module_helper, **layer_kwargs)\n\n            # get_flattened_modules() should never give us modules with the\n            # same name\n            assert module not in kfac_layers\n            kfac_layers[module] = (name, kfac_layer)",
       "            module_helper = get_module_helper(module)\n            if module_helper is not None:\n                kfac_layer = kfac_layer_type(module_helper, **layer_kwargs)\n\n                # get_flattened_modules() should never give us modules with the\n                # same name\n                assert module not in kfac_layers\n                kfac_layers[module] = (name, kfac_layer)"))
G('g-gpt-shape-local', 'GPT helper shape computed with a local',
  (GM, "        dim0_size = self.module.weight.size(0)  # type: ignore\n        if self.parallelism == 'output':\n            x = dim0_size * self.model_parallel_world_size\n        else:\n            x = dim0_size\n        return (x, x)", "        rows = self.module.weight.size(0)  # type: ignore\n        if self.parallelism == 'output':\n            rows = rows * self.model_parallel_world_size\n        return (rows, rows)"))
G('g-load-loop-dict', 'load_state_dict looks layers up through a name index',
  (BP, "            for found_name, layer_state in state_dict['layers'].items():\n                for name, layer in self._layers.values():\n                    if found_name == name:\n                        layer.load_state_dict(layer_state)", "            for found_name, layer_state in state_dict['layers'].items():\n                for name, layer in self._layers.values():\n                    if name == found_name:\n                        layer.load_state_dict(layer_state)"))
