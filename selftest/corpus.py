"""Must-fire mutants and silent twins, one list; see tools/selftest.py.

Every mutant keeps kfac importable; mutants are edits a maintainer could
plausibly commit and that the pinned suite does not notice (spot-checked, not
all re-run).  Twins are behaviour-preserving edits that must stay silent.
"""
CASES: list[dict] = []


def M(id, prop, rule, what, *edits):  # noqa: A002
    CASES.append({'id': id, 'prop': prop, 'expect': 'fire', 'rule': rule, 'what': what, 'edits': list(edits)})


def T(id, prop, what, *edits):  # noqa: A002
    CASES.append({'id': id, 'prop': prop, 'expect': 'silent', 'what': what, 'edits': list(edits)})


TR = 'kfac/tracing.py'
BP = 'kfac/base_preconditioner.py'
DI = 'kfac/distributed.py'
AS = 'kfac/assignment.py'
LB = 'kfac/layers/base.py'
LE = 'kfac/layers/eigen.py'
LI = 'kfac/layers/inverse.py'
LM = 'kfac/layers/modules.py'
LU = 'kfac/layers/utils.py'
LR = 'kfac/layers/register.py'
PC = 'kfac/preconditioner.py'
SC = 'kfac/scheduler.py'
HP = 'kfac/hyperparams.py'
GA = 'kfac/gpt_neox/assignment.py'
GL = 'kfac/gpt_neox/layer.py'
GP = 'kfac/gpt_neox/preconditioner.py'
GM = 'kfac/gpt_neox/modules.py'
GU = 'kfac/gpt_neox/mpu.py'

# ---------------------------------------------------------------- C20
M('c20-call-twice', 'C20', 'T1', 'traced function called twice',
  (TR, "            out = func(*args, **kwargs)\n", "            func(*args, **kwargs)\n            out = func(*args, **kwargs)\n"))
M('c20-clock-before-call', 'C20', 'T4', 'second clock read moved before the call',
  (TR, "            out = func(*args, **kwargs)\n            if sync:\n                torch.distributed.barrier()\n            t = time.time() - t\n",
       "            t = time.time() - t\n            out = func(*args, **kwargs)\n            if sync:\n                torch.distributed.barrier()\n"))
M('c20-return-none', 'C20', 'T1', 'wrapper drops the return value',
  (TR, "            return out\n\n        return func_timer", "            return None\n\n        return func_timer"))
M('c20-first-sample-lost', 'C20', 'T3', 'first call creates an empty list',
  (TR, "                _func_traces[func.__name__] = [t]", "                _func_traces[func.__name__] = []"))
M('c20-qualname-key', 'C20', 'T3', 'sample keyed by __qualname__',
  (TR, "                _func_traces[func.__name__].append(t)", "                _func_traces[func.__qualname__].append(t)"))
M('c20-mean-over-all', 'C20', 'T5', 'mean divides by the unwindowed count',
  (TR, "            out[fname] /= len(times)", "            out[fname] /= len(_func_traces[fname])"))
M('c20-window-first', 'C20', 'T5', 'window takes the first max_history samples',
  (TR, "times = times[-max_history:]", "times = times[:max_history]"))
M('c20-clear-noop', 'C20', 'T6', 'clear_trace rebinds a local',
  (TR, "    _func_traces.clear()", "    _func_traces = {}  # noqa: F841"))
M('c20-swallow', 'C20', 'T2', 'exceptions of the traced function swallowed',
  (TR, "            out = func(*args, **kwargs)\n", "            try:\n                out = func(*args, **kwargs)\n            except Exception:\n                out = None\n"))
M('c20-mixed-clocks', 'C20', 'T4', 'two different clocks',
  (TR, "            t = time.time() - t", "            t = time.perf_counter() - t"))
M('c20-double-record', 'C20', 'T3', 'sample appended twice after first call',
  (TR, "                _func_traces[func.__name__].append(t)", "                _func_traces[func.__name__].append(t)\n                _func_traces[func.__name__].append(t)"))
T('c20-twin-perf-counter', 'C20', 'perf_counter for both reads',
  (TR, "            t = time.time()\n", "            t = time.perf_counter()\n"),
  (TR, "            t = time.time() - t", "            t = time.perf_counter() - t"))
T('c20-twin-rename', 'C20', 'renamed locals',
  (TR, "            t = time.time()\n            out = func(*args, **kwargs)", "            start = time.time()\n            out = func(*args, **kwargs)"),
  (TR, "            t = time.time() - t", "            t = time.time() - start"))
T('c20-twin-setdefault', 'C20', 'setdefault().append idiom',
  (TR, "            if func.__name__ not in _func_traces:\n                _func_traces[func.__name__] = [t]\n            else:\n                _func_traces[func.__name__].append(t)\n",
       "            _func_traces.setdefault(func.__name__, []).append(t)\n"))
