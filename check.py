#!/venv/bin/python
"""Static checks of the kfac-pytorch properties.

usage: /venv/bin/python /verif/check.py <ID> [--tier quick|thorough] [--repo /repo] [--replay <path>]

exit 0: every obligation discharged (KNOWN-FINDING lines for listed findings)
exit 1: VIOLATION property=<id> replay=<path>
exit 2: ANALYSIS-ERROR / ANALYSIS-INCOMPLETE (no verdict)
"""
from __future__ import annotations

import argparse
import importlib
import json
import os
import sys

sys.path.insert(0, os.path.dirname(os.path.abspath(__file__)))

from kfv import core  # noqa: E402


def thorough_extras(ctx: 'core.Ctx', a: argparse.Namespace) -> None:
    """Thorough tier: (1) two-way self-test of this property's rules on scratch copies of the analysed tree (must-fire mutants,
    silent twins), (2) for the SPMD properties the exhaustive enumeration of call chains entry point -> collective."""
    import time
    sys.path.insert(0, os.path.join(os.path.dirname(os.path.abspath(__file__)), 'tools'))
    import run_selftest as selftest
    t0 = time.time()
    cases = [c for c in selftest.load_corpus() if c['prop'] == a.prop] + selftest.load_patch_cases(a.prop)
    os.environ['KFV_NO_SELFTEST'] = '1'
    import concurrent.futures as cf
    with cf.ThreadPoolExecutor(max_workers=16) as ex:
        res = list(ex.map(lambda c: selftest.run_case(c, a.repo), cases))
    killed = [r for r in res if r['expect'] == 'fire' and r['outcome'] == 'PASS']
    missed = [r for r in res if r['expect'] == 'fire' and r['outcome'] == 'FAIL']
    silent = [r for r in res if r['expect'] == 'silent' and r['outcome'] == 'PASS']
    noisy = [r for r in res if r['expect'] == 'silent' and r['outcome'] == 'FAIL']
    skipped = [r for r in res if r['outcome'] in ('SKIPPED', 'BROKEN-CASE')]
    ctx.extra['selftest'] = {
        'mutants_total': len(killed) + len(missed), 'mutants_killed': len(killed), 'mutants_missed': [r['id'] for r in missed],
        'twins_total': len(silent) + len(noisy), 'twins_silent': len(silent), 'twins_noisy': [r['id'] for r in noisy],
        'skipped_anchor_gone': [r['id'] for r in skipped], 'wall_s': round(time.time() - t0, 1),
        'killed': [{'id': r['id'], 'rules': r.get('rules'), 'what': r['what']} for r in killed],
    }
    for r in missed + noisy:
        print(f'SELFTEST-WARNING {a.prop} {r["id"]}: expected {r["expect"]}, got rc={r.get("rc")} rules={r.get("rules")}')
    # (1b) twins by construction: whole-package behaviour-preserving rewrites of the analysed tree
    import shutil
    import subprocess
    import tempfile
    import systematic_twins as sysw
    sysres = {}

    def one_kind(kind: str) -> tuple[str, int]:
        d = tempfile.mkdtemp(prefix=f'kfv_tw_{kind}_')
        try:
            sysw.make(kind, a.repo, d)
            r = subprocess.run([sys.executable, os.path.abspath(__file__), a.prop, '--repo', d, '--evidence-dir', os.path.join(d, 'ev')],
                               capture_output=True, text=True, env=dict(os.environ, KFV_NO_SELFTEST='1'))
            return kind, r.returncode
        except Exception as e:  # noqa: BLE001
            return kind, -1
        finally:
            shutil.rmtree(d, ignore_errors=True)
    with cf.ThreadPoolExecutor(max_workers=9) as ex:
        for kind, rc in ex.map(one_kind, ['alpha', 'private', 'invert-if', 'flip-eq', 'else-return', 'add-else', 'extract-var', 'inline-var', 'to-keyword', 'to-positional',
                                          'expand-aug', 'add-logging', 'comp-to-loop', 'swap-adjacent', 'combined']):
            sysres[kind] = rc
            if rc != 0:
                print(f'SELFTEST-WARNING {a.prop} systematic twin {kind}: exit {rc}')
    ctx.extra['selftest']['systematic_twins'] = sysres
    if a.prop in ('C03', 'C12', 'C18', 'C06', 'C11'):
        from kfv.rules import spmd_rules
        ctx.extra['call_chains'] = spmd_rules.enumerate_chains(ctx)


def main() -> int:
    ap = argparse.ArgumentParser()
    ap.add_argument('prop')
    ap.add_argument('--tier', default=os.environ.get('VERIF_TIER', 'quick'), choices=['quick', 'thorough'])
    ap.add_argument('--repo', default=os.environ.get('KFV_REPO', '/repo'))
    ap.add_argument('--replay', default=None)
    ap.add_argument('--evidence-dir', default=None)
    a = ap.parse_args()
    # watchdog: an analysis that does not terminate is an analysis error (exit 2), never a hang
    import signal

    def _timeout(_sig, _frm):  # noqa: ANN001, ANN202
        raise core.AnalysisError(f'analysis did not finish within its time budget ({budget} s)')
    budget = int(os.environ.get('KFV_TIMEOUT', '7200' if a.tier == 'thorough' else '900'))
    signal.signal(signal.SIGALRM, _timeout)
    signal.alarm(budget)
    if a.evidence_dir:
        core.EVIDENCE_DIR = a.evidence_dir
    try:
        seed = int(os.environ.get('VERIF_SEED', '0'))
    except ValueError:
        seed = 0
    try:
        mod = importlib.import_module(f'kfv.rules.{a.prop.lower()}')
    except ModuleNotFoundError as e:
        raise core.AnalysisError(f'no check implemented for property {a.prop}: {e}') from e
    from kfv.model import Program
    prog = Program(a.repo, use_mypy=getattr(mod, 'NEEDS_TYPES', True))
    ctx = core.Ctx(a.prop, a.tier, prog, seed)
    ctx.explanation = mod.EXPLANATION
    # what the canonicalisation did to the tree that was analysed (empty on the pinned tree)
    ctx.extra['canonicalisation'] = {'normaliser': list(prog.normalized)[:200], 'expanded_helpers': list(prog.expanded)[:200]}
    for line in prog.normalized:
        if 'failed and was skipped' in line:
            print(f'NORMALISER-WARNING {line}')
    mod.run(ctx)
    from kfv.rules import generic_rules
    ctx.do(generic_rules.rule_iter_once)
    known = {k['key'] for k in core.load_known() if k.get('status') == 'known' and a.prop in k.get('properties', [])}
    if not [v for v in ctx.violations if v['key'] not in known]:
        # a definite violation is reported even when another rule lost its anchors;
        # a vacuous pass is never reported
        if ctx.incomplete:
            raise core.AnalysisIncomplete('; '.join(ctx.incomplete))
        ctx.floors()
    if a.tier == 'thorough' and not [v for v in ctx.violations if v['key'] not in known] and os.environ.get('KFV_NO_SELFTEST') != '1':
        thorough_extras(ctx, a)
    if a.replay:
        with open(a.replay) as fh:
            want = json.load(fh)
        hit = [v for v in ctx.violations if v['key'] == want.get('key')]
        print(f'REPLAY {want.get("key")}: ' + ('still violated' if hit else 'no longer violated'))
        for v in hit:
            print(json.dumps(v, indent=1))
    return core.finish(ctx, mod.TECHNIQUE)


if __name__ == '__main__':
    core.main_wrapper(main)
