#!/venv/bin/python
"""Static checks of the kfac-pytorch properties.

usage: /venv/bin/python /verif/check.py <ID> [--tier quick|thorough] [--repo /repo] [--replay <path>]

exit 0: every obligation discharged (KNOWN-FINDING lines for listed findings)
exit 1: VIOLATION property=<id> replay=<path>
exit 2: ANALYSIS-ERROR / ANALYSIS-INCOMPLETE (no verdict)
"""
from __future__ import annotations

import argparse
import importlib
import json
import os
import sys

sys.path.insert(0, os.path.dirname(os.path.abspath(__file__)))

from kfv import core  # noqa: E402


def main() -> int:
    ap = argparse.ArgumentParser()
    ap.add_argument('prop')
    ap.add_argument('--tier', default=os.environ.get('VERIF_TIER', 'quick'), choices=['quick', 'thorough'])
    ap.add_argument('--repo', default=os.environ.get('KFV_REPO', '/repo'))
    ap.add_argument('--replay', default=None)
    ap.add_argument('--evidence-dir', default=None)
    a = ap.parse_args()
    if a.evidence_dir:
        core.EVIDENCE_DIR = a.evidence_dir
    try:
        seed = int(os.environ.get('VERIF_SEED', '0'))
    except ValueError:
        seed = 0
    try:
        mod = importlib.import_module(f'kfv.rules.{a.prop.lower()}')
    except ModuleNotFoundError as e:
        raise core.AnalysisError(f'no check implemented for property {a.prop}: {e}') from e
    from kfv.model import Program
    prog = Program(a.repo, use_mypy=getattr(mod, 'NEEDS_TYPES', True))
    ctx = core.Ctx(a.prop, a.tier, prog, seed)
    ctx.explanation = mod.EXPLANATION
    mod.run(ctx)
    known = {k['key'] for k in core.load_known() if k.get('status') == 'known' and a.prop in k.get('properties', [])}
    if not [v for v in ctx.violations if v['key'] not in known]:
        # a definite violation is reported even when another rule lost its anchors;
        # a vacuous pass is never reported
        if ctx.incomplete:
            raise core.AnalysisIncomplete('; '.join(ctx.incomplete))
        ctx.floors()
    if a.replay:
        with open(a.replay) as fh:
            want = json.load(fh)
        hit = [v for v in ctx.violations if v['key'] == want.get('key')]
        print(f'REPLAY {want.get("key")}: ' + ('still violated' if hit else 'no longer violated'))
        for v in hit:
            print(json.dumps(v, indent=1))
    return core.finish(ctx, mod.TECHNIQUE)


if __name__ == '__main__':
    core.main_wrapper(main)
