"""E3/E5 — abstract interpretation of the tensor code (index spaces, units, dtype tokens, qualifiers, aliases).

Abstract tensor = named index spaces (axes) x physical unit (monomial over
lamA, lamG, gamma, ...) x dtype token x qualifiers x alias labels.  Axes are
*named*, so `qg` and `qg.t()` differ even for square layers and
outer(da, dg) differs from outer(dg, da).  Methods are evaluated once per
valuation of a fixed set of configuration flags (trace partitioning); calls
into the package are inlined context-sensitively.  An operator outside the
vocabulary yields TOP; obligations that meet TOP make the rule incomplete.
Nothing is executed and no numeric value is computed.
"""
from __future__ import annotations

import ast
from dataclasses import dataclass
from dataclasses import field
from dataclasses import replace
from typing import Any
from typing import Callable

from kfv import flow
from kfv.core import AnalysisIncomplete
from kfv.model import Func
from kfv.model import Program
from kfv.model import norm

# ------------------------------------------------------------------ values

Unit = tuple   # sorted tuple of (atom, exponent)


def umul(a: Unit, b: Unit, sign: int = 1) -> Unit:
    d = dict(a)
    for k, e in b:
        d[k] = d.get(k, 0) + sign * e
    return tuple(sorted((k, e) for k, e in d.items() if e != 0))


def ustr(u: Unit) -> str:
    return '*'.join(k if e == 1 else f'{k}^{e}' for k, e in u) or '1'


@dataclass(frozen=True)
class TV:
    axes: tuple                      # tuple of axis terms
    unit: Unit = ()
    dtype: str = '?'
    quals: frozenset = frozenset()
    alias: frozenset = frozenset()   # storage labels this value may share memory with
    const: str | None = None         # constant fill value (canonical text) if the tensor is a constant
    coef: tuple = ()                 # scalar size factors applied: sorted tuple of (size-term, exponent)
    src: str = ''                    # provenance tag (for gram detection)

    def q(self, *qs: str) -> 'TV':
        return replace(self, quals=self.quals | set(qs))

    def noq(self, *qs: str) -> 'TV':
        return replace(self, quals=self.quals - set(qs))

    def fresh(self) -> 'TV':
        return replace(self, alias=frozenset())

    def __str__(self) -> str:
        return f'T{axes_str(self.axes)}[{ustr(self.unit)}|{self.dtype}|{",".join(sorted(self.quals))}]'


@dataclass(frozen=True)
class SV:
    """Scalar: python number / 0-d quantity."""
    unit: Unit = ()
    text: str = ''                   # canonical text (for constants / sizes)
    kind: str = 'num'                # num | size | damping | flag
    size: Any = None                 # axis term when kind == 'size'


@dataclass(frozen=True)
class ShapeV:
    axes: tuple


def _axis_of(x: Any) -> str:
    """Axis token of a scalar used as one extent of a shape."""
    if isinstance(x, SV) and x.text == '1':
        return 'ONE'
    if isinstance(x, SV) and x.kind == 'size':
        return x.size
    return f'n{getattr(x, "text", "?")}'


@dataclass(frozen=True)
class DT:
    token: str


@dataclass(frozen=True)
class ListV:
    items: tuple                     # tuple of values (homogeneous lists keep one representative + n='*')
    star: bool = False
    shared: bool = False             # [x] * n: every slot is the same object


@dataclass(frozen=True)
class NoneV:
    pass


@dataclass(frozen=True)
class Top:
    why: str = ''


@dataclass(frozen=True)
class ObjV:
    """Opaque python object with a tag (torch module, config list, ...)."""
    tag: str


NONE = NoneV()


def has_q(a: Any) -> bool:
    """True if an axis term (or tuple of axes) mentions the unknown shape marker '?'."""
    if a == '?':
        return True
    if isinstance(a, tuple):
        return any(has_q(x) for x in a)
    return False


def axes_str(a: tuple) -> str:
    def one(x: Any) -> str:
        if isinstance(x, tuple):
            return x[0] + '(' + ','.join(one(y) for y in x[1:]) + ')'
        return str(x)
    return '(' + ', '.join(one(x) for x in a) + ')'


def prod_axis(parts: list) -> Any:
    flat: list = []
    for p in parts:
        if isinstance(p, tuple) and p and p[0] == 'prod':
            flat += list(p[1:])
        elif p == 'ONE':
            continue
        else:
            flat.append(p)
    if not flat:
        return 'ONE'
    if len(flat) == 1:
        return flat[0]
    return ('prod',) + tuple(flat)


def atoms_of_axis(a: Any) -> list:
    if isinstance(a, tuple) and a and a[0] == 'prod':
        out = []
        for x in a[1:]:
            out += atoms_of_axis(x)
        return out
    if a == 'ONE':
        return []
    return [a]


# ------------------------------------------------------------------ interpreter

@dataclass
class Report:
    kind: str          # type-error | inplace | note
    node: ast.AST
    func: Func
    msg: str


@dataclass(frozen=True)
class St:
    env: tuple          # sorted (name, value)
    slots: tuple        # sorted (slot, value)  -- self.<attr> of the receiver object
    flags: tuple        # sorted (text, bool)

    def get(self, k: str) -> Any:
        for n, v in self.env:
            if n == k:
                return v
        return None

    def set(self, k: str, v: Any) -> 'St':
        d = dict(self.env)
        d[k] = v
        return St(tuple(sorted(d.items(), key=lambda x: x[0])), self.slots, self.flags)

    def slot(self, k: str) -> Any:
        for n, v in self.slots:
            if n == k:
                return v
        return None

    def setslot(self, k: str, v: Any) -> 'St':
        d = dict(self.slots)
        d[k] = v
        return St(self.env, tuple(sorted(d.items(), key=lambda x: x[0])), self.flags)

    def flag(self, k: str) -> bool | None:
        for n, v in self.flags:
            if n == k:
                return v
        return None

    def setflag(self, k: str, v: bool) -> 'St':
        d = dict(self.flags)
        d[k] = v
        return St(self.env, self.slots, tuple(sorted(d.items())))


def join_val(a: Any, b: Any) -> Any:
    if a == b:
        return a
    if isinstance(a, TV) and isinstance(b, TV) and a.axes == b.axes and a.unit == b.unit and a.dtype == b.dtype:
        return TV(a.axes, a.unit, a.dtype, a.quals & b.quals, a.alias | b.alias, a.const if a.const == b.const else None, a.coef if a.coef == b.coef else (), '')
    if isinstance(a, TV) and isinstance(b, TV):
        # shapes disagree between paths: keep a shape-unknown tensor so that alias / dtype facts survive
        return TV(('?',), a.unit if a.unit == b.unit else (), a.dtype if a.dtype == b.dtype else '?', a.quals & b.quals, a.alias | b.alias, None, (), '')
    if isinstance(a, NoneV) and isinstance(b, TV):
        return b.q('maybe-none')
    if isinstance(b, NoneV) and isinstance(a, TV):
        return a.q('maybe-none')
    if isinstance(a, Top):
        return a
    if isinstance(b, Top):
        return b
    return Top(f'join of {a} and {b}')


class Interp:
    """One interpreter instance per (rule, receiver class); evaluate methods with `call_method`."""

    def __init__(self, prog: Program, flags: dict[str, bool] | None = None, oracle: Callable[['Interp', Func, ast.AST, St], Any] | None = None,
                 max_depth: int = 6) -> None:
        self.prog = prog
        self.flags = dict(flags or {})
        self.oracle = oracle            # hook: oracle(interp, func, node, state) -> value | None
        self.reports: list[Report] = []
        self.events: list[tuple] = []   # (kind, func, node, payload)
        self.max_depth = max_depth
        self.depth = 0
        self.unknown: list[tuple[Func, ast.AST, str]] = []

    # ---------------------------------------------------------------- utilities
    def err(self, f: Func, n: ast.AST, msg: str, kind: str = 'type-error') -> None:
        self.reports.append(Report(kind, n, f, msg))

    def top(self, f: Func, n: ast.AST, why: str) -> Top:
        self.unknown.append((f, n, why))
        return Top(why)

    # ---------------------------------------------------------------- function evaluation
    def call_function(self, f: Func, args: dict[str, Any], slots: dict[str, Any] | None = None, flags: dict | None = None) -> tuple[Any, St | None]:
        """Evaluate f with bound parameter values; returns (joined return value, final state at normal exits)."""
        if self.depth > self.max_depth:
            return self.top(f, f.node, 'inlining depth'), None
        self.depth += 1
        try:
            env = {k: v for k, v in args.items()}
            st = St(tuple(sorted(env.items(), key=lambda x: x[0])), tuple(sorted((slots or {}).items(), key=lambda x: x[0])),
                    tuple(sorted({**self.flags, **(flags or {})}.items())))
            cb = _CB(self, f)
            w = flow.Walker(cb, max_iter=3)
            final, exits = w.run(f, st)
            ret = None
            first = True
            for s, r in exits:
                v = cb.retvals.get(id(r), NONE) if r is not None else NONE
                ret = v if first else join_val(ret, v)
                first = False
            return (ret if not first else NONE), final
        finally:
            self.depth -= 1


class _CB(flow.DefaultCB):
    def __init__(self, it: Interp, f: Func) -> None:
        self.it = it
        self.f = f
        self.retvals: dict[int, Any] = {}

    # ---- walker interface
    def expr(self, s: St, e: ast.AST, st: ast.stmt) -> St:
        return s

    def stmt(self, s: St, st: ast.stmt) -> St:
        it = self.it
        if isinstance(st, ast.Assign):
            v, s = self.ev(st.value, s)
            for t in st.targets:
                s = self.store(t, v, s, st)
            return s
        if isinstance(st, ast.AnnAssign):
            if st.value is None:
                return s
            v, s = self.ev(st.value, s)
            return self.store(st.target, v, s, st)
        if isinstance(st, ast.AugAssign):
            cur, s = self.ev(_load(st.target), s)
            rhs, s = self.ev(st.value, s)
            if isinstance(cur, TV) and cur.alias:
                it.events.append(('inplace', self.f, st, (f'augmented assignment {norm(st)[:60]}', cur)))
            v = self.binop(st.op, cur, rhs, st, s)
            return self.store(st.target, v, s, st)
        if isinstance(st, ast.Return):
            if st.value is not None:
                v, s = self.ev(st.value, s)
            else:
                v = NONE
            self.retvals[id(st)] = v
            return s
        if isinstance(st, ast.Expr):
            _v, s = self.ev(st.value, s)
            return s
        return s

    def assume(self, s: St, test: ast.expr, pol: bool) -> St | None:
        v = self.truth(test, s)
        if v is not None and v != pol:
            return None
        # remember atoms
        return self.refine(test, pol, s)

    def join(self, a: St, b: St) -> St:
        if a == b:
            return a
        env = {}
        da, db = dict(a.env), dict(b.env)
        for k in set(da) | set(db):
            if k in da and k in db:
                env[k] = join_val(da[k], db[k])
            else:
                env[k] = Top(f'{k} assigned on one path only')
        sl = {}
        sa, sb = dict(a.slots), dict(b.slots)
        for k in set(sa) | set(sb):
            sl[k] = join_val(sa.get(k, NONE), sb.get(k, NONE))
        fl = tuple(sorted(set(a.flags) & set(b.flags)))
        return St(tuple(sorted(env.items(), key=lambda x: x[0])), tuple(sorted(sl.items(), key=lambda x: x[0])), fl)

    def loop_enter(self, s: St, loop: ast.stmt) -> St:
        if isinstance(loop, (ast.For, ast.AsyncFor)):
            v, s = self.ev(loop.iter, s)
            elem: Any = Top('loop element')
            if isinstance(v, ListV) and v.items:
                elem = v.items[0]
            return self.store(loop.target, elem, s, loop)
        return s

    # ---- truth of tests under flags
    def truth(self, e: ast.expr, s: St) -> bool | None:
        fv0 = s.flag(norm(e))
        if fv0 is not None:
            return fv0
        if isinstance(e, ast.UnaryOp) and isinstance(e.op, ast.Not):
            v = self.truth(e.operand, s)
            return None if v is None else (not v)
        if isinstance(e, ast.BoolOp):
            vs = [self.truth(v, s) for v in e.values]
            if isinstance(e.op, ast.And):
                if any(v is False for v in vs):
                    return False
                return True if all(v is True for v in vs) else None
            if any(v is True for v in vs):
                return True
            return False if all(v is False for v in vs) else None
        key = norm(e)
        fv = s.flag(key)
        if fv is not None:
            return fv
        if isinstance(e, ast.Name):
            v0 = s.get(e.id)
            if isinstance(v0, SV) and v0.kind == 'flag' and v0.text in ('True', 'False'):
                return v0.text == 'True'
            if isinstance(v0, SV) and v0.kind == 'flag' and v0.text != e.id and depth_ok(v0.text):
                # a local holding a test (`skip = a and b`): the truth of the test it was assigned
                try:
                    t2 = ast.parse(v0.text, mode='eval').body
                except SyntaxError:
                    t2 = None
                if t2 is not None and not (isinstance(t2, ast.Name) and t2.id == e.id):
                    return self.truth(t2, s)
        if isinstance(e, ast.Compare) and len(e.ops) == 1:
            l, r = e.left, e.comparators[0]
            if isinstance(e.ops[0], (ast.Is, ast.IsNot)) and isinstance(r, ast.Constant) and r.value is None:
                v, _ = self.ev(l, s, quiet=True)
                if isinstance(v, NoneV):
                    return isinstance(e.ops[0], ast.Is)
                if isinstance(v, (TV, SV, ListV, ObjV, DT, ShapeV)) and not (isinstance(v, TV) and 'maybe-none' in v.quals):
                    return isinstance(e.ops[0], ast.IsNot)
                return None
            if isinstance(e.ops[0], (ast.Eq, ast.NotEq)):
                k2 = norm(ast.Compare(left=l, ops=[ast.Eq()], comparators=[r]))
                fv = s.flag(k2)
                if fv is not None:
                    return fv if isinstance(e.ops[0], ast.Eq) else (not fv)
                # string constants compared with a flagged alternative (parallelism == 'input' vs 'output')
                if isinstance(r, ast.Constant) and isinstance(r.value, str):
                    for (ft, fval) in s.flags:
                        if ft.startswith(norm(l) + ' == ') and fval and ft != k2:
                            return not isinstance(e.ops[0], ast.Eq)
        nf = getattr(self.it, 'num_facts', None)
        if nf:
            a = self._absnum(e, s, nf)
            if a is not None and a[0] == 'bool':
                return a[1]
            if a is not None and a[0] == 'num':
                return a[1] != 0
        if isinstance(e, ast.Call) and norm(e.func) == 'isinstance' and len(e.args) == 2:
            v, _ = self.ev(e.args[0], s, quiet=True)
            tn = norm(e.args[1])
            if isinstance(v, TV) and tn in ('torch.Tensor',):
                return True
            if isinstance(v, NoneV):
                return False
            if tn == 'Future' and isinstance(v, (TV, NoneV)):
                return False
        return None

    def _conv_extent(self, e: ast.BinOp, s: St) -> Any:
        """`(n + 2*p - k) // s + 1` with n an extent of the input, p / k / s entries of the module's padding /
        kernel_size / stride pairs: the number of window positions along that axis (A3: torch's convolution
        arithmetic), i.e. the extent `win(pad(n, p), k, s)`.  True division in place of the floor is reported."""
        if not (isinstance(e.op, ast.Add) and isinstance(e.right, ast.Constant) and e.right.value == 1 and isinstance(e.left, ast.BinOp)
                and isinstance(e.left.op, (ast.FloorDiv, ast.Div))):
            return None
        num, den = e.left.left, e.left.right

        def tagof(x: ast.expr) -> str | None:
            try:
                v, _ = self.ev(x, s, quiet=True)
            except Exception:  # noqa: BLE001
                return None
            return v.tag if isinstance(v, ObjV) else None
        st_ = tagof(den)
        if st_ is None or not st_.startswith('stride['):
            return None
        # numerator: terms of a sum / difference
        terms: list[tuple[int, ast.expr]] = []

        def split(x: ast.expr, sign: int) -> None:
            if isinstance(x, ast.BinOp) and isinstance(x.op, (ast.Add, ast.Sub)):
                split(x.left, sign)
                split(x.right, sign if isinstance(x.op, ast.Add) else -sign)
            else:
                terms.append((sign, x))
        split(num, 1)
        size_ax = None
        pad = None
        ker = None
        for sign, t in terms:
            if sign == 1 and isinstance(t, ast.BinOp) and isinstance(t.op, ast.Mult):
                c, o = (t.left, t.right) if isinstance(t.left, ast.Constant) else (t.right, t.left)
                tg = tagof(o)
                if isinstance(c, ast.Constant) and c.value == 2 and tg and tg.startswith('padding[') and pad is None:
                    pad = tg
                    continue
                return None
            tg = tagof(t)
            if sign == -1 and tg and tg.startswith('kernel_size[') and ker is None:
                ker = tg
                continue
            if sign == 1 and size_ax is None:
                try:
                    v, _ = self.ev(t, s, quiet=True)
                except Exception:  # noqa: BLE001
                    return None
                if isinstance(v, SV) and v.kind == 'size' and isinstance(v.size, str):
                    size_ax = v.size
                    continue
            return None
        if size_ax is None or ker is None:
            return None
        nf = getattr(self.it, 'num_facts', None) or {}
        inner = ('pad', size_ax, pad) if pad is not None and nf.get(pad) != 0 else size_ax
        if isinstance(e.left.op, ast.Div):
            self.it.err(self.f, e, f'{norm(e)[:80]}: the number of window positions is computed with true division; it is floor(({size_ax} + 2p - k) / s) + 1, '
                                   'so the value is fractional (and too large) whenever the padded extent minus the kernel is not a multiple of the stride')
        ax = ('win', inner, ker, st_)
        return SV((), f'size{axes_str((ax,))}', 'size', ax)

    def _absnum(self, e: ast.expr, s: St, nf: dict) -> tuple | None:
        """Abstract value of a small arithmetic test over extents known to be 0 or positive ('P' = at least 1):
        ('num', 0 | 'P' | int) or ('bool', b); None when not decided."""
        if isinstance(e, ast.Constant) and isinstance(e.value, bool):
            return ('bool', e.value)
        if isinstance(e, ast.Constant) and isinstance(e.value, int):
            return ('num', e.value)
        if isinstance(e, (ast.Name, ast.Subscript, ast.Attribute)):
            try:
                v, _ = self.ev(e, s, quiet=True)
            except Exception:  # noqa: BLE001
                return None
            tag = v.tag if isinstance(v, ObjV) else (v.text if isinstance(v, SV) else None)
            if tag in nf:
                return ('num', nf[tag])
            return None
        if isinstance(e, ast.BinOp) and isinstance(e.op, (ast.Add, ast.Mult)):
            a, b = self._absnum(e.left, s, nf), self._absnum(e.right, s, nf)
            if a is None or b is None or a[0] != 'num' or b[0] != 'num':
                return None
            x, y = a[1], b[1]
            if isinstance(e.op, ast.Add):
                if x == 0:
                    return ('num', y)
                if y == 0:
                    return ('num', x)
                if 'P' in (x, y):
                    return ('num', 'P') if all(v == 'P' or (isinstance(v, int) and v >= 0) for v in (x, y)) else None
                return ('num', x + y)
            if x == 0 or y == 0:
                return ('num', 0)
            if 'P' in (x, y):
                return ('num', 'P') if all(v == 'P' or (isinstance(v, int) and v >= 1) for v in (x, y)) else None
            return ('num', x * y)
        if isinstance(e, ast.Call) and isinstance(e.func, ast.Name) and e.func.id in ('max', 'sum', 'any', 'min', 'all') and e.args:
            elts = e.args if len(e.args) > 1 else (e.args[0].elts if isinstance(e.args[0], (ast.Tuple, ast.List)) else None)
            if elts is None and len(e.args) == 1:
                # a whole pair of the module's geometry: its two entries
                try:
                    v0, _ = self.ev(e.args[0], s, quiet=True)
                except Exception:  # noqa: BLE001
                    v0 = None
                if isinstance(v0, ObjV) and f'{v0.tag}[0]' in nf and f'{v0.tag}[1]' in nf:
                    vs0 = [nf[f'{v0.tag}[0]'], nf[f'{v0.tag}[1]']]
                    nz0 = [x for x in vs0 if x != 0]
                    if e.func.id in ('max', 'sum', 'any'):
                        r0 = 0 if not nz0 else 'P'
                    else:
                        r0 = 0 if len(nz0) < 2 else 'P'
                    return ('bool', r0 != 0) if e.func.id in ('any', 'all') else ('num', r0)
            if elts is None:
                return None
            vs = [self._absnum(x, s, nf) for x in elts]
            if any(v is None or v[0] != 'num' for v in vs):
                return None
            nz = [v[1] for v in vs if v[1] != 0]
            if e.func.id in ('max', 'sum', 'any'):
                r = 0 if not nz else ('P' if all(v == 'P' or (isinstance(v, int) and v >= 1) for v in nz) else None)
            else:
                r = 0 if len(nz) < len(vs) else ('P' if all(v == 'P' or (isinstance(v, int) and v >= 1) for v in nz) else None)
            if r is None:
                return None
            return ('bool', r != 0) if e.func.id in ('any', 'all') else ('num', r)
        if isinstance(e, ast.Compare) and len(e.ops) == 1:
            a, b = self._absnum(e.left, s, nf), self._absnum(e.comparators[0], s, nf)
            if a is None or b is None or a[0] != 'num' or b[0] != 'num':
                return None
            x, y = a[1], b[1]
            op = e.ops[0]
            if x != 'P' and y != 'P':
                tbl = {ast.Gt: x > y, ast.GtE: x >= y, ast.Lt: x < y, ast.LtE: x <= y, ast.Eq: x == y, ast.NotEq: x != y}
                return ('bool', tbl[type(op)]) if type(op) in tbl else None
            if x == 'P' and isinstance(y, int):
                if y <= 0:
                    tbl = {ast.Gt: True, ast.GtE: True, ast.Lt: False, ast.LtE: False, ast.Eq: False, ast.NotEq: True}
                    return ('bool', tbl[type(op)]) if type(op) in tbl else None
                if y == 1:
                    tbl = {ast.GtE: True, ast.Lt: False}
                    return ('bool', tbl[type(op)]) if type(op) in tbl else None
            if y == 'P' and isinstance(x, int):
                if x <= 0:
                    tbl = {ast.Lt: True, ast.LtE: True, ast.Gt: False, ast.GtE: False, ast.Eq: False, ast.NotEq: True}
                    return ('bool', tbl[type(op)]) if type(op) in tbl else None
                if x == 1:
                    tbl = {ast.LtE: True, ast.Gt: False}
                    return ('bool', tbl[type(op)]) if type(op) in tbl else None
            return None
        return None

    def refine(self, e: ast.expr, pol: bool, s: St) -> St:
        if isinstance(e, ast.UnaryOp) and isinstance(e.op, ast.Not):
            return self.refine(e.operand, not pol, s)
        if isinstance(e, ast.BoolOp):
            if (isinstance(e.op, ast.And) and pol) or (isinstance(e.op, ast.Or) and not pol):
                for v in e.values:
                    s = self.refine(v, pol, s)
            return s
        if isinstance(e, ast.Compare) and len(e.ops) == 1 and isinstance(e.ops[0], (ast.Is, ast.IsNot)) \
                and isinstance(e.comparators[0], ast.Constant) and e.comparators[0].value is None:
            is_none = isinstance(e.ops[0], ast.Is) == pol
            tgt = e.left
            if isinstance(tgt, ast.Name):
                v = s.get(tgt.id)
                if isinstance(v, TV) and 'maybe-none' in v.quals:
                    s = s.set(tgt.id, NONE if is_none else v.noq('maybe-none'))
            elif isinstance(tgt, ast.Attribute) and isinstance(tgt.value, ast.Name) and tgt.value.id == 'self':
                v = s.slot(tgt.attr)
                if isinstance(v, TV) and 'maybe-none' in v.quals:
                    s = s.setslot(tgt.attr, NONE if is_none else v.noq('maybe-none'))
            return s
        if isinstance(e, ast.Compare) and len(e.ops) == 1 and isinstance(e.ops[0], ast.NotEq):
            return s.setflag(norm(ast.Compare(left=e.left, ops=[ast.Eq()], comparators=e.comparators)), not pol)
        if isinstance(e, (ast.Compare, ast.Call, ast.Attribute, ast.Name)):
            return s.setflag(norm(e), pol)
        return s

    # ---- stores
    def store(self, t: ast.AST, v: Any, s: St, st: ast.AST) -> St:
        if isinstance(t, ast.Name):
            return s.set(t.id, v)
        if isinstance(t, (ast.Tuple, ast.List)):
            if isinstance(v, ListV) and not v.star and len(v.items) == len(t.elts):
                for e, x in zip(t.elts, v.items):
                    s = self.store(e, x, s, st)
                return s
            if isinstance(v, ObjV) and v.tag in ('padding', 'kernel_size', 'stride', 'dilation') and len(t.elts) == 2:
                for k_, e in enumerate(t.elts):
                    s = self.store(e, ObjV(f'{v.tag}[{k_}]'), s, st)
                return s
            if isinstance(v, ShapeV) and len(v.axes) == len(t.elts):
                for e, a in zip(t.elts, v.axes):
                    s = self.store(e, SV((), f'size{axes_str((a,))}', 'size', a), s, st)
                return s
            for e in t.elts:
                s = self.store(e, Top(f'unpacking of {v}'), s, st)
            return s
        if isinstance(t, ast.Attribute):
            if isinstance(t.value, ast.Name) and t.value.id == 'self':
                self.it.events.append(('slot-store', self.f, st, (t.attr, v)))
                # property setters store into the private slot of the same name
                return s.setslot(t.attr, v)
            base, s = self.ev(t.value, s, quiet=True)
            self.it.events.append(('attr-store', self.f, st, (norm(t), v, base)))
            return s
        if isinstance(t, ast.Subscript):
            base, s = self.ev(t.value, s)
            idx, s = self.ev(t.slice, s, quiet=True)
            if isinstance(base, ShapeV) and isinstance(t.value, ast.Name):
                # sizes[d] = n on a local list of extents
                from kfv.tensor_ops import dim_of
                d = dim_of(idx, len(base.axes))
                if d is not None and 0 <= d < len(base.axes) and isinstance(v, SV) and (v.kind == 'size' or v.text == '1'):
                    return s.set(t.value.id, ShapeV(base.axes[:d] + (_axis_of(v),) + base.axes[d + 1:]))
                return s.set(t.value.id, ShapeV(tuple('?' for _ in base.axes)))
            self.it.events.append(('subscript-store', self.f, st, (base, idx, v, t)))
            if isinstance(base, TV) and base.alias:
                self.it.events.append(('inplace', self.f, st, (f'subscript store {norm(t)[:60]}', base)))
            return s
        return s

    # ---- expressions
    def ev(self, e: ast.AST, s: St, quiet: bool = False) -> tuple[Any, St]:
        it = self.it
        if it.oracle is not None:
            o = it.oracle(it, self.f, e, s)
            if o is not None:
                return o, s
        if isinstance(e, ast.Constant):
            if e.value is None:
                return NONE, s
            if isinstance(e.value, bool):
                return SV((), str(e.value), 'flag'), s
            if isinstance(e.value, (int, float)):
                return SV((), repr(e.value), 'num'), s
            return ObjV(repr(e.value)), s
        if isinstance(e, ast.Name):
            v = s.get(e.id)
            if v is None:
                if e.id in ('torch', 'dist', 'math'):
                    return ObjV(e.id), s
                return (Top(f'unbound {e.id}') if quiet else it.top(self.f, e, f'unknown name {e.id}')), s
            if isinstance(v, TV) and not v.src:
                v = replace(v, src=e.id)
            return v, s
        if isinstance(e, ast.Attribute):
            return self.ev_attr(e, s, quiet)
        if isinstance(e, ast.Call):
            return self.ev_call(e, s, quiet)
        if isinstance(e, ast.BinOp):
            ce = self._conv_extent(e, s)
            if ce is not None:
                return ce, s
            a, s = self.ev(e.left, s, quiet)
            b, s = self.ev(e.right, s, quiet)
            return self.binop(e.op, a, b, e, s), s
        if isinstance(e, ast.UnaryOp):
            a, s = self.ev(e.operand, s, quiet)
            if isinstance(e.op, ast.USub) and isinstance(a, SV):
                return SV(a.unit, f'-{a.text}', a.kind), s
            if isinstance(e.op, ast.Not):
                return SV((), f'not {norm(e.operand)}', 'flag'), s
            return a, s
        if isinstance(e, ast.Subscript):
            return self.ev_subscript(e, s, quiet)
        if isinstance(e, (ast.Tuple, ast.List)):
            items = []
            splat = False
            for x in e.elts:
                v, s = self.ev(x, s, quiet)
                if isinstance(x, ast.Starred) and isinstance(v, ShapeV):
                    splat = True
                items.append(v)
            if splat:
                # [*t.shape[:-1], 1] is the shape list(t.shape[:-1]) + [1]
                axes: tuple = ()
                for v in items:
                    axes += v.axes if isinstance(v, ShapeV) else (_axis_of(v),)
                return ShapeV(axes), s
            return ListV(tuple(items)), s
        if isinstance(e, ast.IfExp):
            tv = self.truth(e.test, s)
            if tv is True:
                return self.ev(e.body, s, quiet)
            if tv is False:
                return self.ev(e.orelse, s, quiet)
            a, s1 = self.ev(e.body, s, quiet)
            b, s2 = self.ev(e.orelse, s, quiet)
            return join_val(a, b), s
        if isinstance(e, (ast.ListComp, ast.GeneratorExp)) and len(e.generators) == 1:
            g = e.generators[0]
            itv, s = self.ev(g.iter, s, quiet)
            elem: Any = Top('comprehension element')
            if isinstance(itv, ListV) and itv.items:
                elem = itv.items[0] if itv.star or len(itv.items) == 1 else join_all(itv.items)
            elif isinstance(itv, SV) or isinstance(itv, ObjV):
                elem = SV((), 'i', 'num')
            s2 = self.store(g.target, elem, s, e)
            v, _ = self.ev(e.elt, s2, quiet)
            return ListV((v,), star=True), s
        if isinstance(e, ast.Compare):
            return SV((), norm(e), 'flag'), s
        if isinstance(e, ast.BoolOp):
            return SV((), norm(e), 'flag'), s
        if isinstance(e, ast.JoinedStr):
            return ObjV('str'), s
        if isinstance(e, ast.Lambda):
            return ObjV('lambda'), s
        if isinstance(e, ast.Starred):
            return self.ev(e.value, s, quiet)
        if isinstance(e, ast.Slice):
            return ObjV('slice'), s
        return (Top(norm(e)) if quiet else it.top(self.f, e, f'expression {type(e).__name__}')), s

    # ---- attributes
    def ev_attr(self, e: ast.Attribute, s: St, quiet: bool) -> tuple[Any, St]:
        it = self.it
        if isinstance(e.value, ast.Name) and e.value.id == 'self':
            # property getter of a future slot: read the slot
            v = s.slot(e.attr)
            if v is None:
                v = s.slot('_' + e.attr)
            if v is not None:
                return v, s
            # methods / properties implemented in the package
            if self.f.cls:
                g = it.prog.lookup_method(self._recv_cls(s), e.attr, 'getter')
                if g is not None:
                    r, _ = it.call_function(g, {'self': ObjV('self')}, dict(s.slots), dict(s.flags))
                    return r, s
            return (Top(f'self.{e.attr}') if quiet else it.top(self.f, e, f'unknown slot self.{e.attr}')), s
        base, s = self.ev(e.value, s, quiet)
        a = e.attr
        if isinstance(base, TV):
            if a == 'shape':
                return ShapeV(base.axes), s
            if a == 'dtype':
                return DT(base.dtype), s
            if a == 'device':
                return ObjV('device'), s
            if a in ('data', 'real', 'mT', 'T') and a in ('data', 'real'):
                return base, s
            if a in ('T', 'mT') and len(base.axes) == 2:
                return replace(base, axes=(base.axes[1], base.axes[0])), s
            if a == 'grad':
                return Top('grad attribute of a tensor value'), s
        if isinstance(base, ObjV) and base.tag in ('torch', 'dist', 'math'):
            return ObjV(f'{base.tag}.{a}'), s
        if isinstance(base, ObjV):
            return ObjV(f'{base.tag}.{a}'), s
        return (Top(norm(e)) if quiet else it.top(self.f, e, f'attribute .{a} of {base}')), s

    def _recv_cls(self, s: St) -> str:
        v = s.slot('__class__')
        return v.tag if isinstance(v, ObjV) else (self.f.cls or '')

    # ---- subscripts
    def ev_subscript(self, e: ast.Subscript, s: St, quiet: bool) -> tuple[Any, St]:
        it = self.it
        base, s = self.ev(e.value, s, quiet)
        sl = e.slice
        if isinstance(base, ShapeV):
            if not isinstance(sl, (ast.Constant, ast.Slice)):
                iv, s = self.ev(sl, s, True)
                if isinstance(iv, SV):
                    try:
                        sl = ast.Constant(value=int(float(iv.text)))
                    except ValueError:
                        pass
            if isinstance(sl, ast.Constant) and isinstance(sl.value, int):
                i = sl.value
                if -len(base.axes) <= i < len(base.axes):
                    a = base.axes[i]
                    return SV((), f'size{axes_str((a,))}', 'size', a), s
            if isinstance(sl, ast.Slice) and sl.lower is None and isinstance(sl.upper, ast.UnaryOp) and norm(sl.upper) == '-1':
                return ShapeV(base.axes[:-1]), s
            return Top('shape index'), s
        if isinstance(base, ListV):
            if isinstance(sl, ast.Constant) and isinstance(sl.value, int) and not base.star and -len(base.items) <= sl.value < len(base.items):
                return base.items[sl.value], s
            if base.items:
                return (base.items[0] if base.star or len(base.items) == 1 else join_all(base.items)), s
        if isinstance(base, ObjV):
            return ObjV(f'{base.tag}[{norm(sl)}]'), s
        if isinstance(base, TV):
            # x[:, :-1]  /  x[:, -1:]  on a bias-augmented last axis
            if isinstance(sl, ast.Tuple) and len(sl.elts) == 2 and isinstance(sl.elts[0], ast.Slice) and _full(sl.elts[0]) and isinstance(sl.elts[1], ast.Slice) and len(base.axes) == 2:
                part = _bias_slice(sl.elts[1])
                last = base.axes[1]
                if part and isinstance(last, tuple) and last[0] == 'cat' and len(last) == 3 and last[2] == 'ONE':
                    ax = last[1] if part == 'head' else 'ONE'
                    return replace(base, axes=(base.axes[0], ax), quals=base.quals - {'sym', 'gram'}, const=None), s
                if part:
                    it.err(self.f, e, f'{norm(e)} splits off the last column as bias, but the column axis is {axes_str((last,))} (bias is not the last column here)')
                    return replace(base, axes=(base.axes[0], ('slice', last, part))), s
            # advanced indexing by an index pair (triu): flatten
            if isinstance(sl, ast.Tuple) and len(sl.elts) == 2:
                return replace(base, axes=(('triu',) + tuple(base.axes),), quals=frozenset()), s
            return (Top(norm(e)) if quiet else it.top(self.f, e, f'subscript {norm(sl)} of tensor')), s
        return (Top(norm(e)) if quiet else it.top(self.f, e, f'subscript of {base}')), s

    # ---- binary operators
    def binop(self, op: ast.operator, a: Any, b: Any, node: ast.AST, s: St) -> Any:
        it = self.it
        if isinstance(a, Top) or isinstance(b, Top):
            return Top('operand unknown')
        if (isinstance(a, TV) and has_q(a.axes)) or (isinstance(b, TV) and has_q(b.axes)):
            ta = a if isinstance(a, TV) else b
            tb = b if isinstance(b, TV) else a
            return TV(('?',), (), ta.dtype if not isinstance(tb, TV) or ta.dtype == tb.dtype else '?', frozenset(), frozenset(), None, (), '')
        if isinstance(op, ast.MatMult):
            if isinstance(a, TV) and isinstance(b, TV):
                if len(a.axes) == 2 and len(b.axes) == 2:
                    if a.axes[1] != b.axes[0]:
                        it.err(self.f, node, f'matrix product {norm(node)[:70]}: inner index spaces differ — left is {a}, right is {b}')
                    quals = set()
                    if a.src and b.src and (a.src == f't({b.src})' or b.src == f't({a.src})'):
                        quals |= {'gram', 'sym'}
                    return TV((a.axes[0], b.axes[1]), umul(a.unit, b.unit), _jdt(a.dtype, b.dtype), frozenset(quals), frozenset(), None,
                              _cmul(a.coef, b.coef) + ((('contract', a.axes[1]),) if False else ()), '')
                it.err(self.f, node, f'matrix product of non-matrices {a} @ {b}')
                return Top('matmul')
            return Top('matmul of non-tensors')
        if isinstance(op, ast.Mult) and ((isinstance(a, ListV) and isinstance(b, SV)) or (isinstance(b, ListV) and isinstance(a, SV))):
            # sequence repetition with a literal count: (x, y) * 2
            lst, cnt = (a, b) if isinstance(a, ListV) else (b, a)
            if not lst.star and cnt.text.isdigit() and 0 < int(cnt.text) <= 4:
                return ListV(lst.items * int(cnt.text))
            if not lst.star and len(lst.items) == 1 and not cnt.text.lstrip('-').isdigit():
                # [x] * n with a symbolic count: n references to one object
                return ListV(lst.items, star=True, shared=isinstance(lst.items[0], TV))
        if isinstance(op, ast.Add) and isinstance(a, ShapeV) and isinstance(b, (ListV, ShapeV)):
            extra = b.axes if isinstance(b, ShapeV) else tuple(_axis_of(x) for x in b.items)
            return ShapeV(a.axes + extra)
        if isinstance(op, ast.Add) and isinstance(a, SV) and isinstance(b, SV) and a.kind == 'size' and b.kind in ('num', 'flag') and b.text in ('0', '1', 'True', 'False'):
            return a if b.text in ('0', 'False') else SV((), f'({a.text}+1)', 'size', ('cat', a.size, 'ONE'))
        if isinstance(op, (ast.Add, ast.Sub)):
            if isinstance(a, TV) and isinstance(b, TV):
                if a.axes != b.axes:
                    it.err(self.f, node, f'elementwise {type(op).__name__.lower()} of tensors over different index spaces: {a} vs {b} in {norm(node)[:70]}')
                u = a.unit
                quals = a.quals & b.quals & {'sym', 'nonneg'}
                if a.unit != b.unit:
                    if 'identity' in b.quals and b.const == 'damping':
                        quals = (a.quals & {'sym'}) | {'damped'}
                        it.events.append(('damp', self.f, node, ('identity', a)))
                    elif 'identity' in a.quals and a.const == 'damping':
                        quals = (b.quals & {'sym'}) | {'damped'}
                        u = b.unit
                        it.events.append(('damp', self.f, node, ('identity', b)))
                    else:
                        it.err(self.f, node, f'sum of quantities with different units: {ustr(a.unit)} and {ustr(b.unit)} in {norm(node)[:70]}')
                src = ''
                if isinstance(op, ast.Add) and a.src and b.src and (b.src == f't({a.src})' or a.src == f't({b.src})'):
                    quals = set(quals) | {'sym'}
                coef = a.coef if a.coef == b.coef else ()
                if isinstance(op, ast.Add) and a.coef == b.coef and a.unit == b.unit:
                    coef = _cmul(a.coef, (('2', 1),))     # x + x' with equal scale: doubles the scale (normalised by a later division)
                return TV(a.axes, u, _jdt(a.dtype, b.dtype), frozenset(quals), frozenset(), None, coef, src)
            t, sc = (a, b) if isinstance(a, TV) else (b, a)
            if isinstance(t, TV) and isinstance(sc, SV):
                if sc.kind == 'damping':
                    it.events.append(('damp', self.f, node, ('scalar', t)))
                    return TV(t.axes, t.unit, t.dtype, (t.quals & {'nonneg'}) | {'damped'}, frozenset(), None, t.coef, '')
                return TV(t.axes, t.unit, t.dtype, frozenset(), frozenset(), None, t.coef, '')
            if isinstance(a, SV) and isinstance(b, SV):
                return SV(a.unit if a.unit == b.unit else (), f'({a.text}{"+" if isinstance(op, ast.Add) else "-"}{b.text})', 'num')
            return Top('add')
        if isinstance(op, (ast.Mult, ast.Div)):
            sign = 1 if isinstance(op, ast.Mult) else -1
            if isinstance(a, TV) and isinstance(b, TV):
                if a.axes != b.axes:
                    it.err(self.f, node, f'elementwise {"product" if sign == 1 else "quotient"} of tensors over different index spaces: {a} vs {b} in {norm(node)[:70]}')
                quals = set()
                if sign == -1 and 'damped' not in b.quals and b.unit:
                    it.events.append(('undamped-division', self.f, node, b))
                return TV(a.axes, umul(a.unit, b.unit, sign), _jdt(a.dtype, b.dtype), frozenset(quals), frozenset(), None, _cmul(a.coef, b.coef, sign), '')
            if isinstance(a, TV) and isinstance(b, SV):
                if sign == 1 and b.kind == 'damping' and 'identity' in a.quals and a.const in ('1', '1.0'):
                    return replace(a, const='damping')       # I * damping
                coef = a.coef
                if b.kind == 'size':
                    coef = _cmul(a.coef, ((axes_str((b.size,)), 1),), sign)
                elif b.kind == 'num' and b.text not in ('1', '1.0'):
                    coef = _cmul(a.coef, ((b.text, 1),), sign)
                return TV(a.axes, umul(a.unit, b.unit, sign), a.dtype, a.quals & {'sym', 'gram', 'nonneg', 'bias-ones'}, frozenset(), None, coef, a.src)
            if isinstance(a, SV) and isinstance(b, TV):
                if sign == 1 and a.kind == 'damping' and 'identity' in b.quals and b.const in ('1', '1.0'):
                    return replace(b, const='damping')       # damping * I
                if sign == 1:
                    coef = b.coef
                    if a.kind == 'size':
                        coef = _cmul(b.coef, ((axes_str((a.size,)), 1),))
                    elif a.kind == 'num' and a.text not in ('1', '1.0'):
                        coef = _cmul(b.coef, ((a.text, 1),))
                    return TV(b.axes, umul(a.unit, b.unit), b.dtype, b.quals & {'sym', 'gram', 'nonneg', 'bias-ones'}, frozenset(), None, coef, b.src)
                # scalar / tensor: elementwise reciprocal
                q = {'recip'} | ({'damped'} if 'damped' in b.quals else set())
                if 'damped' not in b.quals:
                    it.events.append(('undamped-division', self.f, node, b))
                return TV(b.axes, umul(a.unit, b.unit, -1), b.dtype, frozenset(q), frozenset(), None, (), '')
            if isinstance(a, SV) and isinstance(b, SV) and sign == 1 and {a.kind, b.kind} == {'size', 'mp'}:
                sz = a if a.kind == 'size' else b
                if isinstance(sz.size, tuple) and sz.size and sz.size[0] == 'shard':
                    return SV((), f'full({sz.text})', 'size', sz.size[1])
                return SV((), f'({sz.text}*mp)', 'size', ('times-mp', sz.size))
            if isinstance(a, SV) and isinstance(b, SV) and sign == 1 and {a.kind, b.kind} == {'size', 'num'} and (a if a.kind == 'num' else b).text in ('1', '1.0'):
                return a if a.kind == 'size' else b
            if isinstance(a, SV) and isinstance(b, SV):
                k = 'size' if (a.kind == 'size' and b.kind == 'size' and sign == 1) else 'num'
                sz = prod_axis([a.size, b.size]) if k == 'size' else None
                return SV(umul(a.unit, b.unit, sign), f'({a.text}{"*" if sign == 1 else "/"}{b.text})', k, sz)
            return Top('mul')
        if isinstance(op, ast.Pow):
            if isinstance(a, SV) and isinstance(b, SV):
                try:
                    n = int(float(b.text))
                except ValueError:
                    return Top('pow')
                u: Unit = ()
                for _ in range(abs(n)):
                    u = umul(u, a.unit, 1 if n > 0 else -1)
                return SV(u, f'{a.text}^{n}', 'num')
            return Top('pow')
        if isinstance(op, ast.FloorDiv) and isinstance(a, SV) and isinstance(b, SV) and a.kind == 'size' and b.kind == 'mp':
            ax = a.size
            if isinstance(ax, tuple) and ax and ax[0] in ('gathered', 'times-mp'):
                return SV((), f'({a.text}//mp)', 'size', ax[1])
            if getattr(it, 'single_partition', False):
                return a
            return SV((), f'({a.text}//mp)', 'size', ('shard', ax))
        if isinstance(op, ast.FloorDiv) and isinstance(a, SV) and isinstance(b, SV):
            return SV((), f'({a.text}//{b.text})', 'num')
        return Top(f'operator {type(op).__name__}')

    # ---- calls
    def ev_call(self, e: ast.Call, s: St, quiet: bool) -> tuple[Any, St]:
        from kfv import tensor_ops
        return tensor_ops.call(self, e, s, quiet)


def depth_ok(text: str) -> bool:
    return len(text) < 400


def _load(t: ast.AST) -> ast.AST:
    import copy
    c = copy.copy(t)
    if hasattr(c, 'ctx'):
        c.ctx = ast.Load()
    return c


def _full(sl: ast.Slice) -> bool:
    return sl.lower is None and sl.upper is None and sl.step is None


def _bias_slice(sl: ast.Slice) -> str | None:
    if sl.step is not None:
        return None
    if sl.lower is None and sl.upper is not None and norm(sl.upper) == '-1':
        return 'head'
    if sl.upper is None and sl.lower is not None and norm(sl.lower) == '-1':
        return 'last'
    return None


def _jdt(a: str, b: str) -> str:
    if a == b:
        return a
    if a == '?':
        return b
    if b == '?':
        return a
    return f'promote({min(a, b)},{max(a, b)})'


def _numkey(k: str) -> str:
    try:
        x = float(k)
    except ValueError:
        return k
    return str(int(x)) if x == int(x) else repr(x)


def _cmul(a: tuple, b: tuple, sign: int = 1) -> tuple:
    d = {_numkey(k): e for k, e in a}
    for k, e in b:
        k = _numkey(k)
        d[k] = d.get(k, 0) + sign * e
    return tuple(sorted((k, e) for k, e in d.items() if e != 0))


def join_all(items: tuple) -> Any:
    v = items[0]
    for x in items[1:]:
        v = join_val(v, x)
    return v
