"""E1 — structured control analysis.

Python has no goto, so control dependence of a statement is determined by
(1) the tests of the compound statements / conditional expressions that
enclose it, and (2) the conditions of every `return` / `break` / `continue`
that can cut off the path to it.  `raise` exits are ignored (assumption A4).

Also: a small syntax-directed abstract interpreter (typestate walker) used by
path rules (must-pass-through, bucket typestate, counter invariants).
"""
from __future__ import annotations

import ast
from dataclasses import dataclass
from typing import Any
from typing import Callable

from kfv.model import Func
from kfv.model import Program
from kfv.model import norm

FUNC_NODES = (ast.FunctionDef, ast.AsyncFunctionDef, ast.Lambda)


@dataclass(frozen=True)
class Guard:
    test: ast.expr
    polarity: bool          # the value the test must have for the node to run
    via: str                # 'if' | 'while' | 'ifexp' | 'boolop' | 'comp' | 'return' | 'break' | 'continue' | 'assert'

    def text(self) -> str:
        return ('' if self.polarity else 'not ') + '(' + norm(self.test) + ')' + ('' if self.via in ('if', 'ifexp', 'while', 'boolop', 'comp') else f' [{self.via}]')


def _always_exits(body: list[ast.stmt]) -> str | None:
    """'return'/'break'/'continue'/'raise' if every path through body leaves that way, else None."""
    if not body:
        return None
    last = body[-1]
    if isinstance(last, ast.Return):
        return 'return'
    if isinstance(last, ast.Break):
        return 'break'
    if isinstance(last, ast.Continue):
        return 'continue'
    if isinstance(last, ast.Raise):
        return 'raise'
    if isinstance(last, ast.If) and last.orelse:
        a = _always_exits(last.body)
        b = _always_exits(last.orelse)
        if a and b:
            return a if a == b else 'mixed'
    return None


def enclosing_guards(prog: Program, f: Func, node: ast.AST) -> list[Guard]:
    """Tests of enclosing compound statements and conditional expressions."""
    mod = prog.modules[f.module]
    out: list[Guard] = []
    child = node
    p = mod.parents.get(id(child))
    while p is not None and child is not f.node:
        if isinstance(p, ast.If):
            if any(child is s for s in p.body):
                out.append(Guard(p.test, True, 'if'))
            elif any(child is s for s in p.orelse):
                out.append(Guard(p.test, False, 'if'))
        elif isinstance(p, ast.While):
            if any(child is s for s in p.body):
                out.append(Guard(p.test, True, 'while'))
        elif isinstance(p, ast.IfExp):
            if child is p.body:
                out.append(Guard(p.test, True, 'ifexp'))
            elif child is p.orelse:
                out.append(Guard(p.test, False, 'ifexp'))
        elif isinstance(p, ast.BoolOp):
            idx = next((i for i, v in enumerate(p.values) if v is child), 0)
            for v in p.values[:idx]:
                out.append(Guard(v, isinstance(p.op, ast.And), 'boolop'))
        elif isinstance(p, (ast.ListComp, ast.SetComp, ast.GeneratorExp, ast.DictComp)):
            for i, g in enumerate(p.generators):
                if child is g:
                    continue
            # element / key / value depend on all ifs; a later generator on earlier ifs
            gens = p.generators
            if any(child is g for g in gens):
                k = next(i for i, g in enumerate(gens) if g is child)
                for g in gens[:k]:
                    out += [Guard(t, True, 'comp') for t in g.ifs]
            else:
                for g in gens:
                    out += [Guard(t, True, 'comp') for t in g.ifs]
        elif isinstance(p, ast.comprehension):
            if any(child is t for t in p.ifs):
                k = next(i for i, t in enumerate(p.ifs) if t is child)
                out += [Guard(t, True, 'comp') for t in p.ifs[:k]]
        elif isinstance(p, FUNC_NODES) and p is not f.node:
            break
        child = p
        if p is f.node:
            break
        p = mod.parents.get(id(p))
    return out


def _exits_in(stmt: ast.AST, kinds: tuple[type, ...]) -> list[ast.stmt]:
    out = []
    stack = [stmt]
    while stack:
        n = stack.pop()
        if isinstance(n, FUNC_NODES + (ast.ClassDef,)) and n is not stmt:
            continue
        if isinstance(n, kinds):
            out.append(n)
        # break/continue inside a nested loop belong to that loop
        for c in ast.iter_child_nodes(n):
            stack.append(c)
    return out


def _loop_local_exits(stmt: ast.AST) -> list[ast.stmt]:
    """break/continue statements in stmt that bind to the loop enclosing stmt (not to loops nested in stmt)."""
    out = []
    # when stmt is itself a loop, the break / continue statements of its body bind to stmt, not outward
    stack = list(stmt.orelse) if isinstance(stmt, (ast.For, ast.While, ast.AsyncFor)) else [stmt]
    while stack:
        n = stack.pop()
        if isinstance(n, FUNC_NODES + (ast.ClassDef,)):
            continue
        if isinstance(n, (ast.For, ast.While, ast.AsyncFor)) and n is not stmt:
            # only the orelse of a nested loop can hold exits binding outward
            stack.extend(n.orelse)
            continue
        if isinstance(n, (ast.Break, ast.Continue)):
            out.append(n)
        stack.extend(ast.iter_child_nodes(n))
    return out


def exit_guards(prog: Program, f: Func, node: ast.AST) -> list[Guard]:
    """Guards induced by return/break/continue statements that can cut off the path to node."""
    mod = prog.modules[f.module]
    out: list[Guard] = []
    child = node
    p = mod.parents.get(id(child))
    while p is not None:
        for blk_name in ('body', 'orelse', 'finalbody'):
            blk = getattr(p, blk_name, None)
            if not isinstance(blk, list):
                continue
            idx = next((i for i, s in enumerate(blk) if s is child), None)
            if idx is None:
                continue
            for prev in blk[:idx]:
                for r in _exits_in(prev, (ast.Return,)):
                    gs = enclosing_guards(prog, f, r)
                    out += [Guard(g.test, not g.polarity, 'return') for g in _upto(gs, prog, f, r, prev)]
                for r in _loop_local_exits(prev):
                    via = 'break' if isinstance(r, ast.Break) else 'continue'
                    gs = enclosing_guards(prog, f, r)
                    out += [Guard(g.test, not g.polarity, via) for g in _upto(gs, prog, f, r, prev)]
        if isinstance(p, (ast.For, ast.While, ast.AsyncFor)) and any(child is s for s in p.body):
            # later iterations depend on every break / return anywhere in the loop body
            for s in p.body:
                for r in _exits_in(s, (ast.Return,)):
                    gs = enclosing_guards(prog, f, r)
                    out += [Guard(g.test, not g.polarity, 'return') for g in _upto(gs, prog, f, r, s)]
                for r in _loop_local_exits(s):
                    if isinstance(r, ast.Break):
                        gs = enclosing_guards(prog, f, r)
                        out += [Guard(g.test, not g.polarity, 'break') for g in _upto(gs, prog, f, r, s)]
        if p is f.node:
            break
        child = p
        p = mod.parents.get(id(p))
    # dedupe
    seen = set()
    res = []
    for g in out:
        k = (id(g.test), g.polarity, g.via)
        if k not in seen:
            seen.add(k)
            res.append(g)
    return res


def _upto(gs: list[Guard], prog: Program, f: Func, inner: ast.AST, outer: ast.AST) -> list[Guard]:
    """Keep only guards whose test lies inside `outer` (guards above outer are shared with the node)."""
    mod = prog.modules[f.module]
    keep = []
    for g in gs:
        n: ast.AST | None = g.test
        inside = False
        while n is not None:
            if n is outer:
                inside = True
                break
            n = mod.parents.get(id(n))
        if inside:
            keep.append(g)
    return keep


def guards(prog: Program, f: Func, node: ast.AST) -> list[Guard]:
    """All control-dependence guards of node inside f (raise exits ignored)."""
    return enclosing_guards(prog, f, node) + exit_guards(prog, f, node)


def enclosing_loops(prog: Program, f: Func, node: ast.AST) -> list[ast.AST]:
    mod = prog.modules[f.module]
    out = []
    child = node
    p = mod.parents.get(id(child))
    while p is not None and child is not f.node:
        if isinstance(p, (ast.For, ast.AsyncFor, ast.While)) and any(child is s for s in p.body + p.orelse):
            if any(child is s for s in p.body):
                out.append(p)
        elif isinstance(p, (ast.ListComp, ast.SetComp, ast.GeneratorExp, ast.DictComp)):
            out.append(p)
        child = p
        p = mod.parents.get(id(p))
    return out


# ---------------------------------------------------------------------------
# typestate walker
# ---------------------------------------------------------------------------

@dataclass
class Exits:
    fall: Any           # state at normal fall-through (None = unreachable)
    returns: list       # [(state, Return node)]
    breaks: list
    continues: list


class Walker:
    """Syntax-directed abstract interpreter over one function body.

    cb.expr(state, expr_node, stmt) -> state      effects of evaluating an expression (incl. nested calls)
    cb.stmt(state, stmt) -> state                 effects of a simple statement (after its expressions)
    cb.assume(state, test, polarity) -> state | None   refine on a branch (None = infeasible)
    cb.join(a, b) -> state
    cb.loop_enter(state, loop_stmt) -> state      e.g. rebind of the loop variable
    """

    def __init__(self, cb: Any, max_iter: int = 8) -> None:
        self.cb = cb
        self.max_iter = max_iter

    def _join(self, a: Any, b: Any) -> Any:
        if a is None:
            return b
        if b is None:
            return a
        return self.cb.join(a, b)

    def _joins(self, xs: list) -> Any:
        s = None
        for x in xs:
            s = self._join(s, x)
        return s

    def block(self, body: list[ast.stmt], state: Any) -> Exits:
        rets: list = []
        brks: list = []
        conts: list = []
        for st in body:
            if state is None:
                break
            e = self.stmt(st, state)
            rets += e.returns
            brks += e.breaks
            conts += e.continues
            state = e.fall
        return Exits(state, rets, brks, conts)

    def stmt(self, st: ast.stmt, state: Any) -> Exits:
        cb = self.cb
        if isinstance(st, ast.If):
            s = cb.expr(state, st.test, st)
            st_t = cb.assume(s, st.test, True)
            st_f = cb.assume(s, st.test, False)
            e1 = self.block(st.body, st_t) if st_t is not None else Exits(None, [], [], [])
            e2 = self.block(st.orelse, st_f) if st_f is not None else Exits(None, [], [], [])
            return Exits(self._join(e1.fall, e2.fall), e1.returns + e2.returns, e1.breaks + e2.breaks, e1.continues + e2.continues)
        if isinstance(st, (ast.For, ast.AsyncFor, ast.While)):
            if isinstance(st, ast.While):
                head = state
            else:
                head = cb.expr(state, st.iter, st)
            rets: list = []
            exit_states: list = []
            cur = head
            for _ in range(self.max_iter):
                if isinstance(st, ast.While):
                    s0 = cb.expr(cur, st.test, st)
                    s_in = cb.assume(s0, st.test, True)
                    s_out = cb.assume(s0, st.test, False)
                else:
                    s_in = cb.loop_enter(cur, st)
                    s_out = cur
                if s_in is None:
                    exit_states.append(s_out)
                    break
                e = self.block(st.body, s_in)
                rets = e.returns  # states from the last (widest) iteration dominate; keep all
                back = self._joins([e.fall] + [s for s, _ in e.continues])
                nxt = self._join(cur, back)
                brk = [s for s, _ in e.breaks]
                exit_states = [s_out] + brk
                if nxt == cur:
                    break
                cur = nxt
            else:
                pass
            # state after zero or more iterations
            after = self._joins([x for x in exit_states if x is not None] + ([cur] if not isinstance(st, ast.While) else []))
            if after is not None and hasattr(cb, 'loop_exit'):
                after = cb.loop_exit(after, st)
            if st.orelse and after is not None:
                e3 = self.block(st.orelse, after)
                return Exits(e3.fall, rets + e3.returns, e3.breaks, e3.continues)
            return Exits(after, rets, [], [])
        if isinstance(st, (ast.With, ast.AsyncWith)):
            s = state
            for it in st.items:
                s = cb.expr(s, it.context_expr, st)
            return self.block(st.body, s)
        if isinstance(st, ast.Try):
            e = self.block(st.body, state)
            hs = [self.block(h.body, self._join(state, e.fall)) for h in st.handlers]
            fall = self._joins([e.fall] + [h.fall for h in hs])
            rets = e.returns + [r for h in hs for r in h.returns]
            if st.orelse and e.fall is not None:
                eo = self.block(st.orelse, e.fall)
                fall = self._joins([eo.fall] + [h.fall for h in hs])
                rets += eo.returns
            if st.finalbody and fall is not None:
                ef = self.block(st.finalbody, fall)
                fall = ef.fall
                rets += ef.returns
            return Exits(fall, rets, e.breaks, e.continues)
        if isinstance(st, ast.Return):
            s = cb.expr(state, st.value, st) if st.value is not None else state
            s = cb.stmt(s, st)
            return Exits(None, [(s, st)], [], [])
        if isinstance(st, ast.Raise):
            return Exits(None, [], [], [])
        if isinstance(st, ast.Break):
            return Exits(None, [], [(state, st)], [])
        if isinstance(st, ast.Continue):
            return Exits(None, [], [], [(state, st)])
        if isinstance(st, ast.Assert):
            s = cb.expr(state, st.test, st)
            s2 = cb.assume(s, st.test, True)
            return Exits(s2, [], [], [])
        if isinstance(st, (ast.FunctionDef, ast.AsyncFunctionDef, ast.ClassDef, ast.Pass, ast.Import, ast.ImportFrom, ast.Global, ast.Nonlocal)):
            return Exits(cb.stmt(state, st), [], [], [])
        # simple statements: evaluate contained expressions, then the statement effect
        s = state
        for fld in ('value', 'test'):
            v = getattr(st, fld, None)
            if isinstance(v, ast.AST):
                s = cb.expr(s, v, st)
        if isinstance(st, (ast.Assign, ast.AugAssign, ast.AnnAssign, ast.Delete)):
            tgts = st.targets if isinstance(st, (ast.Assign, ast.Delete)) else [st.target]
            for t in tgts:
                s = cb.expr(s, t, st)
        s = cb.stmt(s, st)
        return Exits(s, [], [], [])

    def run(self, f: Func, state: Any) -> tuple[Any, list]:
        """Returns (join of all normal exit states, [(state, exit node or None)])."""
        e = self.block(f.body, state)
        exits = list(e.returns)
        if e.fall is not None:
            exits.append((e.fall, None))
        return self._joins([s for s, _ in exits]), exits


class DefaultCB:
    def expr(self, state: Any, e: ast.AST, st: ast.stmt) -> Any:
        return state

    def stmt(self, state: Any, st: ast.stmt) -> Any:
        return state

    def assume(self, state: Any, test: ast.expr, pol: bool) -> Any:
        return state

    def join(self, a: Any, b: Any) -> Any:
        return a if a == b else self.top(a, b)

    def top(self, a: Any, b: Any) -> Any:
        raise NotImplementedError

    def loop_enter(self, state: Any, loop: ast.stmt) -> Any:
        return state


def calls_in_order(e: ast.AST) -> list[ast.Call]:
    """Calls inside an expression in (approximate) evaluation order: arguments before the call itself."""
    out: list[ast.Call] = []

    def rec(n: ast.AST) -> None:
        if isinstance(n, FUNC_NODES):
            return
        for c in ast.iter_child_nodes(n):
            rec(c)
        if isinstance(n, ast.Call):
            out.append(n)
    rec(e)
    return out
