"""Adapter: run mypy (as a library, from the repository's own environment) on
<root>/kfac and export, per module, a map

    (line, col, end_line, end_col) -> [(node kind, type string, class fullnames)]

that the rest of the machinery joins to stdlib ``ast`` nodes by position.
mypy is used only as a *type oracle* for receivers and element types; nothing
is decided by mypy diagnostics.
"""
from __future__ import annotations

import os
import sys
from typing import Any

SKIP_ATTRS = {
    'node', 'info', 'type', 'fullname', 'name', 'names', 'line', 'column',
    'end_line', 'end_column', 'kind', 'def_node', 'analyzed', 'unanalyzed_type',
    'type_annotation', 'original_def', 'impl', 'var', 'variables', 'defn',
    'mro', 'type_guard', 'abstract_status', 'deco_line', 'ref_info',
}


def _class_names(t: Any, out: set[str], depth: int = 0) -> None:
    """Collect fullnames of the instance classes a mypy type may denote."""
    from mypy import types as T
    if depth > 4 or t is None:
        return
    try:
        t = T.get_proper_type(t)
    except Exception:  # noqa: BLE001
        return
    if isinstance(t, T.Instance):
        out.add(t.type.fullname)
        if t.last_known_value is not None:
            pass
    elif isinstance(t, T.UnionType):
        for it in t.items:
            _class_names(it, out, depth + 1)
    elif isinstance(t, T.TypeType):
        inner: set[str] = set()
        _class_names(t.item, inner, depth + 1)
        out.update('type[' + i + ']' for i in inner)
    elif isinstance(t, T.CallableType):
        if t.is_type_obj():
            try:
                out.add('type[' + t.type_object().fullname + ']')
            except Exception:  # noqa: BLE001
                pass
    elif isinstance(t, T.TupleType):
        out.add('builtins.tuple')
    elif isinstance(t, T.LiteralType):
        _class_names(t.fallback, out, depth + 1)
    elif isinstance(t, T.TypeVarType):
        _class_names(t.upper_bound, out, depth + 1)


def run_mypy(root: str) -> dict[str, dict[tuple[int, int, int, int], list[tuple[str, str, tuple[str, ...]]]]]:
    from mypy import build
    from mypy import nodes as N
    from mypy.find_sources import create_source_list
    from mypy.options import Options

    cwd = os.getcwd()
    os.chdir(root)
    try:
        o = Options()
        o.preserve_asts = True
        o.export_types = True
        o.incremental = False
        o.cache_dir = os.devnull
        o.ignore_missing_imports = True
        o.check_untyped_defs = True
        o.follow_imports = 'silent'
        for pat in ('torch', 'torch.*', 'deepspeed', 'deepspeed.*', 'apex_C'):
            o.per_module_options[pat] = {'follow_imports': 'skip'}
        src = create_source_list(['kfac'], o)
        res = build.build(src, o)
    finally:
        os.chdir(cwd)
    types = res.types
    out: dict[str, dict] = {}
    for modname, f in res.files.items():
        if not (modname == 'kfac' or modname.startswith('kfac.')):
            continue
        table: dict = {}
        seen: set[int] = set()
        stack: list[Any] = list(f.defs)
        while stack:
            n = stack.pop()
            if id(n) in seen:
                continue
            seen.add(id(n))
            if isinstance(n, N.Expression):
                t = types.get(n)
                if t is not None and n.end_line is not None:
                    names: set[str] = set()
                    _class_names(t, names)
                    key = (n.line, n.column, n.end_line, n.end_column)
                    table.setdefault(key, []).append(
                        (type(n).__name__, str(t), tuple(sorted(names))),
                    )
            for a in dir(type(n)):
                if a.startswith('_') or a in SKIP_ATTRS:
                    continue
                try:
                    v = getattr(n, a)
                except Exception:  # noqa: BLE001
                    continue
                if isinstance(v, N.Node):
                    stack.append(v)
                elif isinstance(v, (list, tuple)):
                    for x in v:
                        if isinstance(x, N.Node):
                            stack.append(x)
                        elif isinstance(x, (list, tuple)):
                            stack.extend(y for y in x if isinstance(y, N.Node))
        out[modname] = table
    return out


if __name__ == '__main__':
    import json
    import time
    t0 = time.time()
    r = run_mypy(sys.argv[1] if len(sys.argv) > 1 else '/repo')
    print({k: len(v) for k, v in r.items()}, time.time() - t0)
    sys.stdout.flush()
    os._exit(0)
