"""Partial evaluation of straight-line dispatch code for one *case* of a discrete input.

Used where a rule has to know what a piece of code does for each value of a
small domain (a class name, an enum member) however the dispatch is written:
an if/elif chain, a dict table with `.get`, an assigned tag variable, guard
clauses with `continue`.  Values are Python constants or UNKNOWN; tests that
evaluate to UNKNOWN are followed on both branches (the caller supplies which
unknown tests are assumed true).
"""
from __future__ import annotations

import ast
from typing import Any
from typing import Callable

from kfv.model import norm


class _Unknown:
    def __repr__(self) -> str:
        return 'UNKNOWN'


UNKNOWN = _Unknown()


def module_constants(tree: ast.Module) -> dict[str, ast.expr]:
    """Module-level names bound exactly once (candidates for constant tables)."""
    count: dict[str, int] = {}
    val: dict[str, ast.expr] = {}
    for st in tree.body:
        tg = None
        if isinstance(st, ast.Assign) and len(st.targets) == 1:
            tg, v = st.targets[0], st.value
        elif isinstance(st, ast.AnnAssign) and st.value is not None:
            tg, v = st.target, st.value
        if isinstance(tg, ast.Name):
            count[tg.id] = count.get(tg.id, 0) + 1
            val[tg.id] = v
    return {k: v for k, v in val.items() if count[k] == 1}


def ev(e: ast.AST, env: dict[str, Any], consts: dict[str, ast.expr] | None = None, depth: int = 0) -> Any:
    consts = consts or {}
    if depth > 12:
        return UNKNOWN
    if isinstance(e, ast.Constant):
        return e.value
    if isinstance(e, ast.Name):
        if e.id in env:
            return env[e.id]
        if e.id in consts:
            return ev(consts[e.id], {}, consts, depth + 1)
        return UNKNOWN
    if isinstance(e, (ast.Tuple, ast.List)):
        xs = [ev(x, env, consts, depth + 1) for x in e.elts]
        return UNKNOWN if any(x is UNKNOWN for x in xs) else (tuple(xs) if isinstance(e, ast.Tuple) else xs)
    if isinstance(e, ast.Dict):
        ks = [ev(k, env, consts, depth + 1) if k is not None else UNKNOWN for k in e.keys]
        vs = [ev(v, env, consts, depth + 1) for v in e.values]
        if any(k is UNKNOWN for k in ks):
            return UNKNOWN
        try:
            return {k: v for k, v in zip(ks, vs)}
        except TypeError:
            return UNKNOWN
    if isinstance(e, ast.UnaryOp) and isinstance(e.op, ast.Not):
        v = ev(e.operand, env, consts, depth + 1)
        return UNKNOWN if v is UNKNOWN else (not v)
    if isinstance(e, ast.BoolOp):
        vs = [ev(v, env, consts, depth + 1) for v in e.values]
        if isinstance(e.op, ast.And):
            if any(v is not UNKNOWN and not v for v in vs):
                return False
            return UNKNOWN if any(v is UNKNOWN for v in vs) else vs[-1]
        if any(v is not UNKNOWN and v for v in vs):
            return True
        return UNKNOWN if any(v is UNKNOWN for v in vs) else vs[-1]
    if isinstance(e, ast.IfExp):
        t = ev(e.test, env, consts, depth + 1)
        if t is UNKNOWN:
            a, b = ev(e.body, env, consts, depth + 1), ev(e.orelse, env, consts, depth + 1)
            return a if (a is not UNKNOWN and a == b) else UNKNOWN
        return ev(e.body if t else e.orelse, env, consts, depth + 1)
    if isinstance(e, ast.Compare) and len(e.ops) == 1:
        a, b = ev(e.left, env, consts, depth + 1), ev(e.comparators[0], env, consts, depth + 1)
        if a is UNKNOWN or b is UNKNOWN:
            return UNKNOWN
        op = e.ops[0]
        try:
            if isinstance(op, ast.Eq):
                return a == b
            if isinstance(op, ast.NotEq):
                return a != b
            if isinstance(op, ast.Is):
                return a is b or (a is None and b is None)
            if isinstance(op, ast.IsNot):
                return not (a is b or (a is None and b is None))
            if isinstance(op, ast.In):
                return a in b
            if isinstance(op, ast.NotIn):
                return a not in b
        except TypeError:
            return UNKNOWN
        return UNKNOWN
    if isinstance(e, ast.Subscript):
        a, k = ev(e.value, env, consts, depth + 1), ev(e.slice, env, consts, depth + 1)
        if a is UNKNOWN or k is UNKNOWN:
            return UNKNOWN
        try:
            return a[k]
        except Exception:  # noqa: BLE001
            return UNKNOWN
    if isinstance(e, ast.Call) and isinstance(e.func, ast.Attribute) and not e.keywords:
        recv = ev(e.func.value, env, consts, depth + 1)
        args = [ev(a, env, consts, depth + 1) for a in e.args]
        if recv is UNKNOWN or any(a is UNKNOWN for a in args):
            return UNKNOWN
        if isinstance(recv, str) and e.func.attr in ('lower', 'upper', 'strip', 'startswith', 'endswith'):
            try:
                return getattr(recv, e.func.attr)(*args)
            except Exception:  # noqa: BLE001
                return UNKNOWN
        if isinstance(recv, dict) and e.func.attr == 'get' and 1 <= len(args) <= 2:
            try:
                return recv.get(*args)
            except TypeError:
                return UNKNOWN
        return UNKNOWN
    return UNKNOWN


class Outcome:
    def __init__(self) -> None:
        self.env: dict[str, Any] = {}
        self.exit: str = 'fall'          # fall | continue | break | return | raise
        self.calls: list[tuple[ast.Call, dict[str, Any]]] = []   # watched calls with the env at the call
        self.marks: list[int] = []       # ids of marked statements executed


def run_block(stmts: list[ast.stmt], env: dict[str, Any], consts: dict[str, ast.expr], watch: Callable[[ast.Call], bool],
              assume_unknown: Callable[[ast.expr], bool | None] = lambda t: None, marks: set[int] | None = None) -> list[Outcome]:
    """All outcomes of executing `stmts` from `env` (unknown tests fork unless `assume_unknown` decides them)."""
    states: list[Outcome] = [Outcome()]
    states[0].env = dict(env)
    done: list[Outcome] = []

    def note_calls(o: Outcome, node: ast.AST) -> None:
        for c in ast.walk(node):
            if isinstance(c, ast.Call) and watch(c):
                o.calls.append((c, dict(o.env)))

    for st in stmts:
        nxt: list[Outcome] = []
        for o in states:
            if marks and id(st) in marks:
                o.marks.append(id(st))
            if isinstance(st, ast.If):
                t = ev(st.test, o.env, consts)
                if t is UNKNOWN:
                    d = assume_unknown(st.test)
                    branches = [True, False] if d is None else [d]
                else:
                    branches = [bool(t)]
                for br in branches:
                    sub = run_block(st.body if br else st.orelse, o.env, consts, watch, assume_unknown, marks)
                    for s_ in sub:
                        s_.calls = o.calls + s_.calls
                        s_.marks = o.marks + s_.marks
                        (nxt if s_.exit == 'fall' else done).append(s_)
                continue
            if isinstance(st, ast.Assign) and len(st.targets) == 1 and isinstance(st.targets[0], ast.Name):
                note_calls(o, st.value)
                o.env[st.targets[0].id] = ev(st.value, o.env, consts)
                nxt.append(o)
                continue
            if isinstance(st, (ast.AnnAssign,)) and isinstance(st.target, ast.Name):
                if st.value is not None:
                    note_calls(o, st.value)
                    o.env[st.target.id] = ev(st.value, o.env, consts)
                nxt.append(o)
                continue
            if isinstance(st, (ast.Continue, ast.Break, ast.Return, ast.Raise)):
                note_calls(o, st)
                o.exit = {ast.Continue: 'continue', ast.Break: 'break', ast.Return: 'return', ast.Raise: 'raise'}[type(st)]
                done.append(o)
                continue
            # any other statement: record watched calls, forget assigned names
            note_calls(o, st)
            for n in ast.walk(st):
                if isinstance(n, ast.Name) and isinstance(n.ctx, ast.Store):
                    o.env[n.id] = UNKNOWN
            nxt.append(o)
        states = nxt
    return done + states


def text(v: Any) -> str:
    return 'UNKNOWN' if v is UNKNOWN else repr(v)


__all__ = ['UNKNOWN', 'ev', 'run_block', 'module_constants', 'Outcome', 'text', 'norm']
