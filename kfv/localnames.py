"""N0 — restore the inventory names of function locals.

Many rules name the locals of the functions they analyse (`layers`, `partition`, `module_name`, `worker_loads`
...).  Renaming a local is behaviour-preserving, so the rules must not depend on the spelling.  `known_locals.json`
records, for every function of the inventory, its locals in order of first binding together with a spelling-free
signature of that binding (kind + defining expression with every local replaced by a placeholder).  When a tree is
loaded, the locals of each inventory function are aligned with the recorded sequence by signature (difflib) and a
local whose binding matches a recorded one but is spelled differently is renamed back — only when the new spelling is
not itself a recorded name of that function and the recorded name is not otherwise in use there (so exchanging two
existing variables, a real change, is never undone).
"""
from __future__ import annotations

import ast
import difflib
import json
import os

KNOWN = os.path.join(os.path.dirname(os.path.abspath(__file__)), 'known_locals.json')
PH = '§'


def _own(fn: ast.AST):  # noqa: ANN202
    """Nodes of fn in source order, nested function / class bodies excluded (lambdas, comprehensions included)."""
    def rec(n: ast.AST):  # noqa: ANN202
        yield n
        if isinstance(n, (ast.FunctionDef, ast.AsyncFunctionDef, ast.ClassDef)) and n is not fn:
            return
        for c in ast.iter_child_nodes(n):
            yield from rec(c)
    for st in fn.body:  # type: ignore[attr-defined]
        yield from rec(st)


def _params(fn: ast.AST) -> set[str]:
    a = fn.args  # type: ignore[attr-defined]
    out = {x.arg for x in a.posonlyargs + a.args + a.kwonlyargs}
    if a.vararg:
        out.add(a.vararg.arg)
    if a.kwarg:
        out.add(a.kwarg.arg)
    return out


class _Blank(ast.NodeTransformer):
    def __init__(self, names: set[str]) -> None:
        self.names = names

    def visit_Name(self, n: ast.Name) -> ast.AST:  # noqa: N802
        return ast.copy_location(ast.Name(id=PH, ctx=n.ctx), n) if n.id in self.names else n


def _txt(e: ast.AST | None, names: set[str]) -> str:
    if e is None:
        return ''
    import copy
    try:
        return ast.unparse(_Blank(names).visit(copy.deepcopy(e)))[:300]
    except Exception:  # noqa: BLE001
        return ast.dump(e)[:300]


def _targets(t: ast.AST, prefix: str = ''):  # noqa: ANN202
    if isinstance(t, ast.Name):
        yield t.id, prefix
    elif isinstance(t, (ast.Tuple, ast.List)):
        for i, x in enumerate(t.elts):
            yield from _targets(x, f'{prefix}[{i}/{len(t.elts)}]')
    elif isinstance(t, ast.Starred):
        yield from _targets(t.value, prefix + '*')


_ALLSIGS: dict[int, dict[str, set[str]]] = {}


def bindings(fn: ast.AST) -> list[tuple[str, str]]:
    """(local name, signature of its first binding), in order of first binding."""
    params = _params(fn)
    declared: set[str] = set()
    raw: list[tuple[str, str, ast.AST | None]] = []
    for n in _own(fn):
        if isinstance(n, (ast.Global, ast.Nonlocal)):
            declared |= set(n.names)
        elif isinstance(n, ast.Assign):
            for t in n.targets:
                for nm, pos in _targets(t):
                    raw.append((nm, 'assign' + pos, n.value))
        elif isinstance(n, ast.AnnAssign) and n.value is not None:
            for nm, pos in _targets(n.target):
                raw.append((nm, 'assign' + pos, n.value))
        elif isinstance(n, ast.AugAssign):
            for nm, pos in _targets(n.target):
                raw.append((nm, 'aug' + pos, n.value))
        elif isinstance(n, (ast.For, ast.AsyncFor)):
            for nm, pos in _targets(n.target):
                raw.append((nm, 'for' + pos, n.iter))
        elif isinstance(n, ast.comprehension):
            for nm, pos in _targets(n.target):
                raw.append((nm, 'comp' + pos, n.iter))
        elif isinstance(n, ast.withitem) and n.optional_vars is not None:
            for nm, pos in _targets(n.optional_vars):
                raw.append((nm, 'with' + pos, n.context_expr))
        elif isinstance(n, ast.NamedExpr):
            raw.append((n.target.id, 'walrus', n.value))
    names = {nm for nm, _k, _v in raw} - params - declared
    out: list[tuple[str, str]] = []
    seen: set[str] = set()
    allsigs: dict[str, set[str]] = {}
    for nm, kind, val in raw:
        if nm in names:
            allsigs.setdefault(nm, set()).add(f'{kind}:{_txt(val, names)}')
    for nm, kind, val in raw:
        if nm in names and nm not in seen:
            seen.add(nm)
            out.append((nm, f'{kind}:{_txt(val, names)}'))
    _ALLSIGS[id(fn)] = allsigs
    return out


def _functions(tree: ast.Module, modname: str):  # noqa: ANN202
    def rec(body: list, prefix: str):  # noqa: ANN202
        for st in body:
            if isinstance(st, (ast.FunctionDef, ast.AsyncFunctionDef)):
                q = f'{prefix}.{st.name}'
                yield q, st
                yield from rec(st.body, q + '.<locals>')
            elif isinstance(st, ast.ClassDef):
                yield from rec(st.body, f'{prefix}.{st.name}')
            elif isinstance(st, (ast.If, ast.Try, ast.With, ast.For, ast.While)):
                for fld in ('body', 'orelse', 'finalbody'):
                    yield from rec(getattr(st, fld, []) or [], prefix)
    yield from rec(tree.body, modname)


def _callfree(e: ast.AST) -> bool:
    return not any(isinstance(n, (ast.Call, ast.Await, ast.Yield, ast.YieldFrom, ast.NamedExpr)) for n in ast.walk(e))


def _neg(t: ast.expr) -> ast.expr:
    if isinstance(t, ast.UnaryOp) and isinstance(t.op, ast.Not):
        return t.operand
    if isinstance(t, ast.Compare) and len(t.ops) == 1:
        flip = {ast.Eq: ast.NotEq, ast.NotEq: ast.Eq, ast.Is: ast.IsNot, ast.IsNot: ast.Is, ast.In: ast.NotIn, ast.NotIn: ast.In}
        if type(t.ops[0]) in flip:
            return ast.copy_location(ast.Compare(left=t.left, ops=[flip[type(t.ops[0])]()], comparators=t.comparators), t)
    return ast.copy_location(ast.UnaryOp(op=ast.Not(), operand=t), t)


def _u(e: ast.AST) -> str:
    try:
        return ast.unparse(e)
    except Exception:  # noqa: BLE001
        return ast.dump(e)


def tests_and_compares(fn: ast.AST) -> tuple[set[str], set[str]]:
    tests: set[str] = set()
    cmps: set[str] = set()
    for n in _own(fn):
        if isinstance(n, (ast.If, ast.IfExp, ast.While)):
            tests.add(_u(n.test))
        if isinstance(n, ast.Compare) and len(n.ops) == 1 and isinstance(n.ops[0], (ast.Eq, ast.NotEq)):
            cmps.add(_u(n))
    return tests, cmps


shapes: dict[str, dict[str, list[str]]] = {}
_SIGS: dict[str, list[str]] = {}


def signatures(trees: list[ast.Module]) -> dict[str, list[str]]:
    """name -> positional-or-keyword parameters (without self / cls) of package functions with a unique name."""
    seen: dict[str, list[list[str]]] = {}
    for tree in trees:
        for n in ast.walk(tree):
            if isinstance(n, (ast.FunctionDef, ast.AsyncFunctionDef)):
                if n.args.vararg or n.args.posonlyargs:
                    seen.setdefault(n.name, []).append(['*'])
                    continue
                ps = [a.arg for a in n.args.args]
                if ps[:1] in (['self'], ['cls']):
                    ps = ps[1:]
                seen.setdefault(n.name, []).append(ps + ['/'] + [a.arg for a in n.args.kwonlyargs])
    return {k: v[0] for k, v in seen.items() if len(v) == 1 and v[0] != ['*'] and not k.startswith('__')}


def set_signatures(trees: list[ast.Module]) -> None:
    _SIGS.clear()
    _SIGS.update(signatures(trees))


def _callee(n: ast.Call) -> str | None:
    if isinstance(n.func, ast.Attribute):
        if isinstance(n.func.value, ast.Call) and isinstance(n.func.value.func, ast.Name) and n.func.value.func.id == 'super':
            return None
        return n.func.attr
    return n.func.id if isinstance(n.func, ast.Name) else None


def call_styles(fn: ast.AST, sigs: dict[str, list[str]]) -> dict[str, list]:
    """callee name -> [number of positional arguments, keyword names] when every call of it in fn uses that style."""
    out: dict[str, list] = {}
    bad: set[str] = set()
    for n in _own(fn):
        if isinstance(n, ast.Call):
            nm = _callee(n)
            if nm in sigs and not any(isinstance(a, ast.Starred) for a in n.args) and not any(k.arg is None for k in n.keywords):
                st = [len(n.args), [k.arg for k in n.keywords]]
                if nm in out and out[nm] != st:
                    bad.add(nm)
                out[nm] = st
    return {k: v for k, v in out.items() if k not in bad}


def body_digest(fn: ast.AST) -> str:
    """Spelling-free digest of a function: parameters and body with locals, parameters and its own name blanked."""
    import copy
    import hashlib
    names = {nm for nm, _s in bindings(fn)} | _params(fn) | {fn.name}  # type: ignore[attr-defined]
    body = [_Blank(names).visit(copy.deepcopy(st)) for st in fn.body]  # type: ignore[attr-defined]
    if body and isinstance(body[0], ast.Expr) and isinstance(body[0].value, ast.Constant) and isinstance(body[0].value.value, str):
        body = body[1:]
    txt = f'{len(_params(fn))}|' + '|'.join(ast.dump(st) for st in body).replace(f"attr='{fn.name}'", "attr='§'")  # type: ignore[attr-defined]
    return hashlib.sha1(txt.encode()).hexdigest()[:16]


def restore_private_names(trees: dict[str, ast.Module], inventory: set[str], log: list[str]) -> None:
    # renamed functions may call each other: repeat until nothing more is recognised
    for _ in range(4):
        n0 = len(log)
        _restore_private_once(trees, inventory, log)
        if len(log) == n0:
            break


def _restore_private_once(trees: dict[str, ast.Module], inventory: set[str], log: list[str]) -> None:
    """A private function (leading underscore) of the inventory that is missing while a new function with the same
    digest sits in the same scope was renamed: give it (and every reference by that name) the inventory name back."""
    table()
    priv = _SHAPES.get('private', {})
    if not priv:
        return
    present: dict[str, ast.AST] = {}
    for mod, tree in trees.items():
        for q, node in _functions(tree, mod):
            present[q] = node
    # inventory names are relative to the package ('layers.base.X.f'); ours carry the 'kfac.' prefix
    def short(q: str) -> str:  # noqa: E306
        return q[5:] if q.startswith('kfac.') else q
    renames: dict[str, str] = {}
    for q, dg in priv.items():
        if q in present:
            continue
        scope = q.rsplit('.', 1)[0]
        cands = [(q2, n2) for q2, n2 in present.items() if q2.rsplit('.', 1)[0] == scope and q2 not in inventory and short(q2) not in inventory and q2 not in priv
                 and body_digest(n2) == dg]
        if len(cands) == 1:
            q2, n2 = cands[0]
            new, old = n2.name, q.rsplit('.', 1)[1]  # type: ignore[attr-defined]
            if new not in renames and old not in {x.rsplit('.', 1)[1] for x in present}:
                renames[new] = old
                log.append(f'{q2}: private function renamed back to its inventory name {old}')
    if not renames:
        return
    for tree in trees.values():
        for n in ast.walk(tree):
            if isinstance(n, (ast.FunctionDef, ast.AsyncFunctionDef)) and n.name in renames:
                n.name = renames[n.name]
            elif isinstance(n, ast.Attribute) and n.attr in renames:
                n.attr = renames[n.attr]
            elif isinstance(n, ast.Name) and n.id in renames:
                n.id = renames[n.id]
            elif isinstance(n, ast.alias) and n.name in renames:
                n.name = renames[n.name]


def build(root: str) -> dict[str, list[list[str]]]:
    out: dict[str, list[list[str]]] = {}
    shapes.clear()
    pkg = os.path.join(root, 'kfac')
    import glob
    sigs = signatures([ast.parse(open(f, encoding='utf-8').read()) for f in sorted(glob.glob(os.path.join(pkg, '**', '*.py'), recursive=True))])
    for dirpath, dirnames, files in os.walk(pkg):
        dirnames[:] = sorted(d for d in dirnames if d != '__pycache__')
        for fn in sorted(files):
            if not fn.endswith('.py'):
                continue
            path = os.path.join(dirpath, fn)
            rel = os.path.relpath(path, root)[:-3].replace(os.sep, '.')
            if rel.endswith('.__init__'):
                rel = rel[:-len('.__init__')]
            tree = ast.parse(open(path, encoding='utf-8').read())
            for q, node in _functions(tree, rel):
                b = bindings(node)
                if b:
                    out[q] = [[n, s_, sorted(_ALLSIGS[id(node)].get(n, []))] for n, s_ in b]
                if node.name.startswith('_') and not node.name.startswith('__') and '<locals>' not in q:
                    shapes.setdefault('private', {})[q] = body_digest(node)
                augs = sorted({f'{_u(n.target)} {type(n.op).__name__}' for n in _own(node) if isinstance(n, ast.AugAssign)})
                if augs:
                    shapes.setdefault('augs', {})[q] = augs
                comps = sorted({n.targets[0].id for n in _own(node) if isinstance(n, ast.Assign) and len(n.targets) == 1 and isinstance(n.targets[0], ast.Name)
                                and isinstance(n.value, (ast.ListComp, ast.DictComp))})
                if comps:
                    shapes.setdefault('comps', {})[q] = comps
                cs = call_styles(node, sigs)
                if cs:
                    shapes.setdefault('calls', {})[q] = cs
                t, c = tests_and_compares(node)
                if t:
                    shapes.setdefault('tests', {})[q] = sorted(t)
                if c:
                    shapes.setdefault('compares', {})[q] = sorted(c)
    # callee -> style when every call site of the inventory agrees (used for code outside the inventory)
    glob_: dict[str, list] = {}
    bad: set[str] = set()
    for cs in shapes.get('calls', {}).values():
        for nm, st in cs.items():
            if nm in glob_ and glob_[nm] != st:
                bad.add(nm)
            glob_[nm] = st
    shapes['calls_global'] = {k: v for k, v in glob_.items() if k not in bad}
    return out


_TABLE: dict | None = None
_SHAPES: dict = {}


def table() -> dict[str, list[list[str]]]:
    global _TABLE, _SHAPES
    if _TABLE is None:
        try:
            with open(KNOWN) as fh:
                d = json.load(fh)
                _TABLE = d['functions']
                _SHAPES = {'tests': d.get('tests', {}), 'compares': d.get('compares', {}), 'private': d.get('private', {}), 'calls': d.get('calls', {}), 'augs': d.get('augs', {}), 'comps': d.get('comps', {}), 'calls_global': d.get('calls_global', {})}
        except FileNotFoundError:
            _TABLE = {}
    return _TABLE


def _kind(sig: str) -> str:
    k = sig.split(':', 1)[0].split('[')[0]
    return 'iter' if k in ('for', 'comp') else k        # a loop variable and a comprehension variable are the same kind of binding


def _sim(a: str, b: str) -> float:
    if a == b:
        return 1.0
    ka, kb = _kind(a), _kind(b)
    if ka != kb:
        return 0.0
    # Only equal signatures pair up.  A similarity threshold (difflib ratio >= 0.7) was used here for a while; it is a guess,
    # it mis-assigned names twice (DESIGN.md section 7, round 4; section 8), and the whole corpus (2 884 runs) is decided
    # identically without it.  KFV_FUZZY=1 re-enables it for experiments.
    if os.environ.get('KFV_FUZZY') != '1':
        return 0.0
    r = difflib.SequenceMatcher(None, a, b, autojunk=False).ratio()
    return r if r >= 0.7 else 0.0


def _align(known: list[str], cur: list[str]) -> list[tuple[int, int]]:
    """Order-preserving pairing of binding signatures maximising total similarity (gaps allowed)."""
    n, m = len(known), len(cur)
    sc = [[0.0] * (m + 1) for _ in range(n + 1)]
    for i in range(n - 1, -1, -1):
        for j in range(m - 1, -1, -1):
            best = max(sc[i + 1][j], sc[i][j + 1])
            w = _sim(known[i], cur[j])
            if w > 0:
                best = max(best, w + sc[i + 1][j + 1])
            sc[i][j] = best
    out = []
    i = j = 0
    while i < n and j < m:
        w = _sim(known[i], cur[j])
        if w > 0 and abs(sc[i][j] - (w + sc[i + 1][j + 1])) < 1e-9:
            out.append((i, j))
            i += 1
            j += 1
        elif sc[i + 1][j] >= sc[i][j + 1]:
            i += 1
        else:
            j += 1
    return out


class _Rename(ast.NodeTransformer):
    def __init__(self, mapping: dict[str, str]) -> None:
        self.mapping = mapping

    def visit_Name(self, n: ast.Name) -> ast.AST:  # noqa: N802
        if n.id in self.mapping:
            n.id = self.mapping[n.id]       # in place: position / provenance marks of the node are kept
        return n

    def _scope(self, fn):  # noqa: ANN001, ANN202
        # a nested scope that rebinds a name (parameter or own local) keeps its own variable
        rebinds = _params(fn)
        if not isinstance(fn, ast.Lambda):
            rebinds |= {nm for nm, _s in bindings(fn)}
            nonloc = {x for n in _own(fn) if isinstance(n, ast.Nonlocal) for x in n.names}
            rebinds -= nonloc
        sub = {k: v for k, v in self.mapping.items() if k not in rebinds}
        r = _Rename(sub)
        if isinstance(fn, ast.Lambda):
            fn.body = r.visit(fn.body)
        else:
            fn.body = [r.visit(st) for st in fn.body]
            for n in _own(fn):
                if isinstance(n, ast.Nonlocal):
                    n.names = [sub.get(x, x) for x in n.names]
            fn.decorator_list = [self.visit(d) for d in fn.decorator_list]
        fn.args.defaults = [self.visit(d) for d in fn.args.defaults]
        fn.args.kw_defaults = [self.visit(d) if d is not None else None for d in fn.args.kw_defaults]
        return fn

    def visit_FunctionDef(self, n):  # noqa: ANN001, ANN201, N802
        return self._scope(n)

    def visit_AsyncFunctionDef(self, n):  # noqa: ANN001, ANN201, N802
        return self._scope(n)

    def visit_Lambda(self, n):  # noqa: ANN001, ANN201, N802
        return self._scope(n)


def restore_function(q: str, node: ast.AST, log: list[str]) -> None:
    """All inventory-based steps for one function (used again after helper expansion changed its body)."""
    tab = table()
    _restore_names(q, node, tab, log)
    _restore_shapes(q, node, log)
    if q in tab or q in _inventory():
        _inline_new_temps(q, node, {k[0] for k in tab.get(q, [])}, log)
    n0 = len(log)
    _restore_names(q, node, tab, log)
    if len(log) > n0:
        _restore_shapes(q, node, log)


def restore(tree: ast.Module, modname: str, log: list[str]) -> None:
    tab = table()
    if not tab:
        return
    for q, node in list(_functions(tree, modname)):
        _restore_names(q, node, tab, log)
    for q, node in list(_functions(tree, modname)):
        _restore_shapes(q, node, log)
        if q in tab or q in _inventory():
            _inline_new_temps(q, node, {k[0] for k in tab.get(q, [])}, log)
    # second pass: a binding whose signature differed only by an explaining temporary, an argument style or a comparison
    # orientation equals the recorded one now
    for q, node in list(_functions(tree, modname)):
        n0 = len(log)
        _restore_names(q, node, tab, log)
        if len(log) > n0:
            _restore_shapes(q, node, log)      # shapes that are recorded with the inventory names (x op= e, argument style)


def _restore_names(q: str, node: ast.AST, tab: dict, log: list[str]) -> None:
    if True:
        known = tab.get(q)
        if not known:
            return
        cur = bindings(node)
        if [n for n, _s in cur] == [k[0] for k in known]:
            return
        known_names = {k[0] for k in known}
        cur_names = {n for n, _s in cur}
        all_names = {x.id for x in ast.walk(node) if isinstance(x, ast.Name)} | _params(node)
        mapping: dict[str, str] = {}
        pairs = _align([k[1] for k in known], [s_ for _n, s_ in cur])
        # a local whose first binding moved (an inverted if/else) is recognised by the *set* of all its bindings
        cur_all = _ALLSIGS.get(id(node), {})
        done_k, done_c = {a_ for a_, _b in pairs}, {b_ for _a, b_ in pairs}
        for ai, k in enumerate(known):
            if ai in done_k or len(k) < 3 or not k[2]:
                continue
            cands = [bi for bi, (cn_, _s) in enumerate(cur) if bi not in done_c and sorted(cur_all.get(cn_, [])) == list(k[2])]
            if len(cands) == 1:
                pairs.append((ai, cands[0]))
                done_k.add(ai)
                done_c.add(cands[0])
        for ai, bi in pairs:
            kn, cn = known[ai][0], cur[bi][0]
            if kn == cn:
                continue
            # only a genuinely new spelling is mapped back, and only onto a name that is free in this function
            if cn in known_names or kn in all_names or kn in mapping.values():
                continue
            mapping[cn] = kn
        if mapping:
            r = _Rename(mapping)
            node.body = [r.visit(st) for st in node.body]
            log.append(f'{q}: locals {sorted(mapping.items())} restored to their inventory names')


_INV: set[str] | None = None
_SIMPLE: set[str] | None = None


def _known_simple_names() -> set[str]:
    global _SIMPLE
    if _SIMPLE is None:
        _SIMPLE = {q.rsplit('.', 1)[-1] for q in _inventory()}
    return _SIMPLE


def _inventory() -> set[str]:
    global _INV
    if _INV is None:
        try:
            with open(os.path.join(os.path.dirname(KNOWN), 'known_api.json')) as fh:
                _INV = set(json.load(fh)['functions'])
        except FileNotFoundError:
            _INV = set()
    return _INV


class _Repl(ast.NodeTransformer):
    def __init__(self, name: str, val: ast.expr) -> None:
        self.name, self.val = name, val

    def visit_Name(self, n: ast.Name) -> ast.AST:  # noqa: N802
        return self.val if n.id == self.name and isinstance(n.ctx, ast.Load) else n


def _inline_new_temps(q: str, fn: ast.AST, known_names: set[str], log: list[str]) -> None:
    """N8: a local that is not in the inventory of this function, assigned once and read once in the statement that
    follows (an extracted temporary), is substituted back into that statement."""
    params = _params(fn)
    count: dict[str, int] = {}
    for n in ast.walk(fn):
        if isinstance(n, ast.Name):
            count[n.id] = count.get(n.id, 0) + 1
    done = []
    changed = True
    while changed:
        changed = False
        for owner in [fn] + [n for n in _own(fn) if not isinstance(n, (ast.FunctionDef, ast.AsyncFunctionDef, ast.ClassDef))]:
            for fld in ('body', 'orelse', 'finalbody'):
                blk = getattr(owner, fld, None)
                if not (isinstance(blk, list) and blk and isinstance(blk[0], ast.stmt)):
                    continue
                for i in range(len(blk) - 1):
                    st, nx = blk[i], blk[i + 1]
                    if not (isinstance(st, ast.Assign) and len(st.targets) == 1 and isinstance(st.targets[0], ast.Name)):
                        continue
                    v = st.targets[0].id
                    if v in known_names or v in params or count.get(v) != 2:
                        continue
                    # a temporary that holds the result of a function the inventory does not know is left as a statement:
                    # the helper inliner expands `t = helper(...)` there (it cannot inside a larger expression)
                    cf_ = st.value.func if isinstance(st.value, ast.Call) else None
                    cn_ = cf_.attr if isinstance(cf_, ast.Attribute) and isinstance(cf_.value, ast.Name) and cf_.value.id in ('self', 'cls') else (cf_.id if isinstance(cf_, ast.Name) else None)
                    if os.environ.get('KFV_KEEP_HELPER_TEMPS') == '1' and cn_ is not None and cn_.startswith('_') and cn_ not in _known_simple_names():
                        continue      # experimental (not yet run against the full corpus): see DESIGN.md section 8
                    # the single read: in the header of the next statement (not in a body executed repeatedly / later)
                    if isinstance(nx, (ast.Assign, ast.AugAssign, ast.AnnAssign, ast.Expr, ast.Return, ast.Raise, ast.Assert, ast.Delete)):
                        scope: list[ast.AST] = [nx]
                    elif isinstance(nx, ast.If):
                        scope = [nx.test]
                    elif isinstance(nx, (ast.For, ast.AsyncFor)):
                        scope = [nx.iter]
                    elif isinstance(nx, ast.With):
                        scope = [it.context_expr for it in nx.items]
                    else:
                        continue
                    reads = [x for sc in scope for x in ast.walk(sc) if isinstance(x, ast.Name) and x.id == v and isinstance(x.ctx, ast.Load)]
                    inner = [x for sc in scope for y in ast.walk(sc) if isinstance(y, (ast.Lambda, ast.ListComp, ast.SetComp, ast.DictComp, ast.GeneratorExp))
                             for x in ast.walk(y) if isinstance(x, ast.Name) and x.id == v]
                    if len(reads) != 1 or inner:
                        continue
                    r = _Repl(v, st.value)
                    if isinstance(nx, ast.If):
                        nx.test = r.visit(nx.test)
                    elif isinstance(nx, (ast.For, ast.AsyncFor)):
                        nx.iter = r.visit(nx.iter)
                    elif isinstance(nx, ast.With):
                        for it in nx.items:
                            it.context_expr = r.visit(it.context_expr)
                    else:
                        blk[i + 1] = r.visit(nx)
                    del blk[i]
                    count[v] = 0
                    done.append(v)
                    changed = True
                    break
                if changed:
                    break
            if changed:
                break
    if done:
        log.append(f'{q}: new single-use temporaries {done} substituted into the statement that reads them')


def _restore_call_styles(q: str, node: ast.AST, log: list[str]) -> None:
    """N9: positional / keyword style of calls to package functions, as recorded for the inventory function."""
    rec = dict(_SHAPES.get('calls_global', {}))
    rec.update(_SHAPES.get('calls', {}).get(q) or {})
    if not rec or not _SIGS:
        return
    n_fix = 0
    for n in _own(node):
        if not isinstance(n, ast.Call):
            continue
        nm = _callee(n)
        if nm not in rec or nm not in _SIGS or any(isinstance(a, ast.Starred) for a in n.args) or any(k.arg is None for k in n.keywords):
            continue
        npos, kws = rec[nm]
        if [len(n.args), [k.arg for k in n.keywords]] == [npos, kws]:
            continue
        full = _SIGS[nm]
        ps = full[:full.index('/')] if '/' in full else full
        names = [x for x in full if x != '/']
        if len(n.args) > len(ps) or any(k.arg not in names for k in n.keywords) or npos > len(ps):
            continue
        bound: dict[str, ast.expr] = {ps[i]: a for i, a in enumerate(n.args)}
        if any(k.arg in bound for k in n.keywords):
            continue
        bound.update({k.arg: k.value for k in n.keywords})
        if any(p_ not in bound for p_ in ps[:npos]):
            continue
        # the recorded leading parameters positionally, the recorded keywords in their order, then any others
        rest = [k_ for k_ in names if k_ in bound and k_ not in ps[:npos] and k_ not in kws]
        new_args = [bound[p_] for p_ in ps[:npos]]
        new_kws = [ast.keyword(arg=k_, value=bound[k_]) for k_ in kws if k_ in bound] + [ast.keyword(arg=k_, value=bound[k_]) for k_ in rest]
        if [_u(a_) for a_ in new_args] == [_u(a_) for a_ in n.args] and [(k.arg, _u(k.value)) for k in new_kws] == [(k.arg, _u(k.value)) for k in n.keywords]:
            continue
        n.args = new_args
        n.keywords = new_kws
        n_fix += 1
    if n_fix:
        log.append(f'{q}: {n_fix} call(s) restored to the inventory argument style')


def _restore_augs(q: str, node: ast.AST, log: list[str]) -> None:
    """N10: `x = x op e` -> `x op= e` where the inventory function updates x that way (Python numbers there;
    tensors that the inventory rebinds with `x = x + e` are left alone: `+=` would be an in-place update)."""
    rec = set(_SHAPES.get('augs', {}).get(q, []))
    if not rec:
        return
    n_fix = 0
    for owner in [node] + [n for n in _own(node) if not isinstance(n, (ast.FunctionDef, ast.AsyncFunctionDef, ast.ClassDef))]:
        for fld in ('body', 'orelse', 'finalbody'):
            blk = getattr(owner, fld, None)
            if not (isinstance(blk, list) and blk and isinstance(blk[0], ast.stmt)):
                continue
            for i, st in enumerate(blk):
                if isinstance(st, ast.Assign) and len(st.targets) == 1 and isinstance(st.value, ast.BinOp) and _callfree(st.targets[0]) \
                        and _u(st.value.left) == _u(st.targets[0]) and f'{_u(st.targets[0])} {type(st.value.op).__name__}' in rec:
                    blk[i] = ast.copy_location(ast.AugAssign(target=st.targets[0], op=st.value.op, value=st.value.right), st)
                    n_fix += 1
    if n_fix:
        log.append(f'{q}: {n_fix} update(s) `x = x op e` restored to the inventory form `x op= e`')


def _restore_comps(q: str, node: ast.AST, log: list[str]) -> None:
    """N12: `x = []` / `x = {}` directly followed by `for t in it: [if c:] x.append(e)` / `x[k] = v` -> the comprehension,
    for locals the inventory function builds with a comprehension."""
    rec = set(_SHAPES.get('comps', {}).get(q, []))
    if not rec:
        return
    n_fix = 0
    for owner in [node] + [n for n in _own(node) if not isinstance(n, (ast.FunctionDef, ast.AsyncFunctionDef, ast.ClassDef))]:
        for fld in ('body', 'orelse', 'finalbody'):
            blk = getattr(owner, fld, None)
            if not (isinstance(blk, list) and len(blk) >= 2 and isinstance(blk[0], ast.stmt)):
                continue
            i = 0
            while i + 1 < len(blk):
                st, lp = blk[i], blk[i + 1]
                if isinstance(st, ast.Assign) and len(st.targets) == 1 and isinstance(st.targets[0], ast.Name) and st.targets[0].id in rec \
                        and isinstance(lp, ast.For) and not lp.orelse and len(lp.body) == 1:
                    x = st.targets[0].id
                    empty_list = isinstance(st.value, ast.List) and not st.value.elts
                    empty_dict = isinstance(st.value, ast.Dict) and not st.value.keys
                    inner = lp.body[0]
                    ifs = []
                    while isinstance(inner, ast.If) and not inner.orelse and len(inner.body) == 1:
                        ifs.append(inner.test)
                        inner = inner.body[0]
                    comp = None
                    gen = ast.comprehension(target=lp.target, iter=lp.iter, ifs=ifs, is_async=0)
                    if empty_list and isinstance(inner, ast.Expr) and isinstance(inner.value, ast.Call) and isinstance(inner.value.func, ast.Attribute) \
                            and inner.value.func.attr == 'append' and _u(inner.value.func.value) == x and len(inner.value.args) == 1 and not inner.value.keywords:
                        comp = ast.ListComp(elt=inner.value.args[0], generators=[gen])
                    elif empty_dict and isinstance(inner, ast.Assign) and len(inner.targets) == 1 and isinstance(inner.targets[0], ast.Subscript) \
                            and _u(inner.targets[0].value) == x:
                        comp = ast.DictComp(key=inner.targets[0].slice, value=inner.value, generators=[gen])
                    uses_x = any(isinstance(n_, ast.Name) and n_.id == x for part in [lp.iter] + ifs + ([comp.elt] if isinstance(comp, ast.ListComp) else [comp.key, comp.value] if comp else [])
                                 for n_ in ast.walk(part))
                    if comp is not None and not uses_x:
                        st.value = ast.copy_location(comp, st.value)
                        ast.fix_missing_locations(st)
                        del blk[i + 1]
                        n_fix += 1
                        continue
                i += 1
    if n_fix:
        log.append(f'{q}: {n_fix} container-building loop(s) restored to the inventory comprehension')


def _restore_shapes(q: str, node: ast.AST, log: list[str]) -> None:
    """Orientation of ==/!= comparisons and polarity of if/else, as recorded for the inventory function."""
    _restore_call_styles(q, node, log)
    _restore_augs(q, node, log)
    _restore_comps(q, node, log)
    kc = set(_SHAPES.get('compares', {}).get(q, []))
    kt = set(_SHAPES.get('tests', {}).get(q, []))
    if not kc and not kt:
        return
    n_c = n_t = 0
    for n in list(_own(node)):
        if kc and isinstance(n, ast.Compare) and len(n.ops) == 1 and isinstance(n.ops[0], (ast.Eq, ast.NotEq)) and _u(n) not in kc \
                and _callfree(n.left) and _callfree(n.comparators[0]):
            fl = ast.Compare(left=n.comparators[0], ops=n.ops, comparators=[n.left])
            alt = ast.Compare(left=n.comparators[0], ops=[ast.NotEq() if isinstance(n.ops[0], ast.Eq) else ast.Eq()], comparators=[n.left])
            if _u(fl) in kc or (_u(alt) in kc and _u(_neg(n)) not in kc):
                n.left, n.comparators = n.comparators[0], [n.left]
                n_c += 1
    for n in list(_own(node)):
        if kt and isinstance(n, (ast.If, ast.IfExp)) and _u(n.test) not in kt and _u(_neg(n.test)) in kt:
            if isinstance(n, ast.IfExp):
                n.test, n.body, n.orelse = _neg(n.test), n.orelse, n.body
                n_t += 1
            elif n.orelse and not (len(n.orelse) == 1 and isinstance(n.orelse[0], ast.If) and False):
                n.test, n.body, n.orelse = _neg(n.test), n.orelse, n.body
                n_t += 1
    # guard clauses: `if not c: <terminal>;  REST`  ->  `if c: REST else: <terminal>` when the inventory tests c
    changed = True
    while changed and kt:
        changed = False
        for owner in [node] + [n for n in _own(node) if not isinstance(n, (ast.FunctionDef, ast.AsyncFunctionDef, ast.ClassDef))]:
            for fld in ('body', 'orelse', 'finalbody'):
                blk = getattr(owner, fld, None)
                if not (isinstance(blk, list) and blk and isinstance(blk[0], ast.stmt)):
                    continue
                for i, st in enumerate(blk):
                    if isinstance(st, ast.If) and not st.orelse and i + 1 < len(blk) and st.body and isinstance(st.body[-1], (ast.Return, ast.Raise, ast.Continue, ast.Break)) \
                            and _u(st.test) not in kt and _u(_neg(st.test)) in kt:
                        rest = blk[i + 1:]
                        st.test, st.orelse, st.body = _neg(st.test), st.body, rest
                        del blk[i + 1:]
                        n_t += 1
                        changed = True
                        break
                if changed:
                    break
            if changed:
                break
    if n_c or n_t:
        log.append(f'{q}: {n_c} comparison(s) re-oriented, {n_t} if/else restored to the inventory polarity')


if __name__ == '__main__':
    import sys
    root = sys.argv[1] if len(sys.argv) > 1 else '/repo'
    t = build(root)
    json.dump({'comment': 'locals of the inventory functions in order of first binding, with spelling-free binding signatures; '
                          'texts of branch tests and of ==/!= comparisons (kfv/localnames.py)',
               'functions': t, 'tests': shapes.get('tests', {}), 'compares': shapes.get('compares', {}), 'private': shapes.get('private', {}), 'calls': shapes.get('calls', {}), 'augs': shapes.get('augs', {}), 'comps': shapes.get('comps', {}), 'calls_global': shapes.get('calls_global', {})},
              open(KNOWN, 'w'), indent=0, sort_keys=True)
    print(f'{len(t)} functions, {sum(len(v) for v in t.values())} locals')
