"""N0 — restore the inventory names of function locals.

Many rules name the locals of the functions they analyse (`layers`, `partition`, `module_name`, `worker_loads`
...).  Renaming a local is behaviour-preserving, so the rules must not depend on the spelling.  `known_locals.json`
records, for every function of the inventory, its locals in order of first binding together with a spelling-free
signature of that binding (kind + defining expression with every local replaced by a placeholder).  When a tree is
loaded, the locals of each inventory function are aligned with the recorded sequence by signature (difflib) and a
local whose binding matches a recorded one but is spelled differently is renamed back — only when the new spelling is
not itself a recorded name of that function and the recorded name is not otherwise in use there (so exchanging two
existing variables, a real change, is never undone).
"""
from __future__ import annotations

import ast
import difflib
import json
import os

KNOWN = os.path.join(os.path.dirname(os.path.abspath(__file__)), 'known_locals.json')
PH = '§'


def _own(fn: ast.AST):  # noqa: ANN202
    """Nodes of fn in source order, nested function / class bodies excluded (lambdas, comprehensions included)."""
    def rec(n: ast.AST):  # noqa: ANN202
        yield n
        if isinstance(n, (ast.FunctionDef, ast.AsyncFunctionDef, ast.ClassDef)) and n is not fn:
            return
        for c in ast.iter_child_nodes(n):
            yield from rec(c)
    for st in fn.body:  # type: ignore[attr-defined]
        yield from rec(st)


def _params(fn: ast.AST) -> set[str]:
    a = fn.args  # type: ignore[attr-defined]
    out = {x.arg for x in a.posonlyargs + a.args + a.kwonlyargs}
    if a.vararg:
        out.add(a.vararg.arg)
    if a.kwarg:
        out.add(a.kwarg.arg)
    return out


class _Blank(ast.NodeTransformer):
    def __init__(self, names: set[str]) -> None:
        self.names = names

    def visit_Name(self, n: ast.Name) -> ast.AST:  # noqa: N802
        return ast.copy_location(ast.Name(id=PH, ctx=n.ctx), n) if n.id in self.names else n


def _txt(e: ast.AST | None, names: set[str]) -> str:
    if e is None:
        return ''
    import copy
    try:
        return ast.unparse(_Blank(names).visit(copy.deepcopy(e)))[:300]
    except Exception:  # noqa: BLE001
        return ast.dump(e)[:300]


def _targets(t: ast.AST, prefix: str = ''):  # noqa: ANN202
    if isinstance(t, ast.Name):
        yield t.id, prefix
    elif isinstance(t, (ast.Tuple, ast.List)):
        for i, x in enumerate(t.elts):
            yield from _targets(x, f'{prefix}[{i}/{len(t.elts)}]')
    elif isinstance(t, ast.Starred):
        yield from _targets(t.value, prefix + '*')


def bindings(fn: ast.AST) -> list[tuple[str, str]]:
    """(local name, signature of its first binding), in order of first binding."""
    params = _params(fn)
    declared: set[str] = set()
    raw: list[tuple[str, str, ast.AST | None]] = []
    for n in _own(fn):
        if isinstance(n, (ast.Global, ast.Nonlocal)):
            declared |= set(n.names)
        elif isinstance(n, ast.Assign):
            for t in n.targets:
                for nm, pos in _targets(t):
                    raw.append((nm, 'assign' + pos, n.value))
        elif isinstance(n, ast.AnnAssign) and n.value is not None:
            for nm, pos in _targets(n.target):
                raw.append((nm, 'assign' + pos, n.value))
        elif isinstance(n, ast.AugAssign):
            for nm, pos in _targets(n.target):
                raw.append((nm, 'aug' + pos, n.value))
        elif isinstance(n, (ast.For, ast.AsyncFor)):
            for nm, pos in _targets(n.target):
                raw.append((nm, 'for' + pos, n.iter))
        elif isinstance(n, ast.comprehension):
            for nm, pos in _targets(n.target):
                raw.append((nm, 'comp' + pos, n.iter))
        elif isinstance(n, ast.withitem) and n.optional_vars is not None:
            for nm, pos in _targets(n.optional_vars):
                raw.append((nm, 'with' + pos, n.context_expr))
        elif isinstance(n, ast.NamedExpr):
            raw.append((n.target.id, 'walrus', n.value))
    names = {nm for nm, _k, _v in raw} - params - declared
    out: list[tuple[str, str]] = []
    seen: set[str] = set()
    for nm, kind, val in raw:
        if nm in names and nm not in seen:
            seen.add(nm)
            out.append((nm, f'{kind}:{_txt(val, names)}'))
    return out


def _functions(tree: ast.Module, modname: str):  # noqa: ANN202
    def rec(body: list, prefix: str):  # noqa: ANN202
        for st in body:
            if isinstance(st, (ast.FunctionDef, ast.AsyncFunctionDef)):
                q = f'{prefix}.{st.name}'
                yield q, st
                yield from rec(st.body, q + '.<locals>')
            elif isinstance(st, ast.ClassDef):
                yield from rec(st.body, f'{prefix}.{st.name}')
            elif isinstance(st, (ast.If, ast.Try, ast.With, ast.For, ast.While)):
                for fld in ('body', 'orelse', 'finalbody'):
                    yield from rec(getattr(st, fld, []) or [], prefix)
    yield from rec(tree.body, modname)


def build(root: str) -> dict[str, list[list[str]]]:
    out: dict[str, list[list[str]]] = {}
    pkg = os.path.join(root, 'kfac')
    for dirpath, dirnames, files in os.walk(pkg):
        dirnames[:] = sorted(d for d in dirnames if d != '__pycache__')
        for fn in sorted(files):
            if not fn.endswith('.py'):
                continue
            path = os.path.join(dirpath, fn)
            rel = os.path.relpath(path, root)[:-3].replace(os.sep, '.')
            if rel.endswith('.__init__'):
                rel = rel[:-len('.__init__')]
            tree = ast.parse(open(path, encoding='utf-8').read())
            for q, node in _functions(tree, rel):
                b = bindings(node)
                if b:
                    out[q] = [[n, s] for n, s in b]
    return out


_TABLE: dict | None = None


def table() -> dict[str, list[list[str]]]:
    global _TABLE
    if _TABLE is None:
        try:
            with open(KNOWN) as fh:
                _TABLE = json.load(fh)['functions']
        except FileNotFoundError:
            _TABLE = {}
    return _TABLE


class _Rename(ast.NodeTransformer):
    def __init__(self, mapping: dict[str, str]) -> None:
        self.mapping = mapping

    def visit_Name(self, n: ast.Name) -> ast.AST:  # noqa: N802
        if n.id in self.mapping:
            return ast.copy_location(ast.Name(id=self.mapping[n.id], ctx=n.ctx), n)
        return n

    def _scope(self, fn):  # noqa: ANN001, ANN202
        # a nested scope that rebinds a name (parameter or own local) keeps its own variable
        rebinds = _params(fn)
        if not isinstance(fn, ast.Lambda):
            rebinds |= {nm for nm, _s in bindings(fn)}
            nonloc = {x for n in _own(fn) if isinstance(n, ast.Nonlocal) for x in n.names}
            rebinds -= nonloc
        sub = {k: v for k, v in self.mapping.items() if k not in rebinds}
        r = _Rename(sub)
        if isinstance(fn, ast.Lambda):
            fn.body = r.visit(fn.body)
        else:
            fn.body = [r.visit(st) for st in fn.body]
            for n in _own(fn):
                if isinstance(n, ast.Nonlocal):
                    n.names = [sub.get(x, x) for x in n.names]
            fn.decorator_list = [self.visit(d) for d in fn.decorator_list]
        fn.args.defaults = [self.visit(d) for d in fn.args.defaults]
        fn.args.kw_defaults = [self.visit(d) if d is not None else None for d in fn.args.kw_defaults]
        return fn

    def visit_FunctionDef(self, n):  # noqa: ANN001, ANN201, N802
        return self._scope(n)

    def visit_AsyncFunctionDef(self, n):  # noqa: ANN001, ANN201, N802
        return self._scope(n)

    def visit_Lambda(self, n):  # noqa: ANN001, ANN201, N802
        return self._scope(n)


def restore(tree: ast.Module, modname: str, log: list[str]) -> None:
    tab = table()
    if not tab:
        return
    for q, node in list(_functions(tree, modname)):
        known = tab.get(q)
        if not known:
            continue
        cur = bindings(node)
        if [n for n, _s in cur] == [k[0] for k in known]:
            continue
        known_names = {k[0] for k in known}
        cur_names = {n for n, _s in cur}
        all_names = {x.id for x in ast.walk(node) if isinstance(x, ast.Name)} | _params(node)
        sm = difflib.SequenceMatcher(None, [k[1] for k in known], [s for _n, s in cur], autojunk=False)
        mapping: dict[str, str] = {}
        for a, b, size in sm.get_matching_blocks():
            for i in range(size):
                kn, cn = known[a + i][0], cur[b + i][0]
                if kn == cn:
                    continue
                # only a genuinely new spelling is mapped back, and only onto a name that is free in this function
                if cn in known_names or kn in all_names or kn in mapping.values():
                    continue
                mapping[cn] = kn
        if mapping:
            r = _Rename(mapping)
            node.body = [r.visit(st) for st in node.body]
            log.append(f'{q}: locals {sorted(mapping.items())} restored to their inventory names')


if __name__ == '__main__':
    import sys
    root = sys.argv[1] if len(sys.argv) > 1 else '/repo'
    t = build(root)
    json.dump({'comment': 'locals of the inventory functions in order of first binding, with spelling-free binding signatures (kfv/localnames.py)',
               'functions': t}, open(KNOWN, 'w'), indent=0, sort_keys=True)
    print(f'{len(t)} functions, {sum(len(v) for v in t.values())} locals')
