"""C15 — layer helpers keep factors, gradients and weights in one consistent layout."""
from __future__ import annotations

from kfv.core import Ctx
from kfv.rules import tensor_rules as TR

TECHNIQUE = ('abstract interpretation of the module helpers over named index spaces with composite (product / concatenation / window) axes, '
             'per valuation of (linear | conv) x (bias | no bias) x (padding[0], padding[1] each zero | positive, padding guards evaluated abstractly); convolution output-extent arithmetic; must-pass-through rule for the padding step of _extract_patches')
EXPLANATION = (
    'get_grad, get_a_factor, get_g_factor, set_grad, a_factor_shape, g_factor_shape and _extract_patches are evaluated on abstract '
    'tensors whose axes are named index spaces; view/reshape must keep the flattening order, cat builds a concatenated axis, unfold '
    'a (window, kernel) pair tagged with the configuration index used, F.pad tags the padded axis.  Decided for every valuation: '
    'the combined gradient is (OUT, features [+ bias last]); the A factor lives over exactly that column space (same feature order: '
    'channel, kernel row, kernel column) and G over OUT; the advertised shapes are those spaces; set_grad returns each piece to its '
    'own parameter with its own shape; H is handled with index 0 and W with index 1 of padding / kernel_size / stride; no exit of _extract_patches lies above the padding step unless its guard tests the padding (must-pass-through on the statement structure).  Agreement '
    'with F.unfold as values and dilation / groups (unsupported by the library) are not decided.')

NOT_DECIDED = 'agreement with F.unfold as values; dilation / groups (unsupported by the library)'


def run(ctx: Ctx) -> None:
    ctx.do(TR.rule_alt_paths)
    ctx.do(TR.rule_layout)
    ctx.do(TR.rule_tt_cov)
