"""Coherence / table / ownership rules over the preconditioners and layers
(COH-SRC, DOM-ROLE, DOM-PHASE, TAB-SD, TAB-LAYER, DOM-COUNT, TS-FUT, TS-FUT-USED, AFF-AVG, ENUM-STRAT,
AFF-FLAGS, EXH-MEM, EXCL-HOOK, ENUM-COMPUTE), shared by C02, C09, C13, C18."""
from __future__ import annotations

import ast

from kfv import flow
from kfv.core import AnalysisError
from kfv.core import AnalysisIncomplete
from kfv.core import Ctx
from kfv.model import Func
from kfv.model import norm
from kfv.rules import precond_rules as PR
from kfv.rules.spmd_rules import conjuncts

BP = PR.BP
WA = 'kfac.assignment.WorkAssignment'
LAYER = PR.LAYER
LAYER_SHORT = 'layers.base.KFACBaseLayer'


def acall(ctx: Ctx, f: Func, e: ast.AST | None, meth: str) -> tuple[str, list[str]] | None:
    """`<recv>.<meth>(args)` on a WorkAssignment: (receiver text, arg texts)."""
    p = ctx.prog
    if not (isinstance(e, ast.Call) and isinstance(e.func, ast.Attribute) and e.func.attr == meth):
        return None
    recv = p.receiver_classes(f, e.func.value)
    if not any(rc in p.classes and p.is_subclass(rc, WA) for rc in recv):
        return None
    return norm(e.func.value), [norm(a) for a in e.args] + [f'{k.arg}={norm(k.value)}' for k in e.keywords]


def kwarg(c: ast.Call, name: str, pos: int | None = None) -> ast.expr | None:
    for k in c.keywords:
        if k.arg == name:
            return k.value
    if pos is not None and pos < len(c.args):
        return c.args[pos]
    return None


def is_get_rank(ctx: Ctx, f: Func, e: ast.AST) -> bool:
    if not (isinstance(e, ast.Call) and not e.args and not e.keywords):
        return False
    ts = ctx.prog.resolve_call(f, e)
    return any((t.kind == 'func' and t.ref.qualname == 'kfac.distributed.get_rank') or (t.kind == 'ext' and t.ref == 'torch.distributed.get_rank') for t in ts)  # type: ignore[union-attr]


def layer_binding(ctx: Ctx, f: Func, c: ast.Call) -> tuple[str | None, str | None]:
    """For a call `<layer>.m(...)`: the name variable bound together with the layer variable
    (same tuple of self._layers.values() / self._layers[module]).  Returns (layer var, name var)."""
    p = ctx.prog
    if not (isinstance(c.func, ast.Attribute) and isinstance(c.func.value, ast.Name)):
        return None, None
    lv = c.func.value.id
    mod = p.modules[f.module]
    # enclosing for-loop binding
    n: ast.AST | None = c
    while n is not None and n is not f.node:
        par = mod.parents.get(id(n))
        if isinstance(par, (ast.For, ast.AsyncFor)) and isinstance(par.target, ast.Tuple) and len(par.target.elts) == 2:
            a, b = par.target.elts
            it_txt = norm(par.iter)
            if isinstance(par.iter, ast.Name):
                ds = p.local_defs(f, par.iter.id)
                if len(ds) == 1:
                    it_txt = norm(ds[0])     # `ordered = list(reversed(list(self._layers.values())))`
            if isinstance(b, ast.Name) and b.id == lv and '_layers' in it_txt and '.values()' in it_txt:
                return lv, (a.id if isinstance(a, ast.Name) else None)
        n = par
    # tuple assignment from self._layers[...]
    for st in p.nodes(f):
        if isinstance(st, ast.Assign) and len(st.targets) == 1 and isinstance(st.targets[0], ast.Tuple) and len(st.targets[0].elts) == 2:
            a, b = st.targets[0].elts
            if isinstance(b, ast.Name) and b.id == lv and isinstance(st.value, ast.Subscript) and norm(st.value.value) == 'self._layers':
                return lv, (a.id if isinstance(a, ast.Name) else None)
    return lv, None


def rule_coh_src(ctx: Ctx) -> None:
    """COH-SRC + DOM-ROLE + COH-GROUPARG on step(), hooks, load_state_dict()."""
    p = ctx.prog
    p.family = None
    ctx.rule('COH-SRC', 'layer and name come from one entry of self._layers; each communication call names the root, group and factor '
                        'that belong to its method: broadcast_x_inv(src=inv_worker(name,X), group=grad_worker_group(name)), '
                        'broadcast_grad(src=src_grad_worker(name), group=grad_receiver_group(name)), reduce_x_factor(factor_group(name,X))', floor=12)
    ctx.rule('DOM-ROLE', 'compute_x_inv runs under get_rank()==inv_worker(name,X) in step(); inverse broadcasts under broadcast_inverses() and '
                         'is_grad_worker(name); preconditioned_grad under is_grad_worker(name); gradient broadcast under broadcast_gradients()', floor=7)
    for fname in ('step', '_save_input', '_save_grad_output', 'load_state_dict'):
        f = p.get_func(f'{BP}.{fname}')
        for c, m in PR.layer_calls(ctx, f):
            lv, nv = layer_binding(ctx, f, c)
            atoms = PR.guard_atoms_plain(ctx, f, c)
            X = {'a': 'A', 'g': 'G'}.get(m.split('_')[1][:1]) if m.split('_')[0] in ('broadcast', 'compute', 'reduce', 'update') and len(m.split('_')) > 2 else None
            if m in ('broadcast_a_inv', 'broadcast_g_inv'):
                src = acall(ctx, f, kwarg(c, 'src', 0), 'inv_worker')
                grp = acall(ctx, f, kwarg(c, 'group', 1), 'grad_worker_group')
                ok = bool(src and grp and nv and src[1] == [nv, repr(X)] and grp[1] == [nv] and src[0] == grp[0])
                ctx.check(ok, 'COH-SRC', f, f'{fname}: {m}(src=inv_worker({nv},{X!r}), group=grad_worker_group({nv}))', norm(c)[:150],
                          f'{fname}: {norm(c)[:140]} — the inverse of factor {X} must be broadcast from inv_worker({nv}, {X!r}) inside grad_worker_group({nv}) of the same layer entry', c)
                need = {('broadcast_inverses', ()), ('is_grad_worker', (nv,))}
                got = set()
                for a, pol, via in atoms:
                    for meth in ('broadcast_inverses', 'is_grad_worker'):
                        r = acall(ctx, f, a, meth)
                        if r and pol and via in ('if', 'boolop', 'ifexp'):
                            got.add((meth, tuple(r[1])))
                ctx.check(need <= got, 'DOM-ROLE', f, f'{fname}: {m} under broadcast_inverses() and is_grad_worker({nv})', norm(c)[:150],
                          f'{fname}: {norm(c.func)} must be guarded by broadcast_inverses() and is_grad_worker({nv}); found {sorted(got)}', c)
            elif m in ('compute_a_inv', 'compute_g_inv') and fname == 'step':
                ok = False
                for a, pol, via in atoms:
                    if isinstance(a, ast.Compare) and len(a.ops) == 1 and isinstance(a.ops[0], ast.Eq) and pol and via in ('if', 'boolop'):
                        sides = [a.left, a.comparators[0]]
                        r = [acall(ctx, f, s, 'inv_worker') for s in sides]
                        g = [is_get_rank(ctx, f, s) for s in sides]
                        if any(g) and any(x and x[1] == [nv, repr(X)] for x in r):
                            ok = True
                ctx.check(ok, 'DOM-ROLE', f, f'step: {m} under get_rank() == inv_worker({nv},{X!r})', norm(c)[:150],
                          f'step(): {norm(c.func)} must run exactly on the rank inv_worker({nv}, {X!r}) assigned to this factor', c)
            elif m == 'broadcast_grad':
                src = acall(ctx, f, kwarg(c, 'src', 0), 'src_grad_worker')
                grp = acall(ctx, f, kwarg(c, 'group', 1), 'grad_receiver_group')
                ok = bool(src and grp and nv and src[1] == [nv] and grp[1] == [nv] and src[0] == grp[0])
                ctx.check(ok, 'COH-SRC', f, f'{fname}: broadcast_grad(src=src_grad_worker({nv}), group=grad_receiver_group({nv}))', norm(c)[:150],
                          f'{fname}: {norm(c)[:140]} — the preconditioned gradient must come from src_grad_worker({nv}) inside grad_receiver_group({nv})', c)
                got = [acall(ctx, f, a, 'broadcast_gradients') for a, pol, via in atoms if pol]
                other = [norm(a) for a, pol, via in atoms if not acall(ctx, f, a, 'broadcast_gradients')]
                ctx.check(any(got) and not other, 'DOM-ROLE', f, 'broadcast_grad entered by all ranks under broadcast_gradients()', norm(c)[:150],
                          f'{fname}: broadcast_grad must be entered by every rank exactly when broadcast_gradients(); guards found: {[norm(a) for a, _p, _v in atoms]}', c)
            elif m in ('reduce_a_factor', 'reduce_g_factor'):
                grp = acall(ctx, f, kwarg(c, 'group', 0), 'factor_group')
                ok = bool(grp and nv and grp[1] == [nv, repr(X)])
                ctx.check(ok, 'COH-SRC', f, f'{fname}: {m}(factor_group({nv},{X!r}))', norm(c)[:150],
                          f'{fname}: {norm(c)[:140]} — factor {X} must be reduced over factor_group({nv}, {X!r})', c)
            elif m == 'preconditioned_grad':
                got = [r for r in (acall(ctx, f, a, 'is_grad_worker') for a, pol, via in atoms if pol and via in ('if', 'boolop')) if r]
                extra = [norm(a) for a, pol, via in atoms if not acall(ctx, f, a, 'is_grad_worker')]
                ctx.check(bool(got) and got[0][1] == [nv] and not extra, 'DOM-ROLE', f, f'preconditioned_grad under is_grad_worker({nv})', norm(c)[:150],
                          f'{fname}: preconditioned_grad must run exactly on the gradient workers of the layer (guard is_grad_worker({nv})); found {[norm(a) for a, _p, _v in atoms]}', c)
            if m in PR.FACTOR_METHODS | PR.INV_METHODS | PR.GRAD_METHODS and fname != 'load_state_dict' and nv is None and m not in ('update_grad',):
                ctx.violate('COH-SRC', f, norm(c)[:150], f'{fname}: cannot tie layer variable {lv} to a name from the same entry of self._layers', c)
        if fname == 'step':
            # update_a/update_g pair with the matching reduce in the step-mode loop: alpha = factor_decay
            for c, m in PR.layer_calls(ctx, f):
                if m in ('update_a_factor', 'update_g_factor'):
                    a = kwarg(c, 'alpha', 0)
                    ctx.check(a is not None and norm(a) == 'self.factor_decay', 'COH-SRC', f, f'{m}(alpha=self.factor_decay)', norm(c),
                              f'{norm(c)}: the running-average coefficient must be the factor_decay hyper-parameter', c)
    for fname in ('_save_input', '_save_grad_output'):
        f = p.get_func(f'{BP}.{fname}')
        for c, m in PR.layer_calls(ctx, f):
            if m in ('update_a_factor', 'update_g_factor'):
                a = kwarg(c, 'alpha', 0)
                ctx.check(a is not None and norm(a) == 'self.factor_decay', 'COH-SRC', f, f'{m}(alpha=self.factor_decay)', norm(c),
                          f'{norm(c)}: the running-average coefficient must be the factor_decay hyper-parameter', c)
    # A methods in the forward hook, G methods in the backward hook
    for fname, want in (('_save_input', 'a'), ('_save_grad_output', 'g')):
        f = p.get_func(f'{BP}.{fname}')
        for c, m in PR.layer_calls(ctx, f):
            parts = m.split('_')
            if parts[0] in ('update', 'reduce') and len(parts) == 3:
                ctx.check(parts[1] == want, 'COH-SRC', f, f'{fname} handles factor {want.upper()} ({m})', norm(c)[:100],
                          f'{fname} calls {m}: the {"forward" if want == "a" else "backward"} hook must update factor {want.upper()}', c)


def rule_dom_phase(ctx: Ctx) -> None:
    p = ctx.prog
    ctx.rule('DOM-PHASE', 'step(): factor phase < flush < inverse phase < gradient phase < clip scale < write-back < counter increment', floor=5)
    f = p.get_func(f'{BP}.step')

    def idx(pred) -> list[int]:  # noqa: ANN001
        return [i for i, st in enumerate(f.body) if any(pred(n) for n in ast.walk(st))]

    def callnamed(*names: str):  # noqa: ANN202
        return lambda n: isinstance(n, ast.Call) and isinstance(n.func, ast.Attribute) and n.func.attr in names
    phases = [
        ('factor phase', idx(callnamed('update_a_factor', 'update_g_factor', 'reduce_a_factor', 'reduce_g_factor'))),
        ('bucket flush', idx(callnamed('flush_allreduce_buckets'))[:1]),
        ('inverse phase', idx(callnamed('compute_a_inv', 'compute_g_inv', 'broadcast_a_inv', 'broadcast_g_inv'))),
        ('gradient phase', idx(callnamed('preconditioned_grad', 'broadcast_grad'))),
        ('clip scale', idx(callnamed('_compute_grad_scale'))),
        ('write-back', idx(callnamed('update_grad'))),
        ('counter increment', idx(lambda n: isinstance(n, ast.AugAssign) and norm(n.target) == 'self._steps')),
    ]
    prev_name, prev_max = None, -1
    for name, ix in phases:
        if not ix:
            if name in ('factor phase',):
                continue
            ctx.violate('DOM-PHASE', f, name, f'step() has no {name}', f.node)
            continue
        ctx.check(min(ix) > prev_max or (name == 'bucket flush' and min(ix) >= prev_max), 'DOM-PHASE', f, f'{prev_name} precedes {name}', name,
                  f'step(): the {name} (statement {min(ix)}) does not follow the {prev_name} (statement {prev_max}); the phases of a step must run in order', f.body[min(ix)])
        prev_name, prev_max = name, max(ix)
    # the scale used by update_grad is the one computed after all preconditioning
    for c, m in PR.layer_calls(ctx, f):
        if m == 'update_grad':
            a = kwarg(c, 'scale', 0)
            defs = p.local_defs(f, a.id) if isinstance(a, ast.Name) else []
            ok = isinstance(a, ast.Name) and len(defs) == 1 and '_compute_grad_scale' in norm(defs[0])
            ctx.check(ok, 'DOM-PHASE', f, 'update_grad(scale=<the single clip scale>)', norm(c),
                      f'{norm(c)}: the write-back must apply the one scale computed by _compute_grad_scale()', c)


def _atoms(p, f, n) -> list[str]:  # noqa: ANN001
    out = []
    for g in flow.guards(p, f, n):
        for a, pol in conjuncts(g.test, g.polarity):
            out.append(('' if pol else 'not ') + norm(a))
    return sorted(out)


def rule_tab_sd(ctx: Ctx) -> None:
    """TAB-SD / TAB-LAYER / DOM-COUNT for the base checkpoint."""
    p = ctx.prog
    names, _ = PR.hp_names(ctx)
    ctx.rule('TAB-SD', 'keys written by state_dict() = keys read by load_state_dict(); each key saved from and restored into the same field', floor=14)
    ctx.rule('TAB-LAYER', "layer state {'A','G'} <-> a_factor / g_factor through the awaiting accessors", floor=3)
    ctx.rule('DOM-COUNT', 'a state with a different number of layers is rejected before any layer is loaded; layers are matched by name', floor=2)
    sd = p.get_func(f'{BP}.state_dict')
    ld = p.get_func(f'{BP}.load_state_dict')
    # writer table
    ret = [n for n in p.nodes(sd) if isinstance(n, ast.Return) and n.value is not None]
    if len(ret) != 1 or not isinstance(ret[0].value, ast.Name):
        raise AnalysisIncomplete('state_dict() does not return a single local dict')
    dv = ret[0].value.id
    written: dict[str, tuple[str, list[str], ast.AST]] = {}
    for n in p.nodes(sd):
        if isinstance(n, (ast.Assign, ast.AnnAssign)):
            tg = n.targets[0] if isinstance(n, ast.Assign) else n.target
            if isinstance(tg, ast.Name) and tg.id == dv and isinstance(n.value, ast.Dict):
                for k, v in zip(n.value.keys, n.value.values):
                    if isinstance(k, ast.Constant):
                        written[k.value] = (norm(v), _atoms(p, sd, n), n)
            if isinstance(tg, ast.Subscript) and isinstance(tg.value, ast.Name) and tg.value.id == dv and isinstance(tg.slice, ast.Constant):
                written[tg.slice.value] = (norm(n.value), _atoms(p, sd, n), n)
    read: dict[str, tuple[str, list[str], ast.AST]] = {}
    sparam = [a for a in ld.params if a not in ('self', 'compute_inverses')][0]
    for n in p.nodes(ld):
        if isinstance(n, ast.Assign) and len(n.targets) == 1 and isinstance(n.value, ast.Subscript) and norm(n.value.value) == sparam and isinstance(n.value.slice, ast.Constant):
            read[n.value.slice.value] = (norm(n.targets[0]), _atoms(p, ld, n), n)
    for key in ['steps'] + names:
        w = written.get(key)
        r = read.get(key)
        if key == 'steps':
            okw = bool(w) and w[0] in ('self.steps', 'self._steps') and not w[1]
            okr = bool(r) and r[0] == 'self._steps' and not r[1]
        else:
            okw = bool(w) and w[0] == f'self._{key}' and w[1] == [f'not callable(self._{key})']
            okr = bool(r) and r[0] == f'self._{key}' and r[1] == [f"'{key}' in {sparam}"]
        ctx.check(okw, 'TAB-SD', sd, f"state_dict['{key}'] <- {w[0] if w else None} {w[1] if w else ''}", f'write {key}',
                  f"state_dict() saves key '{key}' from {w[0] if w else 'nothing'} under {w[1] if w else '-'}; expected the backing field self._{key if key != 'steps' else 'steps'}"
                  + ('' if key == 'steps' else ' exactly when it is not callable'), w[2] if w else sd.node)
        ctx.check(okr, 'TAB-SD', ld, f"{r[0] if r else None} <- state_dict['{key}'] {r[1] if r else ''}", f'read {key}',
                  f"load_state_dict() restores key '{key}' into {r[0] if r else 'nothing'} under {r[1] if r else '-'}; expected self._{key if key != 'steps' else 'steps'}"
                  + ('' if key == 'steps' else f" exactly when '{key}' in the state"), r[2] if r else ld.node)
    extra_w = set(written) - set(['steps', 'layers'] + names)
    extra_r = set(read) - set(['steps'] + names)
    ctx.check(not extra_w and not extra_r, 'TAB-SD', sd, 'no key outside {steps, hyper-parameters, layers}', 'extra keys',
              f'checkpoint key(s) without a counterpart: written {sorted(extra_w)}, read {sorted(extra_r)}', sd.node)
    # layers entry: {name: layer.state_dict() for name, layer in self._layers.values()} under include_factors
    w = written.get('layers')
    okl = bool(w) and 'layer.state_dict()' in w[0] and 'self._layers.values()' in w[0] and w[1] == ['include_factors'] and w[0].startswith('{name: layer.state_dict()')
    ctx.check(okl, 'TAB-SD', sd, "state_dict['layers'] = {name: layer.state_dict() ...} under include_factors", 'write layers',
              f"state_dict() builds 'layers' as {w[0] if w else None} under {w[1] if w else None}; expected one entry per registered layer keyed by its name", w[2] if w else sd.node)
    # DOM-COUNT
    raises = [n for n in p.nodes(ld) if isinstance(n, ast.Raise)]
    cnt = None
    for r_ in raises:
        atoms = [a for g in flow.enclosing_guards(p, ld, r_) for a in conjuncts(g.test, g.polarity)]
        for a, pol in atoms:
            t = norm(a)
            if pol and isinstance(a, ast.Compare) and isinstance(a.ops[0], ast.NotEq) and f"len({sparam}['layers'])" in t and 'len(self._layers)' in t:
                cnt = r_
    loads = [(c, m) for c, m in PR.layer_calls(ctx, ld) if m == 'load_state_dict']
    ctx.check(cnt is not None and all(cnt.lineno < c.lineno for c, _ in loads) and bool(loads), 'DOM-COUNT', ld, 'layer-count mismatch raises before any layer is loaded', 'count check',
              'load_state_dict() does not reject a state with a different number of layers before loading layers', cnt or ld.node)
    for c, _m in loads:
        atoms = PR.guard_atoms_plain(ctx, ld, c)
        lv, nv = layer_binding(ctx, ld, c)
        ok = False
        # enclosing items() loop over the saved layers
        mod = p.modules[ld.module]
        n: ast.AST | None = c
        key_var = val_var = None
        while n is not None and n is not ld.node:
            par = mod.parents.get(id(n))
            if isinstance(par, ast.For) and isinstance(par.target, ast.Tuple) and len(par.target.elts) == 2 and f"{sparam}['layers'].items()" in norm(par.iter):
                key_var, val_var = [e.id if isinstance(e, ast.Name) else None for e in par.target.elts]
            n = par
        for a, pol, via in atoms:
            if isinstance(a, ast.Compare) and isinstance(a.ops[0], ast.Eq) and pol and {norm(a.left), norm(a.comparators[0])} == {key_var, nv}:
                ok = True
        ok = ok and len(c.args) == 1 and norm(c.args[0]) == val_var
        ctx.check(ok, 'DOM-COUNT', ld, f'layer state {val_var} loaded into the layer whose name equals its key {key_var}', norm(c),
                  f'load_state_dict(): {norm(c)} is not tied to the saved entry with the same layer name (key {key_var}, value {val_var}, layer name {nv})', c)
    # TAB-LAYER
    lsd = p.get_func('layers.base.KFACBaseLayer.state_dict')
    lld = p.get_func('layers.base.KFACBaseLayer.load_state_dict')
    rets = [n for n in p.nodes(lsd) if isinstance(n, ast.Return)]
    okd = len(rets) == 1 and isinstance(rets[0].value, ast.Dict) and {k.value: norm(v) for k, v in zip(rets[0].value.keys, rets[0].value.values) if isinstance(k, ast.Constant)} == {'A': 'self.a_factor', 'G': 'self.g_factor'}
    ctx.check(okd, 'TAB-LAYER', lsd, "layer.state_dict() = {'A': self.a_factor, 'G': self.g_factor}", 'layer state',
              f"KFACBaseLayer.state_dict() returns {norm(rets[0].value) if rets else None}; expected {{'A': self.a_factor, 'G': self.g_factor}} through the awaiting accessors", lsd.node)
    lparam = [a for a in lld.params if a != 'self'][0]
    got = {}
    for n in p.nodes(lld):
        if isinstance(n, ast.Assign) and len(n.targets) == 1 and isinstance(n.targets[0], ast.Attribute):
            for sub in ast.walk(n.value):
                if isinstance(sub, ast.Subscript) and norm(sub.value) == lparam and isinstance(sub.slice, ast.Constant):
                    got[sub.slice.value] = (norm(n.targets[0]), norm(n.value), n)
    for key, fld in (('A', 'self.a_factor'), ('G', 'self.g_factor')):
        g = got.get(key)
        ok = bool(g) and g[0] == fld and g[1] in (f"{lparam}['{key}'].to(device)", f"{lparam}['{key}']", f"{lparam}['{key}'].to(self.module.device)")
        ctx.check(ok, 'TAB-LAYER', lld, f"{fld} <- state['{key}']", f'restore {key}',
                  f"KFACBaseLayer.load_state_dict() restores key '{key}' as {g[0] + ' = ' + g[1] if g else 'nothing'}; expected {fld} = state['{key}'] moved to the module device", g[2] if g else lld.node)


def future_slots(ctx: Ctx) -> dict[str, list[tuple[str, Func, Func | None]]]:
    """class fullname -> [(slot, getter, setter)] for properties whose getter awaits a Future."""
    p = ctx.prog
    out: dict[str, list] = {}
    for c in p.subclasses(LAYER):
        for n, g in c.getters.items():
            txt = ' '.join(norm(s) for s in g.body)
            if 'Future' in txt or '.wait()' in txt or n in c.setters:
                out.setdefault(c.fullname, []).append((n, g, c.setters.get(n)))
    return out


def rule_ts_fut(ctx: Ctx) -> None:
    p = ctx.prog
    p.family = None
    ctx.rule('TS-FUT', 'every future slot: private field touched only by __init__ and its own property; the getter waits on a Future, stores the result back and returns it', floor=18)
    ctx.rule('TS-FUT-USED', 'the result of every tdc.allreduce / broadcast / allreduce_bucketed call in the layers is stored into a future slot', floor=10)
    slots = future_slots(ctx)
    n_slots = 0
    for cname, lst in slots.items():
        for slot, g, s in lst:
            n_slots += 1
            priv = '_' + slot
            # getter shape
            body = [st for st in g.body if not (isinstance(st, ast.Expr) and isinstance(st.value, ast.Constant))]
            ok = (len(body) == 2 and isinstance(body[0], ast.If) and not body[0].orelse
                  and norm(body[0].test) == f'isinstance(self.{priv}, Future)'
                  and len(body[0].body) == 1 and isinstance(body[0].body[0], ast.Assign)
                  and norm(body[0].body[0].targets[0]) == f'self.{priv}'
                  and norm(body[0].body[0].value) in (f'cast(torch.Tensor, self.{priv}.wait())', f'self.{priv}.wait()')
                  and isinstance(body[1], ast.Return) and norm(body[1].value) == f'self.{priv}')
            ctx.check(ok, 'TS-FUT', g, f'{slot}: getter awaits, stores back, returns', slot,
                      f'property {slot} does not have the awaiting-accessor form (wait on Future, store result into self.{priv}, return self.{priv}): a pending communication result could be used as a tensor or waited twice', g.node)
            if s is not None:
                sb = [st for st in s.body if not (isinstance(st, ast.Expr) and isinstance(st.value, ast.Constant))]
                oks = len(sb) == 1 and isinstance(sb[0], ast.Assign) and norm(sb[0].targets[0]) == f'self.{priv}' and norm(sb[0].value) == s.params[1]
                ctx.check(oks, 'TS-FUT', s, f'{slot}: setter stores its value', slot, f'setter of {slot} does not simply store its argument into self.{priv}', s.node)
    # private field access
    privs = {'_' + slot for lst in slots.values() for slot, _g, _s in lst}
    for f in p.functions():
        for n in p.nodes(f):
            if isinstance(n, ast.Attribute) and n.attr in privs:
                recv = p.receiver_classes(f, n.value)
                if not any(rc in p.classes and p.is_subclass(rc, LAYER) for rc in recv):
                    continue
                ok = f.name == '__init__' or (f.kind in ('getter', 'setter') and f.name == n.attr[1:])
                if not ok:
                    ctx.violate('TS-FUT', f, norm(p.parent(f.module, n) or n)[:100], f'{f.short} accesses the raw slot {n.attr} directly: a pending Future would not be awaited (use the property)', n)
    # results of communication calls are stored into slots
    all_slots = {slot for lst in slots.values() for slot, _g, _s in lst}
    for f in p.functions():
        if not (f.cls and p.is_subclass(f.cls, LAYER)):
            continue
        for c in p.calls_in(f):
            ts = p.resolve_call(f, c)
            if not any(t.kind == 'func' and t.ref.cls == 'kfac.distributed.TorchDistributedCommunicator' and t.ref.name in ('allreduce', 'broadcast', 'allreduce_bucketed') for t in ts):  # type: ignore[union-attr]
                continue
            par = p.parent(f.module, c)
            ok = isinstance(par, ast.Assign) and len(par.targets) == 1 and isinstance(par.targets[0], ast.Attribute) \
                and isinstance(par.targets[0].value, ast.Name) and par.targets[0].value.id == 'self' and par.targets[0].attr in all_slots
            tensor = c.args[0] if c.args else kwarg(c, 'tensor')
            same = ok and tensor is not None and norm(tensor) == norm(par.targets[0])  # type: ignore[union-attr]
            ctx.check(bool(same), 'TS-FUT-USED', f, f'{norm(par.targets[0]) if ok else "?"} = {norm(c.func)}({norm(tensor) if tensor is not None else ""}, ...)', norm(c)[:120],
                      f'{f.short}: the future returned by {norm(c.func)}({norm(tensor) if tensor is not None else ""}) is not stored back into the slot it communicates '
                      f'({norm(par)[:80] if par is not None else ""}): the communicated value would be lost or another slot overwritten', c)


def callback_worlds(p, f) -> dict:  # noqa: ANN001
    """The completion callback of a communicator method evaluated in the four worlds (average, symmetric):
    world -> (canonical value with the future's payload written VALUE, return node)."""
    from kfv import symexec
    from kfv.terms import Facts
    inner = [h for h in p.funcs.values() if h.parent is f and h.kind == 'nested' and not isinstance(h.node, ast.Lambda)]
    # the callbacks in the order they are chained with .then() on the way to the returned future
    thens = [n for n in p.nodes(f) if isinstance(n, ast.Call) and isinstance(n.func, ast.Attribute) and n.func.attr == 'then' and len(n.args) == 1
             and isinstance(n.args[0], ast.Name) and any(h.name == n.args[0].id for h in inner)]
    thens.sort(key=lambda n: (getattr(n, '_kfv_line', n.lineno), n.col_offset))
    chain = [next(h for h in inner if h.name == n.args[0].id) for n in thens]
    if not chain or len(chain) != len(inner):
        raise AnalysisIncomplete(f'{f.short}: expected one nested callback')
    out = {}
    # locals of the enclosing method that hold a tensor's shape are never None (A3)
    never_none = {norm(n.targets[0]) for n in p.nodes(f) if isinstance(n, ast.Assign) and len(n.targets) == 1 and isinstance(n.targets[0], ast.Name)
                  and ((isinstance(n.value, ast.Call) and isinstance(n.value.func, ast.Attribute) and n.value.func.attr == 'size' and not n.value.args)
                       or (isinstance(n.value, ast.Attribute) and n.value.attr == 'shape'))}
    for avg in (True, False):
        for sym in (True, False):
            res, last = 'VALUE', None
            for h in chain:
                prm = h.params[0] if h.params else 'future_'
                cb = symexec.SymCB(lambda c: None, None, None, None, Facts({}, (lambda t: False if t in never_none else None), {'average': avg, 'symmetric': sym}))
                _fin, exits = symexec.run(h, cb, {})
                rets = [(s_, r) for s_, r in exits if isinstance(r, ast.Return) and r.value is not None]
                if len(rets) != 1:
                    raise AnalysisIncomplete(f'{h.short}: {len(rets)} return paths for average={avg}, symmetric={sym}')
                got = cb.value(rets[0][0], rets[0][1].value).canon()
                got = got.replace('get_world_size(group=group)', 'get_world_size(group)')      # keyword spelling of the same call
                got = got.replace(f'{prm}.value()[0]', 'VALUE[0]' if res != 'VALUE' else 'VALUE').replace(f'{prm}.value()', 'VALUE')
                if res != 'VALUE' and 'VALUE[0]' in got:
                    raise AnalysisIncomplete(f'{h.short}: a chained callback unpacks its input again')
                res = got.replace('VALUE', res)
                last = rets[0][1]
            out[(avg, sym)] = (res, last)
    return out


def rule_aff_avg(ctx: Ctx) -> None:
    p = ctx.prog
    p.family = None
    ctx.rule('AFF-AVG', 'factor reductions pass average=True; in every tdc variant the divisor is get_world_size(<the group communicated on>)', floor=4)
    for m in ('reduce_a_factor', 'reduce_g_factor'):
        f = p.get_func(f'layers.base.KFACBaseLayer.{m}')
        for c in p.calls_in(f):
            ts = p.resolve_call(f, c)
            if any(t.kind == 'func' and t.ref.name in ('allreduce', 'allreduce_bucketed') and t.ref.cls and t.ref.cls.endswith('TorchDistributedCommunicator') for t in ts):  # type: ignore[union-attr]
                a = kwarg(c, 'average')
                ctx.check(isinstance(a, ast.Constant) and a.value is True, 'AFF-AVG', f, f'{m}: average=True', norm(c)[:120],
                          f'{m}: the factor allreduce is not averaged (average={norm(a) if a is not None else "<default False>"}): factors would scale with the world size', c)
                g = kwarg(c, 'group')
                ctx.check(g is not None and norm(g) == 'group', 'AFF-AVG', f, f'{m}: reduces over its group parameter', norm(c)[:120],
                          f'{m}: the allreduce does not use the group it was given (group={norm(g) if g is not None else "<default>"})', c)
    # the callbacks, evaluated for every valuation of (average, symmetric): value / size of the group communicated on
    # exactly when average, whatever the value of symmetric (scaling commutes with the triangular refill)
    from kfv import symexec
    from kfv.terms import Facts
    from kfv.terms import Poly
    for m in ('allreduce', 'allreduce_bucketed'):
        f = p.get_func(f'distributed.TorchDistributedCommunicator.{m}')
        worlds = callback_worlds(p, f)
        for (avg, sym), (got, retnode) in sorted(worlds.items(), reverse=True):
            V = Poly.atom('VALUE')
            W = Poly.atom('get_world_size(group)').inverse()
            scaled = (W * V) if avg else V
            want = set()
            if sym:
                want.add(Poly.atom(f'fill_triu(shape,{scaled.canon()})').canon())
                if avg:
                    want.add((W * Poly.atom(f'fill_triu(shape,{V.canon()})')).canon())
            else:
                want.add(scaled.canon())
            h = p._func_of_node.get(id(retnode)) if hasattr(p, '_func_of_node') else None
            ctx.check(got in want, 'AFF-AVG', f, f'{m}: average={avg}, symmetric={sym} -> {got}', f'{m} average={avg} symmetric={sym}',
                      f'{m}: for average={avg}, symmetric={sym} the future resolves to {got}; specified {sorted(want)[0]} '
                      '(divide by the size of the group communicated on exactly when average, refill exactly when symmetric)', retnode)


def rule_enum_strat(ctx: Ctx) -> None:
    p = ctx.prog
    ctx.rule('ENUM-STRAT', 'DistributedStrategy <-> gradient-worker fraction: COMM_OPT=1, HYBRID_OPT=1/2, MEM_OPT=1/world_size, exhaustive', floor=3)
    f = p.get_func('preconditioner.KFACPreconditioner.__init__')
    enum = p.get_class('enums.DistributedStrategy')
    members = [t.id for st in enum.node.body if isinstance(st, ast.Assign) for t in st.targets if isinstance(t, ast.Name)]
    want = {'COMM_OPT': {'1.0', '1'}, 'HYBRID_OPT': {'0.5', '1 / 2', '1.0 / 2'}, 'MEM_OPT': {'1.0 / size', '1 / size', '1.0 / get_world_size()', '1 / get_world_size()'}}
    got = {}
    for n in p.nodes(f):
        if isinstance(n, ast.Assign) and len(n.targets) == 1 and norm(n.targets[0]) == 'grad_worker_fraction':
            for g in flow.enclosing_guards(p, f, n):
                t = norm(g.test)
                # the variable compared with the enum member: the strategy argument itself or a local copy of it
                var = None
                if isinstance(g.test, ast.Compare) and len(g.test.ops) == 1 and isinstance(g.test.ops[0], (ast.Eq, ast.Is)) and isinstance(g.test.left, ast.Name):
                    v0 = g.test.left.id
                    ds = p.local_defs(f, v0)
                    if v0 in ('distributed_strategy', 'grad_worker_fraction') or (len(ds) == 1 and isinstance(ds[0], ast.Name) and ds[0].id == 'grad_worker_fraction'):
                        var = v0
                for mname in members:
                    if g.polarity and var is not None and t in (f'{var} == DistributedStrategy.{mname}', f'{var} is DistributedStrategy.{mname}'):
                        got[mname] = (norm(n.value), n)
    for mname in members:
        g = got.get(mname)
        ctx.check(bool(g) and g[0] in want.get(mname, set()), 'ENUM-STRAT', f, f'{mname} -> {g[0] if g else None}', mname,
                  f'DistributedStrategy.{mname} maps to fraction {g[0] if g else "nothing"}; expected one of {sorted(want.get(mname, []))}', g[1] if g else f.node)


def rule_aff_flags(ctx: Ctx) -> None:
    p = ctx.prog
    ctx.rule('AFF-FLAGS', 'broadcast_gradients() == (grad_workers < world_size); broadcast_inverses() == (grad_workers > 1)', floor=2)
    for m, want in (('broadcast_gradients', {'self.grad_workers < self.world_size', 'self.world_size > self.grad_workers'}),
                    ('broadcast_inverses', {'self.grad_workers > 1', '1 < self.grad_workers'})):
        f = p.get_func(f'assignment.KAISAAssignment.{m}')
        rets = [n for n in p.nodes(f) if isinstance(n, ast.Return)]
        ok = len(rets) == 1 and rets[0].value is not None and norm(rets[0].value) in want
        ctx.check(ok, 'AFF-FLAGS', f, f'{m} = {norm(rets[0].value) if rets else None}', m,
                  f'KAISAAssignment.{m}() returns {norm(rets[0].value) if rets and rets[0].value is not None else None}; specified: {sorted(want)[0]}', f.node)


def rule_exh_mem(ctx: Ctx) -> None:
    """EXH-MEM by evaluation: memory_usage() is evaluated symbolically in two worlds (every slot set / every slot
    None).  With every slot set the reported numbers must add up to sum(slot.nelement() * slot.element_size()) with
    each slot counted exactly once; with every slot None no slot may be dereferenced."""
    from kfv import symexec
    from kfv.terms import Facts
    from kfv.terms import Poly
    p = ctx.prog
    p.family = None
    ctx.rule('EXH-MEM', 'every tensor slot of the layer classes is counted exactly once in memory_usage() as nelement()*element_size() and guarded against None (exception: the transient _grad)', floor=11)

    def track(n: ast.AST) -> str | None:
        if isinstance(n, ast.Name):
            return n.id
        if isinstance(n, ast.Subscript) and isinstance(n.value, ast.Name) and isinstance(n.slice, ast.Constant):
            return norm(n)
        return None

    def reported(mu, none: bool) -> Poly | None:  # noqa: ANN001
        cb = symexec.SymCB(lambda c: None, track, None, None, Facts({}, lambda _t: none))
        _final, exits = symexec.run(mu, cb, {})
        rets = [(s_, r) for s_, r in exits if isinstance(r, ast.Return) and r.value is not None]
        if len(rets) != 1:
            return None
        s_, r = rets[0]
        tot = Poly.const(0)
        if isinstance(r.value, ast.Dict):
            for v in r.value.values:
                tot = tot + cb.value(s_, v)
        elif isinstance(r.value, ast.Name):
            for k, v in s_.env:
                if k.startswith(r.value.id + '['):
                    tot = tot + v
            base = s_.get(r.value.id)
            if base is not None and isinstance(base, Poly):
                tot = tot + Poly.atom('base:' + base.canon())
        else:
            return None
        return tot

    def coeff(tot: Poly, acc: str) -> object:
        names = ({f'{acc}.nelement()', f'{acc}.element_size()'}, {f'{acc}.numel()', f'{acc}.element_size()'})
        c = 0
        for k, v in tot.t.items():
            if {a for a, _e in k} in names and all(e == 1 for _a, e in k):
                c += v
        return c

    for c in p.subclasses(LAYER):
        init = c.methods.get('__init__')
        if init is None:
            continue
        slots = []
        for n in p.nodes(init):
            ann = n.annotation if isinstance(n, ast.AnnAssign) else getattr(n, '_kfv_ann', None)
            tg = n.target if isinstance(n, ast.AnnAssign) else (n.targets[0] if isinstance(n, ast.Assign) else None)
            if ann is not None and isinstance(tg, ast.Attribute) and 'Tensor' in norm(ann):
                slots.append(tg.attr)
        if not slots:
            continue
        mu = c.methods.get('memory_usage')
        if mu is None:
            ctx.violate('EXH-MEM', init, c.name, f'{c.name} declares tensor slots {slots} but has no memory_usage()', c.node)
            continue
        tot_set = reported(mu, False)
        tot_none = reported(mu, True)
        if tot_set is None or tot_none is None:
            raise AnalysisIncomplete(f'{mu.short}: memory_usage() does not return one dict built from per-key sizes')
        for s in slots:
            if s == '_grad':
                continue
            pub = s.lstrip('_')
            acc = f'self.{pub}' if pub in c.getters else f'self.{s}'
            k = coeff(tot_set, acc)
            deref = any(a.startswith(acc + '.') for key in tot_none.t for a, _e in key)
            ctx.check(k == 1 and not deref, 'EXH-MEM', mu, f'{c.name}.{s} counted once, None-safe', f'{c.name}.{s}',
                      f'{c.name}.memory_usage() counts slot {s} {k} time(s) as {acc}.nelement() * {acc}.element_size()'
                      + (' and dereferences it when it is None' if deref else '') + ': reported bytes would not equal the tensors held', mu.node)
        if c.fullname != LAYER:
            txt = ' '.join(norm(st) for st in mu.body)
            ctx.check('super().memory_usage()' in tot_set.canon() or 'super().memory_usage()' in txt, 'EXH-MEM', mu, f'{c.name}.memory_usage extends the base accounting', c.name,
                      f'{c.name}.memory_usage() does not include super().memory_usage() (factors and batch buffers)', mu.node)
    # the preconditioner sums all layers and all keys
    f = p.get_func(f'{BP}.memory_usage')
    ok = False
    for lp in [n for n in p.nodes(f) if isinstance(n, ast.For) and 'self._layers.values()' in norm(n.iter)]:
        lay = [x.id for x in ast.walk(lp.target) if isinstance(x, ast.Name)]
        for inner in [n for n in ast.walk(lp) if isinstance(n, ast.For) and n is not lp and isinstance(n.target, ast.Tuple) and len(n.target.elts) == 2]:
            it = norm(inner.iter)
            src = it[:-len('.items()')] if it.endswith('.items()') else None
            if src is None:
                continue
            if not any(src == f'{nm}.memory_usage()' for nm in lay):
                defs = [norm(n.value) for n in ast.walk(lp) if isinstance(n, ast.Assign) and norm(n.targets[0]) == src]
                if not any(d == f'{nm}.memory_usage()' for d in defs for nm in lay):
                    continue
            kv, vv = norm(inner.target.elts[0]), norm(inner.target.elts[1])
            for a_ in [n for n in ast.walk(inner) if isinstance(n, ast.AugAssign) and isinstance(n.op, ast.Add)]:
                if isinstance(a_.target, ast.Subscript) and norm(a_.target.slice) == kv and norm(a_.value) == vv and not flow.enclosing_guards(p, f, a_):
                    acc_d = norm(a_.target.value)
                    tot = [n for n in p.nodes(f) if isinstance(n, ast.Assign) and norm(n.targets[0]) == f"{acc_d}['total']" and norm(n.value) == f'sum({acc_d}.values())']
                    rets = [n for n in p.nodes(f) if isinstance(n, ast.Return) and n.value is not None]
                    if tot and rets and all(norm(r_.value) == acc_d for r_ in rets) and not flow.enclosing_guards(p, f, lp):
                        ok = True
    ctx.check(ok, 'EXH-MEM', f, 'preconditioner sums every key of every layer and a total', 'memory_usage',
              'BaseKFACPreconditioner.memory_usage() does not sum every key of every registered layer plus a total', f.node)


def rule_cfg_fwd(ctx: Ctx) -> None:
    """CFG-FWD: every option of the layer base class reaches every layer the preconditioner builds.
    For each keyword parameter K of KFACBaseLayer.__init__: (1) the preconditioner constructors put K into the
    keyword dict handed to register_modules, unconditionally, from their own option of the same name; (2) every
    layer subclass forwards K to super().__init__; (3) the base constructor stores it in self.K."""
    p = ctx.prog
    ctx.rule('CFG-FWD', 'every KFACBaseLayer option is forwarded unconditionally: preconditioner option -> layer kwargs -> subclass -> base field', floor=20)
    base = p.get_func(f'{LAYER_SHORT}.__init__')
    opts = [a.arg for a in base.node.args.kwonlyargs]
    if len(opts) < 5:
        raise AnalysisIncomplete(f'KFACBaseLayer.__init__ has keyword options {opts}; expected the six communication / dtype options')
    # (3) base stores
    stores = {norm(n.targets[0]): norm(n.value) for n in p.nodes(base) if isinstance(n, ast.Assign) and len(n.targets) == 1}
    for k in opts:
        ctx.check(stores.get(f'self.{k}') == k, 'CFG-FWD', base, f'self.{k} = {k}', f'base {k}',
                  f'KFACBaseLayer.__init__ stores {stores.get(f"self.{k}")} in self.{k}; the option {k} would be ignored', base.node)
    # (2) subclasses forward
    for c in p.subclasses(LAYER):
        init = c.methods.get('__init__')
        if init is None or c.fullname == LAYER:
            continue
        sup = [n for n in p.nodes(init) if isinstance(n, ast.Call) and norm(n.func) == 'super().__init__']
        if len(sup) != 1:
            raise AnalysisIncomplete(f'{c.name}.__init__: expected one super().__init__ call')
        kws = {k.arg: norm(k.value) for k in sup[0].keywords}
        star = any(k.arg is None and norm(k.value) in [a.arg for a in ([init.node.args.kwarg] if init.node.args.kwarg else [])] for k in sup[0].keywords)
        for k in opts:
            ok = kws.get(k) == k or (star and k not in kws and k not in init.params)
            ctx.check(ok, 'CFG-FWD', init, f'{c.name} forwards {k}', f'{c.name} {k}',
                      f'{c.name}.__init__ passes {k}={kws.get(k)} to the base constructor (star-forwarded: {star}); the option {k} given to the layer would be replaced or dropped', sup[0])
    # (1) preconditioners
    for owner in ('preconditioner.KFACPreconditioner.__init__', 'gpt_neox.preconditioner.GPTNeoXKFACPreconditioner.__init__'):
        f = p.get_func(owner)
        regs = [c for c in p.calls_in(f) if norm(c.func).endswith('register_modules')]
        if len(regs) != 1:
            raise AnalysisIncomplete(f'{owner}: expected one register_modules call')
        star = [norm(k.value) for k in regs[0].keywords if k.arg is None]
        direct = {k.arg: (norm(k.value), []) for k in regs[0].keywords if k.arg is not None}
        entries: dict[str, list[tuple[str, list]]] = {k: [v] for k, v in direct.items()}
        reg_guards = {(norm(a), pol) for g in flow.guards(p, f, regs[0]) for a, pol in conjuncts(g.test, g.polarity)}
        for dv in star:
            for n in p.nodes(f):
                if isinstance(n, ast.Assign) and len(n.targets) == 1:
                    gs = sorted({(norm(a), pol) for g in flow.guards(p, f, n) for a, pol in conjuncts(g.test, g.polarity)} - reg_guards)
                    tg = n.targets[0]
                    if norm(tg) == dv and isinstance(n.value, ast.Call) and norm(n.value.func) == 'dict':
                        for k in n.value.keywords:
                            if k.arg is not None:
                                entries.setdefault(k.arg, []).append((norm(k.value), gs))
                    elif norm(tg) == dv and isinstance(n.value, ast.Dict):
                        for k, v in zip(n.value.keys, n.value.values):
                            if isinstance(k, ast.Constant):
                                entries.setdefault(k.value, []).append((norm(v), gs))
                    elif isinstance(tg, ast.Subscript) and norm(tg.value) == dv and isinstance(tg.slice, ast.Constant):
                        entries.setdefault(tg.slice.value, []).append((norm(n.value), gs))
        for k in opts:
            es = entries.get(k, [])
            uncond = [e for e in es if not e[1]]
            ok = len(uncond) >= 1 and all(e[0] == f'self.{k}' for e in es)
            # or: set in every branch of the compute-method dispatch is not accepted (one more way to forget a branch)
            ctx.check(ok, 'CFG-FWD', f, f'{owner.split(".")[-2]}: layer option {k} = self.{k}, unconditional', f'{owner.split(".")[-2]} {k}',
                      f'{owner}: the layers are built with {k} from {es if es else "nothing"}; specified: {k}=self.{k} for every layer type '
                      f'(otherwise layers of some compute method silently use the default {k})', regs[0])
            # the option itself comes from the constructor argument
            src = [norm(n.value) for n in p.nodes(f) if isinstance(n, ast.Assign) and len(n.targets) == 1 and norm(n.targets[0]) == f'self.{k}']
            if k in f.params:
                ctx.check(src == [k], 'CFG-FWD', f, f'self.{k} = {k}', f'{owner.split(".")[-2]} self.{k}',
                          f'{owner}: self.{k} is set from {src}; the constructor argument {k} would not reach the layers', f.node)


def rule_excl_hook(ctx: Ctx) -> None:
    p = ctx.prog
    ctx.rule('EXCL-HOOK', 'hook-side and step-side factor updates have complementary guards on update_factors_in_hook (exactly one reduction per factor and factor step)', floor=6)
    flag = 'self._update_factors_in_hook'
    for fname, pol_want in (('_save_input', True), ('_save_grad_output', True), ('step', False)):
        f = p.get_func(f'{BP}.{fname}')
        for c, m in PR.layer_calls(ctx, f):
            if m in ('update_a_factor', 'update_g_factor', 'reduce_a_factor', 'reduce_g_factor'):
                pols = [pol for a, pol, via in PR.guard_atoms_plain(ctx, f, c) if norm(a) == flag]
                ctx.check(pols == [pol_want], 'EXCL-HOOK', f, f'{fname}: {m} under {"" if pol_want else "not "}update_factors_in_hook', norm(c)[:100],
                          f'{fname}: {norm(c.func)} must run exactly when update_factors_in_hook is {pol_want}; found guard polarities {pols}: a factor would be reduced twice or never', c)
    # exactly one reduce per factor per site group
    for fname in ('_save_input', '_save_grad_output', 'step'):
        f = p.get_func(f'{BP}.{fname}')
        ms = [m for _c, m in PR.layer_calls(ctx, f) if m.startswith('reduce_')]
        want = {'_save_input': ['reduce_a_factor'], '_save_grad_output': ['reduce_g_factor'], 'step': ['reduce_a_factor', 'reduce_g_factor']}[fname]
        ctx.check(sorted(ms) == sorted(want), 'EXCL-HOOK', f, f'{fname}: one reduction per factor {want}', fname,
                  f'{fname} issues factor reductions {ms}; expected exactly {want}', f.node)


def rule_enum_compute(ctx: Ctx) -> None:
    p = ctx.prog
    ctx.rule('ENUM-COMPUTE', 'ComputeMethod dispatch covers every member or raises; EIGEN -> KFACEigenLayer, INVERSE -> KFACInverseLayer', floor=2)
    f = p.get_func('preconditioner.KFACPreconditioner.__init__')
    got = {}
    for n in p.nodes(f):
        if isinstance(n, ast.Assign) and norm(n.targets[0]) == 'layer_type':
            for g in flow.enclosing_guards(p, f, n):
                if g.polarity and 'ComputeMethod.' in norm(g.test) and isinstance(g.test, ast.Compare):
                    got[norm(g.test).split('ComputeMethod.')[1]] = norm(n.value)
    ctx.check(got.get('EIGEN') == 'KFACEigenLayer', 'ENUM-COMPUTE', f, 'EIGEN -> KFACEigenLayer', 'EIGEN', f'ComputeMethod.EIGEN selects {got.get("EIGEN")}', f.node)
    ctx.check(got.get('INVERSE') == 'KFACInverseLayer', 'ENUM-COMPUTE', f, 'INVERSE -> KFACInverseLayer', 'INVERSE', f'ComputeMethod.INVERSE selects {got.get("INVERSE")}', f.node)
