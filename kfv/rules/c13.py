"""C13 — memory and communication placement follow the KAISA strategy."""
from __future__ import annotations

from kfv.core import Ctx
from kfv.rules import memo_rules as MEMO
from kfv.rules import role_rules as RO
from kfv.rules import tensor_rules as TR
from kfv.rules import coh_rules as C
from kfv.rules import precond_rules as R

TECHNIQUE = ('ownership (who-may-write) of second-order slots, role guards of compute/broadcast/precondition call sites, '
             'group-argument coherence, exhaustiveness of memory accounting over declared tensor slots, complementary hook/step guards; cache-coherence rule; configuration-forwarding rule (symmetry_aware etc. reach every layer type); packing flag of every communicated symmetric matrix')
EXPLANATION = (
    'Second-order slots are written only by compute_*_inv / broadcast_*_inv; in step() the former run only where '
    'get_rank()==inv_worker(name,X), the latter only under broadcast_inverses() and is_grad_worker(name) on '
    'grad_worker_group(name); gradients are broadcast on grad_receiver_group(name) under broadcast_gradients(); factors are '
    'reduced once per factor and factor step over factor_group(name,X).  The strategy flags are the specified comparisons. '
    'Every declared tensor slot is counted in memory_usage().  Byte counts as numbers are not decided. memory_usage() is evaluated symbolically in the all-set / all-None worlds (each slot counted exactly once, None-safe); every base-layer option is forwarded unconditionally (CFG-FWD); cached state is invalidated (MEMO-*).')

NOT_DECIDED = 'byte counts as numbers'


def run(ctx: Ctx) -> None:
    ctx.do(R.rule_own_so)
    ctx.do(R.rule_gates)
    ctx.do(C.rule_coh_src)
    ctx.do(C.rule_aff_flags)
    ctx.do(C.rule_exh_mem)
    ctx.do(C.rule_excl_hook)
    ctx.do(TR.rule_tt_comm)
    ctx.do(RO.rule_roles)
    ctx.do(MEMO.rule_memo)
    ctx.do(C.rule_cfg_fwd)
