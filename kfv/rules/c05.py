"""C05 — update intervals and hyper-parameter schedules are honoured over any history."""
from __future__ import annotations

from kfv.core import Ctx
from kfv.rules import memo_rules as MEMO
from kfv.rules import precond_rules as R
from kfv.rules import tensor_rules as TR

TECHNIQUE = ('guard (control-dependence) analysis of every factor / inverse / gradient effect in step() and the hooks with '
             'modulo gates in term normal form; symbolic evaluation of the step counter and of the hyper-parameter state '
             'at each second-order call; ownership (who-may-write) of the counter and of second-order slots; cache-coherence rule (lazily cached state / dirty-flag skips)')
EXPLANATION = (
    'For every call on a K-FAC layer in step(), _save_input and _save_grad_output the set of conditions it is '
    'control-dependent on is computed and its step-dependent part is normalised: factor effects must depend exactly on '
    'steps % factor_update_steps == 0, second-order refreshes exactly on steps % inv_update_steps == 0, the gradient '
    'phase on no step predicate.  The six hyper-parameter properties must return their own backing field, called with '
    'exactly the step counter.  The counter is written only by __init__/load_state_dict/step and a symbolic evaluation '
    'of step() shows old+1 at every normal exit, after its last use.  Second-order calls receive the damping property '
    'as evaluated in the state current at the call; second-order slots are written only by compute/broadcast methods, '
    'so between gates the most recent data is used.  Equality with a reference state machine on concrete histories is '
    'not decided (it follows from the decided clauses plus the numerical properties C01/C04). Lazily cached or skip-guarded second-order state must be keyed by damping and invalidated by every writer of its inputs (MEMO-*).')

NOT_DECIDED = 'equality with a reference state machine on concrete histories'


def run(ctx: Ctx) -> None:
    ctx.do(R.rule_gates)
    ctx.do(R.rule_sib_hp)
    ctx.do(R.rule_own_steps)
    ctx.do(R.rule_damparg, [f'{R.BP}.step', f'{R.BP}.load_state_dict', 'gpt_neox.preconditioner.GPTNeoXKFACPreconditioner.load_state_dict',
                         'gpt_neox.preconditioner.GPTNeoXKFACPreconditioner.load_factors_from_dir'])
    ctx.do(R.rule_own_so)
    ctx.do(MEMO.rule_memo)
    ctx.do(TR.rule_aff_factor)
    from kfv.rules import c19 as C19
    from kfv.rules import coh_rules as CO
    ctx.do(C19.rule_scheduler)
    ctx.do(CO.rule_tab_sd)
