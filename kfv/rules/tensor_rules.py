"""Rules decided with the abstract tensor interpreter (E3/E5): C01, C04, C07, C10, C11, C15, parts of C02/C13."""
from __future__ import annotations

import ast
from dataclasses import replace
from typing import Any

from kfv import tensors as T
from kfv.core import AnalysisIncomplete
from kfv.core import Ctx
from kfv.model import Func
from kfv.model import norm
from kfv.tensors import DT
from kfv.tensors import NONE
from kfv.tensors import Interp
from kfv.tensors import ObjV
from kfv.tensors import SV
from kfv.tensors import TV

GAMMA = (('gamma', 1),)
LA = (('lamA', 1),)
LG = (('lamG', 1),)
WANT_UNIT = (('gamma', 1), ('lamA', -1), ('lamG', -1))
EIG = 'kfac.layers.eigen.KFACEigenLayer'
INV = 'kfac.layers.inverse.KFACInverseLayer'
GPT = 'kfac.gpt_neox.layer.GPTNeoXKFACEigenLayer'
BASE = 'kfac.layers.base.KFACBaseLayer'
DAMP = SV((), 'damping', 'damping')


def layer_oracle(it: Interp, f: Func, node: ast.AST, s: Any) -> Any:
    t = norm(node)
    if t == 'self.module.get_grad()':
        return TV(('G', 'A'), GAMMA, 'grad', frozenset(), frozenset({'param.grad'}), None, (), '')
    if t == 'self.inv_dtype':
        return DT('inv')
    if t == 'self.factor_dtype':
        return DT('factor')
    if t in ('torch.float32', 'torch.float'):
        return ObjV('torch.float32')
    if t == 'self.tdc':
        return ObjV('tdc')
    if t in ('self.symmetry_aware', 'self.symmetric_factors and self.symmetry_aware'):
        return SV((), t, 'flag')
    return None


def base_slots(cls: str, extra: dict | None = None) -> dict:
    sl = {'__class__': ObjV(cls),
          'a_factor': TV(('A', 'A'), LA, 'factor', frozenset({'sym'}), frozenset({'slot:a_factor'})),
          'g_factor': TV(('G', 'G'), LG, 'factor', frozenset({'sym'}), frozenset({'slot:g_factor'})),
          'grad': NONE, 'qa': NONE, 'qg': NONE, 'da': NONE, 'dg': NONE, 'dgda': NONE, 'a_inv': NONE, 'g_inv': NONE}
    sl.update(extra or {})
    return sl


def run_methods(ctx: Ctx, cls: str, methods: list[str], flags: dict, slots: dict | None = None, oracle: Any = layer_oracle) -> tuple[Interp, dict | None]:
    p = ctx.prog
    p.family = None
    it = Interp(p, flags, oracle)
    it.concrete = [cls]
    sl = dict(slots) if slots is not None else base_slots(cls)
    for m in methods:
        f = p.lookup_method(cls, m)
        if f is None:
            raise AnalysisIncomplete(f'{cls} has no method {m}')
        args = {'self': ObjV('self')}
        if 'damping' in f.params:
            args['damping'] = DAMP
        r, fin = it.call_function(f, args, sl)
        if fin is None:
            return it, None
        sl = dict(fin.slots)
    return it, sl


def _report_all(ctx: Ctx, rid: str, it: Interp, tag: str) -> int:
    n = 0
    seen = set()
    for r in it.reports:
        k = (r.func.qualname, getattr(r.node, 'lineno', 0), r.msg)
        if k in seen:
            continue
        seen.add(k)
        n += 1
        ctx.violate(rid, r.func, norm(r.node)[:120], f'[{tag}] {r.msg}', r.node)
    return n


def _incomplete(it: Interp, where: str, only: tuple[str, ...] = ()) -> None:
    unk = [(f.short, getattr(n, 'lineno', 0), why) for f, n, why in it.unknown if not only or any(f.short.endswith(o) for o in only)]
    if unk:
        raise AnalysisIncomplete(f'{where}: operator outside the modelled vocabulary: {unk[:4]}')


# --------------------------------------------------------------------------- C01

def rule_tt_solve(ctx: Ctx) -> None:
    """TT-EIG / TT-INV / TT-DAMP / TT-PSD / TT-UNIT / TT-DTYPE / SIB-PREDIV."""
    ctx.assumptions.add('A3')
    ctx.rule('TT-EIG', 'eigen method type-checks over named index spaces: Q_G^T D Q_A in eigen coordinates, result Q_G (.) Q_A^T over (G, A)', floor=2)
    ctx.rule('TT-INV', 'inverse method: inv() only of damped factors; G^-1 D A^-1 over (G, A)', floor=1)
    ctx.rule('TT-DAMP', 'the damping parameter enters at the specified site: eigen — added to the (eG, eA) product of spectra; inverse — damping*identity added to each factor', floor=3)
    ctx.rule('TT-PSD', 'eigenvalues that reach a denominator were clamped at zero', floor=2)
    ctx.rule('TT-UNIT', 'the preconditioned gradient has unit gradient / (spectrum of G * spectrum of A): both inverses applied exactly once', floor=3)
    ctx.rule('TT-DTYPE', 'the stored preconditioned gradient has the dtype of the module gradient captured before the cast to the inverse dtype', floor=3)
    ctx.rule('SIB-PREDIV', 'pre-divided and on-the-fly eigenvalue paths produce the same typed result', floor=1)
    results = {}
    for tag, cls, flags in (('eigen', EIG, {'self.symmetric_factors': True, 'self.prediv_eigenvalues': False}),
                            ('eigen+prediv', EIG, {'self.symmetric_factors': True, 'self.prediv_eigenvalues': True}),
                            ('inverse', INV, {'self.symmetric_factors': True})):
        it, sl = run_methods(ctx, cls, ['compute_a_inv', 'compute_g_inv', 'preconditioned_grad'], flags)
        rid = 'TT-INV' if tag == 'inverse' else 'TT-EIG'
        nerr = _report_all(ctx, rid, it, tag)
        if sl is None:
            ctx.violate(rid, ctx.prog.lookup_method(cls, 'preconditioned_grad'), tag, f'[{tag}] no normal path through compute_a_inv / compute_g_inv / preconditioned_grad with the second-order data just computed', None)
            continue
        _incomplete(it, f'{cls} [{tag}]')
        g = sl.get('grad')
        pg = ctx.prog.lookup_method(cls, 'preconditioned_grad')
        results[tag] = g
        if not isinstance(g, TV):
            ctx.violate(rid, pg, tag, f'[{tag}] preconditioned_grad leaves the grad slot as {g}', pg.node)
            continue
        if nerr == 0:
            ctx.check(g.axes == ('G', 'A'), rid, pg, f'[{tag}] result over (G, A): {g}', f'{tag} axes', f'[{tag}] the preconditioned gradient is over {T.axes_str(g.axes)}, not (G, A)', pg.node)
        ctx.check(g.unit == WANT_UNIT, 'TT-UNIT', pg, f'[{tag}] unit {T.ustr(g.unit)}', f'{tag} unit',
                  f'[{tag}] the preconditioned gradient has unit {T.ustr(g.unit)}; specified gamma/(lamG*lamA): each factor must be inverted exactly once '
                  '(divide by the spectral product / multiply by both inverses)', pg.node)
        ctx.check(g.dtype == 'grad', 'TT-DTYPE', pg, f'[{tag}] dtype token {g.dtype}', f'{tag} dtype',
                  f'[{tag}] the preconditioned gradient is stored with dtype token `{g.dtype}`, not the dtype of the module gradient (captured before the cast to the inverse dtype)', pg.node)
        damps = [ev for ev in it.events if ev[0] == 'damp']
        undamped = [ev for ev in it.events if ev[0] == 'undamped-division']
        if tag.startswith('eigen'):
            site = [ev for ev in damps if ev[3][0] == 'scalar' and ev[3][1].axes == (('eig', 'G'), ('eig', 'A')) and ev[3][1].unit == (('lamA', 1), ('lamG', 1))]
            other = [ev for ev in damps if ev not in site]
            ctx.check(len(site) >= 1 and not other and not undamped, 'TT-DAMP', pg, f'[{tag}] damping added to outer(dg, da) over (eG, eA)', f'{tag} damping site',
                      f'[{tag}] damping must be added to the (eG, eA) product of the spectra before dividing (G V A + damping V = D); found damping sites '
                      f'{[(str(ev[3][1]), getattr(ev[2], "lineno", 0)) for ev in damps]} and undamped divisions at lines {[getattr(ev[2], "lineno", 0) for ev in undamped]}',
                      (other or undamped or damps or [(0, 0, pg.node)])[0][2])
            for ev in site:
                ctx.check('nonneg' in ev[3][1].quals, 'TT-PSD', ev[1], f'[{tag}] spectra clamped at 0 before damping', f'{tag} clamp',
                          f'[{tag}] the eigenvalue product that is damped and inverted is built from eigenvalues not clamped at zero (factors are taken positive semi-definite): {ev[3][1]}', ev[2])
        else:
            site = [ev for ev in damps if ev[3][0] == 'identity']
            spaces = sorted(str(ev[3][1].axes) for ev in site)
            ctx.check(spaces == ["('A', 'A')", "('G', 'G')"] and len(damps) == 2, 'TT-DAMP', pg, '[inverse] damping*I added to A and to G', 'inverse damping site',
                      f'[inverse] damping*identity must be added once to each factor ((G + dI) V (A + dI) = D); found {[(ev[3][0], str(ev[3][1])) for ev in damps]}', pg.node)
            for ev in [e_ for e_ in it.events if e_[0] == 'inv']:
                ctx.check('damped' in ev[3].quals, 'TT-INV', ev[1], f'[inverse] inv of a damped factor {ev[3]}', f'inv {ev[3].axes}',
                          f'[inverse] torch.linalg.inv is applied to an undamped factor {ev[3]}', ev[2])
    if 'eigen' in results and 'eigen+prediv' in results:
        a, b = results['eigen'], results['eigen+prediv']
        same = isinstance(a, TV) and isinstance(b, TV) and (a.axes, a.unit, a.dtype) == (b.axes, b.unit, b.dtype)
        ctx.check(same, 'SIB-PREDIV', ctx.prog.lookup_method(EIG, 'preconditioned_grad'), f'prediv and non-prediv results agree: {a}', 'prediv siblings',
                  f'pre-divided path yields {b}, on-the-fly path yields {a}', None)


def rule_own_writeback(ctx: Ctx) -> None:
    p = ctx.prog
    ctx.rule('OWN-WRITEBACK', 'update_grad multiplies by scale when given, writes the result back once through module.set_grad and clears the slot on every exit', floor=2)
    f = p.get_func('layers.base.KFACBaseLayer.update_grad')
    for given in (True, False):
        calls: list = []

        def oracle(it: Interp, fn: Func, node: ast.AST, s: Any) -> Any:
            if isinstance(node, ast.Call) and norm(node.func) == 'self.module.set_grad':
                v, _ = T._CB(it, fn).ev(node.args[0], s, True) if node.args else (None, s)
                calls.append((node, v))
                return NONE
            return layer_oracle(it, fn, node, s)
        it = Interp(p, {}, oracle)
        sl = base_slots(BASE, {'grad': TV(('G', 'A'), WANT_UNIT, 'grad', frozenset(), frozenset())})
        r, fin = it.call_function(f, {'self': ObjV('self'), 'scale': SV((), 'scale', 'num') if given else NONE}, sl)
        ok = fin is not None and isinstance(dict(fin.slots).get('grad'), T.NoneV) and len(calls) == 1 and isinstance(calls[0][1], TV) and calls[0][1].axes == ('G', 'A')
        if ok and given:
            ok = ('scale', 1) in calls[0][1].coef
        if ok and not given:
            ok = calls[0][1].coef == ()
        ctx.check(bool(ok), 'OWN-WRITEBACK', f, f'scale {"given" if given else "None"}: set_grad({calls[0][1] if calls else None}) once, slot cleared', f'update_grad scale={given}',
                  f'update_grad(scale {"given" if given else "None"}): set_grad called {len(calls)} time(s) with {[str(c[1]) for c in calls]} (coef {[c[1].coef for c in calls if isinstance(c[1], TV)]}); '
                  f'slot afterwards {dict(fin.slots).get("grad") if fin else "no exit"}; specified: one write-back of {"scale*" if given else ""}grad and a cleared slot', f.node)


# --------------------------------------------------------------------------- communication typing (C02, C03, C13)

def _size_axes(axes: tuple) -> tuple:
    return tuple(a[1] if isinstance(a, tuple) and a and a[0] == 'eig' else a for a in axes)


def rule_tt_comm(ctx: Ctx) -> None:
    """TT-SYM: symmetric=True only for symmetric values.  TT-BUF: receive placeholders have the shape and dtype the source computed."""
    p = ctx.prog
    ctx.assumptions.add('A3')
    ctx.rule('TT-SYM', 'triangular (symmetric=True) communication is used only for values that are symmetric matrices', floor=4)
    ctx.rule('TT-BUF', 'receive placeholders of the inverse broadcasts have the sizes and dtype of the value the source computed', floor=5)
    for tag, cls, flags in (('eigen', EIG, {'self.symmetric_factors': True, 'self.prediv_eigenvalues': False}),
                            ('eigen+prediv', EIG, {'self.symmetric_factors': True, 'self.prediv_eigenvalues': True}),
                            ('inverse', INV, {'self.symmetric_factors': True})):
        # source: computed slots
        it1, sl = run_methods(ctx, cls, ['compute_a_inv', 'compute_g_inv'], flags)
        if sl is None:
            raise AnalysisIncomplete(f'{cls}: compute_* have no normal exit')
        it_src = Interp(p, flags, layer_oracle)
        it_src.concrete = [cls]
        src_comm = []
        cur = dict(sl)
        for m in ('broadcast_a_inv', 'broadcast_g_inv'):
            f = p.lookup_method(cls, m)
            n0 = len(it_src.events)
            _r, fin = it_src.call_function(f, {'self': ObjV('self'), 'src': SV((), 'src', 'num'), 'group': ObjV('group')}, cur)
            src_comm += [(m, ev) for ev in it_src.events[n0:] if ev[0] == 'comm']
            if fin is not None:
                cur = dict(fin.slots)
        # receiver: empty slots, not the source
        it_rcv = Interp(p, {**flags, 'get_rank() == src': False}, layer_oracle)
        it_rcv.concrete = [cls]
        rcv_comm = []
        cur = base_slots(cls)
        for m in ('broadcast_a_inv', 'broadcast_g_inv'):
            f = p.lookup_method(cls, m)
            n0 = len(it_rcv.events)
            _r, fin = it_rcv.call_function(f, {'self': ObjV('self'), 'src': SV((), 'src', 'num'), 'group': ObjV('group')}, cur)
            rcv_comm += [(m, ev) for ev in it_rcv.events[n0:] if ev[0] == 'comm']
            if fin is not None:
                cur = dict(fin.slots)
        _incomplete(it_src, f'{cls} [{tag}] broadcast (source)', ('broadcast_a_inv', 'broadcast_g_inv'))
        _incomplete(it_rcv, f'{cls} [{tag}] broadcast (receiver)', ('broadcast_a_inv', 'broadcast_g_inv'))
        for m, ev in src_comm:
            _k, fn, node, (prim, v, sym) = ev
            if sym != 'False':
                ctx.check(isinstance(v, TV) and 'sym' in v.quals, 'TT-SYM', fn, f'[{tag}] {m}: symmetric={sym} for {v}', norm(node)[:100],
                          f'[{tag}] {m} communicates {v} with symmetric={sym}: only the upper triangle is sent and mirrored, but this value is not a symmetric matrix '
                          '(eigenvector matrices are orthogonal, not symmetric)', node)
            else:
                ctx.ok('TT-SYM', fn, f'[{tag}] {m}: dense communication of {v}', node)
        if len(src_comm) != len(rcv_comm):
            ctx.violate('TT-BUF', p.lookup_method(cls, 'broadcast_a_inv'), f'{tag} count', f'[{tag}] source issues {len(src_comm)} broadcasts, a receiver with empty slots issues {len(rcv_comm)}', None)
            continue
        for (m, a), (_m2, b) in zip(src_comm, rcv_comm):
            va, vb = a[3][1], b[3][1]
            ok = isinstance(va, TV) and isinstance(vb, TV) and _size_axes(va.axes) == _size_axes(vb.axes) and va.dtype == vb.dtype and a[3][2] == b[3][2]
            ctx.check(ok, 'TT-BUF', b[1], f'[{tag}] {m}: placeholder {vb} matches source {va}', norm(b[2])[:100],
                      f'[{tag}] {m}: the source broadcasts {va} (symmetric={a[3][2]}) but a receiver allocates {vb} (symmetric={b[3][2]}): sizes or dtype differ, the collective would mismatch', b[2])
    # factor reductions: symmetric flag only for the (symmetric) factors
    for m, slot in (('reduce_a_factor', 'a_factor'), ('reduce_g_factor', 'g_factor')):
        it = Interp(p, {'self.symmetric_factors': True, 'self.allreduce_method == AllreduceMethod.ALLREDUCE': True}, layer_oracle)
        it.concrete = [BASE]
        f = p.lookup_method(BASE, m)
        it.call_function(f, {'self': ObjV('self'), 'group': ObjV('group')}, base_slots(BASE))
        cm = [ev for ev in it.events if ev[0] == 'comm']
        for ev in cm:
            v, sym = ev[3][1], ev[3][2]
            ctx.check(isinstance(v, TV) and 'sym' in v.quals and v.axes[0] == v.axes[1], 'TT-SYM', f, f'{m}: {v} symmetric={sym}', m,
                      f'{m} communicates {v} with symmetric={sym}', ev[2])
        if not cm:
            ctx.violate('TT-SYM', f, m, f'{m}: no communication of the factor found', f.node)
