"""Rules decided with the abstract tensor interpreter (E3/E5): C01, C04, C07, C10, C11, C15, parts of C02/C13."""
from __future__ import annotations

import ast
from dataclasses import replace
from typing import Any

from kfv import tensors as T
from kfv.core import AnalysisIncomplete
from kfv.core import Ctx
from kfv.model import Func
from kfv.model import norm
from kfv.tensors import DT
from kfv.tensors import NONE
from kfv.tensors import Interp
from kfv.tensors import ObjV
from kfv.tensors import SV
from kfv.tensors import TV

GAMMA = (('gamma', 1),)
LA = (('lamA', 1),)
LG = (('lamG', 1),)
WANT_UNIT = (('gamma', 1), ('lamA', -1), ('lamG', -1))
EIG = 'kfac.layers.eigen.KFACEigenLayer'
INV = 'kfac.layers.inverse.KFACInverseLayer'
GPT = 'kfac.gpt_neox.layer.GPTNeoXKFACEigenLayer'
BASE = 'kfac.layers.base.KFACBaseLayer'
DAMP = SV((), 'damping', 'damping')


def layer_oracle(it: Interp, f: Func, node: ast.AST, s: Any) -> Any:
    t = norm(node)
    if t == 'self.module.get_grad()':
        return TV(('G', 'A'), GAMMA, 'grad', frozenset(), frozenset({'param.grad'}), None, (), '')
    if t == 'self.inv_dtype':
        return DT('inv')
    if t == 'self.factor_dtype':
        return DT('factor')
    if t in ('torch.float32', 'torch.float'):
        return ObjV('torch.float32')
    if t == 'self.tdc':
        return ObjV('tdc')
    if t in ('self.symmetry_aware', 'self.symmetric_factors and self.symmetry_aware'):
        return SV((), t, 'flag')
    return None


def base_slots(cls: str, extra: dict | None = None) -> dict:
    sl = {'__class__': ObjV(cls),
          'a_factor': TV(('A', 'A'), LA, 'factor', frozenset({'sym'}), frozenset({'slot:a_factor'})),
          'g_factor': TV(('G', 'G'), LG, 'factor', frozenset({'sym'}), frozenset({'slot:g_factor'})),
          'grad': NONE, 'qa': NONE, 'qg': NONE, 'da': NONE, 'dg': NONE, 'dgda': NONE, 'a_inv': NONE, 'g_inv': NONE}
    sl.update(extra or {})
    return sl


def run_methods(ctx: Ctx, cls: str, methods: list[str], flags: dict, slots: dict | None = None, oracle: Any = layer_oracle) -> tuple[Interp, dict | None]:
    p = ctx.prog
    p.family = None
    it = Interp(p, flags, oracle)
    it.concrete = [cls]
    sl = dict(slots) if slots is not None else base_slots(cls)
    for m in methods:
        f = p.lookup_method(cls, m)
        if f is None:
            raise AnalysisIncomplete(f'{cls} has no method {m}')
        args = {'self': ObjV('self')}
        if 'damping' in f.params:
            args['damping'] = DAMP
        r, fin = it.call_function(f, args, sl)
        if fin is None:
            return it, None
        sl = dict(fin.slots)
    return it, sl


def _report_all(ctx: Ctx, rid: str, it: Interp, tag: str) -> int:
    n = 0
    seen = set()
    for r in it.reports:
        k = (r.func.qualname, getattr(r.node, 'lineno', 0), r.msg)
        if k in seen:
            continue
        seen.add(k)
        n += 1
        ctx.violate(rid, r.func, norm(r.node)[:120], f'[{tag}] {r.msg}', r.node)
    return n


def _need(v: Any, where: str) -> Any:
    if isinstance(v, TV) and T.has_q(v.axes):
        raise AnalysisIncomplete(f'{where}: paths that the flag partition does not separate yield different shapes; the shape-dependent obligation cannot be decided')
    if isinstance(v, T.Top):
        raise AnalysisIncomplete(f'{where}: the abstract value is unknown ({v.why[:160]}); paths that the flag partition does not separate disagree or use an unmodelled operator')
    return v


def _incomplete(it: Interp, where: str, only: tuple[str, ...] = ()) -> None:
    unk = [(f.short, getattr(n, 'lineno', 0), why) for f, n, why in it.unknown if not only or any(f.short.endswith(o) for o in only)]
    if unk:
        raise AnalysisIncomplete(f'{where}: operator outside the modelled vocabulary: {unk[:4]}')


# --------------------------------------------------------------------------- C01

def rule_tt_solve(ctx: Ctx) -> None:
    """TT-EIG / TT-INV / TT-DAMP / TT-PSD / TT-UNIT / TT-DTYPE / SIB-PREDIV."""
    ctx.assumptions.add('A3')
    ctx.rule('TT-EIG', 'eigen method type-checks over named index spaces: Q_G^T D Q_A in eigen coordinates, result Q_G (.) Q_A^T over (G, A)', floor=2)
    ctx.rule('TT-INV', 'inverse method: inv() only of damped factors; G^-1 D A^-1 over (G, A)', floor=1)
    ctx.rule('TT-DAMP', 'the damping parameter enters at the specified site: eigen — added to the (eG, eA) product of spectra; inverse — damping*identity added to each factor', floor=3)
    ctx.rule('TT-PSD', 'eigenvalues that reach a denominator were clamped at zero', floor=2)
    ctx.rule('TT-UNIT', 'the preconditioned gradient has unit gradient / (spectrum of G * spectrum of A): both inverses applied exactly once', floor=3)
    ctx.rule('TT-DTYPE', 'the stored preconditioned gradient has the dtype of the module gradient captured before the cast to the inverse dtype', floor=3)
    ctx.rule('SIB-PREDIV', 'pre-divided and on-the-fly eigenvalue paths produce the same typed result', floor=1)
    results = {}
    for tag, cls, flags in (('eigen', EIG, {'self.symmetric_factors': True, 'self.prediv_eigenvalues': False}),
                            ('eigen+prediv', EIG, {'self.symmetric_factors': True, 'self.prediv_eigenvalues': True}),
                            ('inverse', INV, {'self.symmetric_factors': True})):
        it, sl = run_methods(ctx, cls, ['compute_a_inv', 'compute_g_inv', 'preconditioned_grad'], flags)
        rid = 'TT-INV' if tag == 'inverse' else 'TT-EIG'
        nerr = _report_all(ctx, rid, it, tag)
        if sl is None:
            ctx.violate(rid, ctx.prog.lookup_method(cls, 'preconditioned_grad'), tag, f'[{tag}] no normal path through compute_a_inv / compute_g_inv / preconditioned_grad with the second-order data just computed', None)
            continue
        _incomplete(it, f'{cls} [{tag}]')
        g = sl.get('grad')
        pg = ctx.prog.lookup_method(cls, 'preconditioned_grad')
        results[tag] = g
        if not isinstance(g, TV):
            ctx.violate(rid, pg, tag, f'[{tag}] preconditioned_grad leaves the grad slot as {g}', pg.node)
            continue
        if nerr == 0:
            ctx.check(g.axes == ('G', 'A'), rid, pg, f'[{tag}] result over (G, A): {g}', f'{tag} axes', f'[{tag}] the preconditioned gradient is over {T.axes_str(g.axes)}, not (G, A)', pg.node)
        ctx.check(g.unit == WANT_UNIT, 'TT-UNIT', pg, f'[{tag}] unit {T.ustr(g.unit)}', f'{tag} unit',
                  f'[{tag}] the preconditioned gradient has unit {T.ustr(g.unit)}; specified gamma/(lamG*lamA): each factor must be inverted exactly once '
                  '(divide by the spectral product / multiply by both inverses)', pg.node)
        ctx.check(g.dtype == 'grad', 'TT-DTYPE', pg, f'[{tag}] dtype token {g.dtype}', f'{tag} dtype',
                  f'[{tag}] the preconditioned gradient is stored with dtype token `{g.dtype}`, not the dtype of the module gradient (captured before the cast to the inverse dtype)', pg.node)
        damps = [ev for ev in it.events if ev[0] == 'damp']
        undamped = [ev for ev in it.events if ev[0] == 'undamped-division']
        if tag.startswith('eigen'):
            site = [ev for ev in damps if ev[3][0] == 'scalar' and ev[3][1].axes == (('eig', 'G'), ('eig', 'A')) and ev[3][1].unit == (('lamA', 1), ('lamG', 1))]
            other = [ev for ev in damps if ev not in site]
            ctx.check(len(site) >= 1 and not other and not undamped, 'TT-DAMP', pg, f'[{tag}] damping added to outer(dg, da) over (eG, eA)', f'{tag} damping site',
                      f'[{tag}] damping must be added to the (eG, eA) product of the spectra before dividing (G V A + damping V = D); found damping sites '
                      f'{[(str(ev[3][1]), getattr(ev[2], "lineno", 0)) for ev in damps]} and undamped divisions at lines {[getattr(ev[2], "lineno", 0) for ev in undamped]}',
                      (other or undamped or damps or [(0, 0, pg.node)])[0][2])
            for ev in site:
                ctx.check('nonneg' in ev[3][1].quals, 'TT-PSD', ev[1], f'[{tag}] spectra clamped at 0 before damping', f'{tag} clamp',
                          f'[{tag}] the eigenvalue product that is damped and inverted is built from eigenvalues not clamped at zero (factors are taken positive semi-definite): {ev[3][1]}', ev[2])
        else:
            site = [ev for ev in damps if ev[3][0] == 'identity']
            spaces = sorted(str(ev[3][1].axes) for ev in site)
            ctx.check(spaces == ["('A', 'A')", "('G', 'G')"] and len(damps) == 2, 'TT-DAMP', pg, '[inverse] damping*I added to A and to G', 'inverse damping site',
                      f'[inverse] damping*identity must be added once to each factor ((G + dI) V (A + dI) = D); found {[(ev[3][0], str(ev[3][1])) for ev in damps]}', pg.node)
            for ev in [e_ for e_ in it.events if e_[0] == 'inv']:
                ctx.check('damped' in ev[3].quals, 'TT-INV', ev[1], f'[inverse] inv of a damped factor {ev[3]}', f'inv {ev[3].axes}',
                          f'[inverse] torch.linalg.inv is applied to an undamped factor {ev[3]}', ev[2])
    if 'eigen' in results and 'eigen+prediv' in results:
        a, b = results['eigen'], results['eigen+prediv']
        same = isinstance(a, TV) and isinstance(b, TV) and (a.axes, a.unit, a.dtype) == (b.axes, b.unit, b.dtype)
        ctx.check(same, 'SIB-PREDIV', ctx.prog.lookup_method(EIG, 'preconditioned_grad'), f'prediv and non-prediv results agree: {a}', 'prediv siblings',
                  f'pre-divided path yields {b}, on-the-fly path yields {a}', None)


def rule_own_writeback(ctx: Ctx) -> None:
    p = ctx.prog
    ctx.rule('OWN-WRITEBACK', 'update_grad multiplies by scale when given, writes the result back once through module.set_grad and clears the slot on every exit', floor=2)
    f = p.get_func('layers.base.KFACBaseLayer.update_grad')
    for given in (True, False):
        calls: list = []

        def oracle(it: Interp, fn: Func, node: ast.AST, s: Any) -> Any:
            if isinstance(node, ast.Call) and norm(node.func) == 'self.module.set_grad':
                v, _ = T._CB(it, fn).ev(node.args[0], s, True) if node.args else (None, s)
                calls.append((node, v))
                return NONE
            return layer_oracle(it, fn, node, s)
        it = Interp(p, {}, oracle)
        sl = base_slots(BASE, {'grad': TV(('G', 'A'), WANT_UNIT, 'grad', frozenset(), frozenset())})
        r, fin = it.call_function(f, {'self': ObjV('self'), 'scale': SV((), 'scale', 'num') if given else NONE}, sl)
        ok = fin is not None and isinstance(dict(fin.slots).get('grad'), T.NoneV) and len(calls) == 1 and isinstance(calls[0][1], TV) and calls[0][1].axes == ('G', 'A')
        if ok and given:
            ok = ('scale', 1) in calls[0][1].coef
        if ok and not given:
            ok = calls[0][1].coef == ()
        ctx.check(bool(ok), 'OWN-WRITEBACK', f, f'scale {"given" if given else "None"}: set_grad({calls[0][1] if calls else None}) once, slot cleared', f'update_grad scale={given}',
                  f'update_grad(scale {"given" if given else "None"}): set_grad called {len(calls)} time(s) with {[str(c[1]) for c in calls]} (coef {[c[1].coef for c in calls if isinstance(c[1], TV)]}); '
                  f'slot afterwards {dict(fin.slots).get("grad") if fin else "no exit"}; specified: one write-back of {"scale*" if given else ""}grad and a cleared slot', f.node)


# --------------------------------------------------------------------------- communication typing (C02, C03, C13)

def _size_axes(axes: tuple) -> tuple:
    return tuple(a[1] if isinstance(a, tuple) and a and a[0] == 'eig' else a for a in axes)


def rule_tt_comm(ctx: Ctx) -> None:
    """TT-SYM: symmetric=True only for symmetric values.  TT-BUF: receive placeholders have the shape and dtype the source computed."""
    p = ctx.prog
    ctx.assumptions.add('A3')
    ctx.rule('TT-SYM', 'triangular (symmetric=True) communication is used only for values that are symmetric matrices', floor=11)
    pack_rule = ctx.prop == 'C13'
    if pack_rule:
        ctx.rule('SYM-PACK', 'every symmetric matrix that is communicated (factors, inverses) is packed exactly when symmetric_factors and symmetry_aware', floor=4)
    ctx.rule('TT-BUF', 'receive placeholders of the inverse and gradient broadcasts have the sizes and dtype of the value the source computed', floor=12)
    for tag, cls, flags in (('eigen', EIG, {'self.symmetric_factors': True, 'self.prediv_eigenvalues': False}),
                            ('eigen+prediv', EIG, {'self.symmetric_factors': True, 'self.prediv_eigenvalues': True}),
                            ('inverse', INV, {'self.symmetric_factors': True})):
        # source: computed slots
        it1, sl = run_methods(ctx, cls, ['compute_a_inv', 'compute_g_inv'], flags)
        if sl is None:
            raise AnalysisIncomplete(f'{cls}: compute_* have no normal exit')
        it_src = Interp(p, flags, layer_oracle)
        it_src.concrete = [cls]
        src_comm = []
        cur = dict(sl)
        for m in ('broadcast_a_inv', 'broadcast_g_inv'):
            f = p.lookup_method(cls, m)
            n0 = len(it_src.events)
            _r, fin = it_src.call_function(f, {'self': ObjV('self'), 'src': SV((), 'src', 'num'), 'group': ObjV('group')}, cur)
            src_comm += [(m, ev) for ev in it_src.events[n0:] if ev[0] == 'comm']
            if fin is not None:
                cur = dict(fin.slots)
        # receiver: empty slots, not the source
        it_rcv = Interp(p, {**flags, 'get_rank() == src': False}, layer_oracle)
        it_rcv.concrete = [cls]
        rcv_comm = []
        cur = base_slots(cls)
        for m in ('broadcast_a_inv', 'broadcast_g_inv'):
            f = p.lookup_method(cls, m)
            n0 = len(it_rcv.events)
            _r, fin = it_rcv.call_function(f, {'self': ObjV('self'), 'src': SV((), 'src', 'num'), 'group': ObjV('group')}, cur)
            rcv_comm += [(m, ev) for ev in it_rcv.events[n0:] if ev[0] == 'comm']
            if fin is not None:
                cur = dict(fin.slots)
        _incomplete(it_src, f'{cls} [{tag}] broadcast (source)', ('broadcast_a_inv', 'broadcast_g_inv'))
        _incomplete(it_rcv, f'{cls} [{tag}] broadcast (receiver)', ('broadcast_a_inv', 'broadcast_g_inv'))
        for m, ev in src_comm:
            _k, fn, node, (prim, v, sym) = ev
            if sym != 'False':
                ctx.check(isinstance(v, TV) and 'sym' in v.quals, 'TT-SYM', fn, f'[{tag}] {m}: symmetric={sym} for {v}', norm(node)[:100],
                          f'[{tag}] {m} communicates {v} with symmetric={sym}: only the upper triangle is sent and mirrored, but this value is not a symmetric matrix '
                          '(eigenvector matrices are orthogonal, not symmetric)', node)
            else:
                ctx.ok('TT-SYM', fn, f'[{tag}] {m}: dense communication of {v}', node)
            if pack_rule and isinstance(v, TV) and 'sym' in v.quals and len(v.axes) == 2 and v.axes[0] == v.axes[1]:
                okp = sym.replace(' ', '') in ('self.symmetric_factorsandself.symmetry_aware', 'self.symmetry_awareandself.symmetric_factors')
                ctx.check(okp, 'SYM-PACK', fn, f'[{tag}] {m}: symmetric matrix {v} packed when symmetry-aware', norm(node)[:100],
                          f'[{tag}] {m} communicates the symmetric matrix {v} with symmetric={sym}: in symmetry-aware mode n(n+1)/2 elements must be sent, '
                          'i.e. symmetric=self.symmetric_factors and self.symmetry_aware', node)
        if len(src_comm) != len(rcv_comm):
            ctx.violate('TT-BUF', p.lookup_method(cls, 'broadcast_a_inv'), f'{tag} count', f'[{tag}] source issues {len(src_comm)} broadcasts, a receiver with empty slots issues {len(rcv_comm)}', None)
            continue
        for (m, a), (_m2, b) in zip(src_comm, rcv_comm):
            va, vb = a[3][1], b[3][1]
            ok = isinstance(va, TV) and isinstance(vb, TV) and _size_axes(va.axes) == _size_axes(vb.axes) and va.dtype == vb.dtype and a[3][2] == b[3][2]
            ctx.check(ok, 'TT-BUF', b[1], f'[{tag}] {m}: placeholder {vb} matches source {va}', norm(b[2])[:100],
                      f'[{tag}] {m}: the source broadcasts {va} (symmetric={a[3][2]}) but a receiver allocates {vb} (symmetric={b[3][2]}): sizes or dtype differ, the collective would mismatch', b[2])
        # gradient broadcast: the source sends the slot preconditioned_grad left, a receiver allocates a placeholder
        it_pg, sl_pg = run_methods(ctx, cls, ['compute_a_inv', 'compute_g_inv', 'preconditioned_grad'], flags)
        fb = p.lookup_method(cls, 'broadcast_grad')
        if sl_pg is not None and fb is not None:
            pair = []
            for role, fl, slots0 in (('source', flags, dict(sl_pg)), ('receiver', {**flags, 'get_rank() == src': False}, base_slots(cls))):
                it_b = Interp(p, fl, layer_oracle)
                it_b.concrete = [cls]
                it_b.call_function(fb, {'self': ObjV('self'), 'src': SV((), 'src', 'num'), 'group': ObjV('group')}, slots0)
                _incomplete(it_b, f'{cls} [{tag}] broadcast_grad ({role})', ('broadcast_grad',))
                cm = [ev for ev in it_b.events if ev[0] == 'comm']
                pair.append(cm)
            if len(pair[0]) != 1 or len(pair[1]) != 1:
                ctx.violate('TT-BUF', fb, f'{tag} grad count', f'[{tag}] broadcast_grad: the source issues {len(pair[0])} broadcast(s), a receiver {len(pair[1])}; exactly one each expected', fb.node)
            else:
                a, b = pair[0][0], pair[1][0]
                va, vb = a[3][1], b[3][1]
                if not isinstance(va, TV) or not isinstance(vb, TV) or T.has_q(va.axes) or T.has_q(vb.axes):
                    raise AnalysisIncomplete(f'[{tag}] broadcast_grad: payload not typed (source {va}, receiver {vb})')
                ok = _size_axes(va.axes) == _size_axes(vb.axes) and va.dtype == vb.dtype and a[3][2] == b[3][2]
                ctx.check(ok, 'TT-BUF', b[1], f'[{tag}] broadcast_grad: placeholder {vb} matches source {va}', f'[{tag}] ' + norm(b[2])[:90],
                          f'[{tag}] broadcast_grad: the source broadcasts {va} (dtype {va.dtype}) but a receiver allocates {vb} (dtype {vb.dtype}): sizes or dtype differ, the collective would mismatch', b[2])
    # factor reductions: symmetric flag only for the (symmetric) factors
    for m, slot in (('reduce_a_factor', 'a_factor'), ('reduce_g_factor', 'g_factor')):
        it = Interp(p, {'self.symmetric_factors': True, 'self.allreduce_method == AllreduceMethod.ALLREDUCE': True}, layer_oracle)
        it.concrete = [BASE]
        f = p.lookup_method(BASE, m)
        it.call_function(f, {'self': ObjV('self'), 'group': ObjV('group')}, base_slots(BASE))
        cm = [ev for ev in it.events if ev[0] == 'comm']
        for ev in cm:
            v, sym = ev[3][1], ev[3][2]
            ctx.check(isinstance(v, TV) and 'sym' in v.quals and v.axes[0] == v.axes[1], 'TT-SYM', f, f'{m}: {v} symmetric={sym}', m,
                      f'{m} communicates {v} with symmetric={sym}', ev[2])
            if pack_rule:
                okp = sym.replace(' ', '') in ('self.symmetric_factorsandself.symmetry_aware', 'self.symmetry_awareandself.symmetric_factors')
                ctx.check(okp, 'SYM-PACK', f, f'{m}: factor packed when symmetry-aware', m + ' pack',
                          f'{m} reduces the symmetric factor {v} with symmetric={sym}; in symmetry-aware mode it must be packed (symmetric=self.symmetric_factors and self.symmetry_aware)', ev[2])
        if not cm:
            ctx.violate('TT-SYM', f, m, f'{m}: no communication of the factor found', f.node)


# --------------------------------------------------------------------------- module helpers: layout (C15) and factors (C04)

LIN = 'kfac.layers.modules.LinearModuleHelper'
CONV = 'kfac.layers.modules.Conv2dModuleHelper'
XU = (('x', 1),)


def helper_oracle(kind: str, bias: bool):  # noqa: ANN201
    wax = ('OUT', 'IN') if kind == 'linear' else ('OUT', 'C', 'KH', 'KW')

    def oracle(it: Interp, f: Func, node: ast.AST, s: Any) -> Any:
        t = norm(node)
        if t == 'self.module.weight.grad':
            return TV(wax, GAMMA, 'grad', frozenset(), frozenset({'param.grad:weight'}))
        if t == 'self.module.bias.grad':
            return TV(('OUT',), GAMMA, 'grad', frozenset(), frozenset({'param.grad:bias'})) if bias else NONE
        if t == 'self.module.weight':
            return TV(wax, (), 'param', frozenset(), frozenset({'param:weight'}))
        if t == 'self.module.bias':
            return ObjV('bias') if bias else NONE
        if t in ('self.has_bias()', 'self.module.has_bias()'):
            return SV((), 'True' if bias else 'False', 'flag')
        if t == 'self.module.in_channels':
            return SV((), 'C', 'size', 'C')
        if t == 'self.module.out_channels':
            return SV((), 'OUT', 'size', 'OUT')
        if t == 'self.module.kernel_size[0]':
            return SV((), 'KH', 'size', 'KH')
        if t == 'self.module.kernel_size[1]':
            return SV((), 'KW', 'size', 'KW')
        if t in ('self.module.padding', 'self.module.kernel_size', 'self.module.stride'):
            return ObjV(t.split('.')[-1])
        if t == 'self.module':
            return ObjV('nn')
        return layer_oracle(it, f, node, s)
    return oracle


_VERIFIED_ALT: list[str] = []


def helper_flags(bias: bool, padded: bool = True) -> dict:
    return {**{t: False for t in _VERIFIED_ALT}, 'self.has_bias()': bias, 'self.module.has_bias()': bias, 'padding[0] + padding[1] > 0': padded, 'b is None': True, 'scale is None': True, 'len(a.shape) != 2': False}


def _call(ctx: Ctx, cls: str, meth: str, args: dict, oracle: Any, flags: dict, kind: str = 'method') -> tuple[Interp, Any]:
    p = ctx.prog
    p.family = None
    it = Interp(p, flags, oracle)
    it.concrete = [cls]
    if 'padding[0] + padding[1] > 0' in flags and not hasattr(it, 'num_facts'):
        it.num_facts = {'padding[0]': 'P', 'padding[1]': 'P'} if flags['padding[0] + padding[1] > 0'] else {'padding[0]': 0, 'padding[1]': 0}
    f = p.lookup_method(cls, meth, kind)
    if f is None:
        raise AnalysisIncomplete(f'{cls}.{meth} not found')
    r, _fin = it.call_function(f, {'self': ObjV('self'), **args}, {'__class__': ObjV(cls)})
    return it, r


def rule_layout(ctx: Ctx) -> None:
    """TT-BIASLAST, TT-PATCH, TT-GEOM, TT-SHAPEFN, TT-ROUNDTRIP (C15)."""
    ctx.do(rule_pad_dom)
    ctx.do(rule_patch_geom)
    p = ctx.prog
    ctx.assumptions.add('A3')
    ctx.rule('TT-BIASLAST', 'one layout: rows of the combined gradient = space of G, columns = space of A = input features followed by the bias column', floor=8)
    ctx.rule('TT-PATCH', 'patch extraction yields (B, OH, OW, C x KH x KW): the composite order of weight.view(OUT, -1)', floor=2)
    ctx.rule('TT-GEOM', 'every operation on H uses index 0 and every operation on W uses index 1 of padding / kernel_size / stride; F.pad pads W first', floor=2)
    ctx.rule('TT-SHAPEFN', 'advertised factor shapes equal the shapes of the factors the helper computes', floor=8)
    ctx.rule('TT-ROUNDTRIP', 'set_grad(get_grad()) returns each piece to its own parameter with its own shape, contiguous', floor=4)
    for kind, cls in (('linear', LIN), ('conv', CONV)):
        for bias in (True, False):
            tag = f'{kind}{"+bias" if bias else ""}'
            orc = helper_oracle(kind, bias)
            fl = helper_flags(bias)
            # --- combined gradient
            it, g = _call(ctx, cls, 'get_grad', {}, orc, fl)
            _need(g, f'{cls}.get_grad [{tag}]')
            n = _report_all(ctx, 'TT-BIASLAST', it, tag)
            _incomplete(it, f'{cls}.get_grad [{tag}]')
            feat = 'IN' if kind == 'linear' else ('prod', 'C', 'KH', 'KW')
            want_cols = ('cat', feat, 'ONE') if bias else feat
            f_gg = p.lookup_method(cls, 'get_grad')
            okg = isinstance(g, TV) and g.axes == ('OUT', want_cols)
            ctx.check(okg, 'TT-BIASLAST', f_gg, f'[{tag}] get_grad(): {g}', f'{tag} get_grad',
                      f'[{tag}] get_grad() returns {g}; specified: one row per output unit, columns = {"unfolded " if kind == "conv" else ""}input features{" followed by the bias column" if bias else ""} {T.axes_str(("OUT", want_cols))}', f_gg.node)
            # --- A factor
            a_in = TV(('B', 'S', 'IN'), XU, 'factor') if kind == 'linear' else TV(('B', 'C', 'H', 'W'), XU, 'factor')
            ita, A = _call(ctx, cls, 'get_a_factor', {'a': a_in}, orc, fl)
            if isinstance(A, T.Top):
                rule_alt_paths(ctx)
            _need(A, f'{cls}.get_a_factor [{tag}]')
            _report_all(ctx, 'TT-BIASLAST', ita, tag)
            _incomplete(ita, f'{cls}.get_a_factor [{tag}]')
            f_a = p.lookup_method(cls, 'get_a_factor')
            if kind == 'conv':
                # identify kernel windows with the weight's kernel dims (A3: weight is (OUT, C, KH, KW), kernel_size[0] <-> H)
                A = _rename_kernel_axes(A)
            okA = isinstance(A, TV) and len(A.axes) == 2 and A.axes[0] == A.axes[1] == want_cols
            ctx.check(okA, 'TT-BIASLAST', f_a, f'[{tag}] A factor over the column space of the gradient: {A}', f'{tag} A space',
                      f'[{tag}] get_a_factor() yields {A}; its index space must equal the column space of get_grad() {T.axes_str((want_cols,))} (same feature order, bias last)', f_a.node)
            # --- G factor
            g_in = TV(('B', 'S', 'OUT'), GAMMA, 'factor') if kind == 'linear' else TV(('B', 'OUT', 'OH', 'OW'), GAMMA, 'factor')
            itg, G = _call(ctx, cls, 'get_g_factor', {'g': g_in}, orc, fl)
            _need(G, f'{cls}.get_g_factor [{tag}]')
            _report_all(ctx, 'TT-BIASLAST', itg, tag)
            _incomplete(itg, f'{cls}.get_g_factor [{tag}]')
            f_g = p.lookup_method(cls, 'get_g_factor')
            ctx.check(isinstance(G, TV) and G.axes == ('OUT', 'OUT'), 'TT-BIASLAST', f_g, f'[{tag}] G factor over the row space of the gradient: {G}', f'{tag} G space',
                      f'[{tag}] get_g_factor() yields {G}; its index space must be the output units (OUT, OUT)', f_g.node)
            # --- advertised shapes
            for prop, want in (('a_factor_shape', want_cols), ('g_factor_shape', 'OUT')):
                its, shp = _call(ctx, cls, prop, {}, orc, fl, 'getter')
                fp = p.lookup_method(cls, prop, 'getter')
                got = None
                if isinstance(shp, T.ListV) and len(shp.items) == 2 and all(isinstance(x, SV) and x.kind == 'size' for x in shp.items):
                    got = tuple(x.size for x in shp.items)
                ctx.check(got == (want, want), 'TT-SHAPEFN', fp, f'[{tag}] {prop} = {T.axes_str(got) if got else shp}', f'{tag} {prop}',
                          f'[{tag}] {prop} advertises {T.axes_str(got) if got else shp}; the factor actually computed is over {T.axes_str((want, want))}', fp.node)
            # --- round trip
            comb = TV(('OUT', want_cols), WANT_UNIT, 'grad')
            itr, _ = _call(ctx, cls, 'set_grad', {'grad': comb}, orc, fl)
            _report_all(ctx, 'TT-ROUNDTRIP', itr, tag)
            _incomplete(itr, f'{cls}.set_grad [{tag}]')
            f_s = p.lookup_method(cls, 'set_grad')
            stores = {ev[3][0]: ev for ev in itr.events if ev[0] == 'attr-store'}
            wax = ('OUT', 'IN') if kind == 'linear' else ('OUT', 'C', 'KH', 'KW')
            w = stores.get('self.module.weight.grad')
            okw = w is not None and isinstance(w[3][1], TV) and w[3][1].axes == wax and norm(w[2].value).endswith('.contiguous()')
            ctx.check(okw, 'TT-ROUNDTRIP', f_s, f'[{tag}] weight.grad <- {w[3][1] if w else None}', f'{tag} weight write-back',
                      f'[{tag}] set_grad writes {w[3][1] if w else "nothing"} into weight.grad; specified: the feature columns viewed with the weight\'s own shape {T.axes_str(wax)}, contiguous', w[2] if w else f_s.node)
            b = stores.get('self.module.bias.grad')
            if bias:
                okb = b is not None and isinstance(b[3][1], TV) and b[3][1].axes == ('OUT',) and norm(b[2].value).endswith('.contiguous()')
                ctx.check(okb, 'TT-ROUNDTRIP', f_s, f'[{tag}] bias.grad <- {b[3][1] if b else None}', f'{tag} bias write-back',
                          f'[{tag}] set_grad writes {b[3][1] if b else "nothing"} into bias.grad; specified: the last column with the bias\' own shape (OUT), contiguous', b[2] if b else f_s.node)
            else:
                ctx.check(b is None, 'TT-ROUNDTRIP', f_s, f'[{tag}] no bias write without bias', f'{tag} bias write-back', f'[{tag}] set_grad writes bias.grad although the module has no bias', b[2] if b else f_s.node)


def rule_pad_dom(ctx: Ctx) -> None:
    """DOM-PAD: no exit of _extract_patches lies before the zero-padding step unless its guard speaks about the padding.

    A must-pass-through check on the statement structure, independent of the tensor interpreter: a fast path
    that returns above the padding step drops the padded border for the configurations it accepts, whatever
    it computes (kernel 1x1 with padding 1 is a legal Conv2d).
    """
    from kfv import flow
    p = ctx.prog
    ctx.rule('DOM-PAD', 'every return of _extract_patches that precedes the padding step is guarded by a test on the padding', floor=1)
    f = p.lookup_method(CONV, '_extract_patches')
    if f is None:
        raise AnalysisIncomplete('_extract_patches not found')
    body = f.body
    def has_pad(st: ast.AST) -> bool:
        return any(isinstance(n, ast.Call) and ((isinstance(n.func, ast.Attribute) and n.func.attr == 'pad') or (isinstance(n.func, ast.Name) and n.func.id == 'pad')) for n in ast.walk(st))
    idx = [i for i, st in enumerate(body) if has_pad(st)]
    if not idx:
        ctx.ok('DOM-PAD', f, 'no padding call in _extract_patches itself (TT-GEOM decides the padded geometry)', f.node)
        return
    first = idx[0]
    for i, st in enumerate(body):
        for r in (n for n in ast.walk(st) if isinstance(n, ast.Return)):
            if i >= first:
                ctx.ok('DOM-PAD', f, f'return at line {r.lineno} follows the padding step', r)
                continue
            tests = [norm(g.test) for g in flow.guards(p, f, r)]
            ctx.check(any('padding' in t or 'pad' in t for t in tests), 'DOM-PAD', f, f'return before the padding step under {tests}', 'early-return',
                      f'_extract_patches returns at line {r.lineno} before the input is zero-padded, under the guard {tests or "(none)"} which does not exclude padded '
                      'configurations: the patches of such a layer lose the padded border (wrong out_h / out_w, spatial divisor and A factor)', r)


def rule_patch_geom(ctx: Ctx) -> None:
    """TT-PATCH / TT-GEOM for Conv2dModuleHelper._extract_patches (run before the factor rules: they build on it)."""
    p = ctx.prog
    ctx.rule('TT-PATCH', 'patch extraction yields (batch, out rows, out cols, channel x kernel row x kernel col) in the weight\'s own feature order', floor=2)
    ctx.rule('TT-GEOM', 'every operation on H uses index 0 and every operation on W uses index 1 of padding / kernel_size / stride; F.pad pads W first', floor=2)
    # --- conv patch extraction and geometry
    orc = helper_oracle('conv', True)
    for padded in (True, False):
        it, pt = _call(ctx, CONV, '_extract_patches', {'x': TV(('B', 'C', 'H', 'W'), XU, 'factor')}, orc, helper_flags(True, padded))
        _report_all(ctx, 'TT-PATCH', it, f'conv padded={padded}')
        _incomplete(it, f'_extract_patches padded={padded}')
        f = p.lookup_method(CONV, '_extract_patches')
        Hx = ('pad', 'H', 'padding[0]') if padded else 'H'
        Wx = ('pad', 'W', 'padding[1]') if padded else 'W'
        want = ('B', ('win', Hx, 'kernel_size[0]', 'stride[0]'), ('win', Wx, 'kernel_size[1]', 'stride[1]'),
                ('prod', 'C', ('ker', Hx, 'kernel_size[0]'), ('ker', Wx, 'kernel_size[1]')))
        okp = isinstance(pt, TV) and pt.axes == want
        rid = 'TT-PATCH'
        if isinstance(pt, TV) and not okp and _strip_geom(pt.axes) == _strip_geom(want):
            rid = 'TT-GEOM'
        ctx.check(okp, rid, f, f'[padded={padded}] patches {pt}', f'_extract_patches padded={padded}',
                  f'_extract_patches yields {pt}; specified {T.axes_str(want)}: batch, output rows, output columns, then (channel, kernel row, kernel column) in the order of weight.view(OUT, -1); '
                  'H is padded by padding[0], unfolded with kernel_size[0] / stride[0]; W by padding[1], kernel_size[1] / stride[1] (F.pad pads the last dimension first)', f.node)
        if okp:
            ctx.ok('TT-GEOM', f, f'[padded={padded}] H <-> index 0, W <-> index 1 for padding / kernel_size / stride', f.node)
        if padded:
            asym = [ev for ev in it.events if ev[0] == 'pad-asym']
            ctx.check(not asym, 'TT-GEOM', f, 'zero padding is symmetric per dimension', 'pad symmetry', f'asymmetric padding {[(str(e[3])) for e in asym]}', f.node)
    # padding along one axis only: whatever test guards the padding is evaluated for (padding[0], padding[1]) in
    # {0, positive}^2; an axis with positive padding must be padded (padding by zero is the identity)
    f = p.lookup_method(CONV, '_extract_patches')
    for p0, p1 in ((0, 'P'), ('P', 0)):
        p.family = None
        it = Interp(p, {k: v for k, v in helper_flags(True, True).items() if k != 'padding[0] + padding[1] > 0'}, orc)
        it.concrete = [CONV]
        it.num_facts = {'padding[0]': p0, 'padding[1]': p1}
        pt, _fin = it.call_function(f, {'self': ObjV('self'), 'x': TV(('B', 'C', 'H', 'W'), XU, 'factor')}, {'__class__': ObjV(CONV)})
        _incomplete(it, f'_extract_patches padding=({p0},{p1})')

        def unpad0(a: Any) -> Any:
            if isinstance(a, tuple) and a and a[0] == 'pad' and ((a[2] == 'padding[0]' and p0 == 0) or (a[2] == 'padding[1]' and p1 == 0)):
                return unpad0(a[1])
            if isinstance(a, tuple):
                return tuple(unpad0(x) for x in a)
            return a
        Hx = ('pad', 'H', 'padding[0]') if p0 == 'P' else 'H'
        Wx = ('pad', 'W', 'padding[1]') if p1 == 'P' else 'W'
        want = ('B', ('win', Hx, 'kernel_size[0]', 'stride[0]'), ('win', Wx, 'kernel_size[1]', 'stride[1]'),
                ('prod', 'C', ('ker', Hx, 'kernel_size[0]'), ('ker', Wx, 'kernel_size[1]')))
        got = unpad0(pt.axes) if isinstance(pt, TV) else None
        ctx.check(got == want, 'TT-GEOM', f, f'[padding[0]={p0}, padding[1]={p1}] patches {pt}', f'_extract_patches padding=({p0},{p1})',
                  f'with padding[0]={"0" if p0 == 0 else ">0"} and padding[1]={"0" if p1 == 0 else ">0"} _extract_patches yields {pt}; specified {T.axes_str(want)}: '
                  'an axis with non-zero padding must be zero-padded before it is unfolded, whatever the padding of the other axis', f.node)


def _strip_geom(axes: tuple) -> Any:
    def s(a: Any) -> Any:
        if isinstance(a, tuple) and a and a[0] in ('win', 'ker'):
            return (a[0], s(a[1]))
        if isinstance(a, tuple) and a and a[0] == 'pad':
            return s(a[1])
        if isinstance(a, tuple):
            return tuple(s(x) for x in a)
        return a
    return tuple(s(a) for a in axes)


def _rename_kernel_axes(v: Any) -> Any:
    """('ker', <H...>, 'kernel_size[0]') -> 'KH', ('ker', <W...>, 'kernel_size[1]') -> 'KW' (A3: Conv2d weight is (OUT, C, KH, KW))."""
    def base(a: Any) -> Any:
        while isinstance(a, tuple) and a and a[0] == 'pad':
            a = a[1]
        return a

    def r(a: Any) -> Any:
        if isinstance(a, tuple) and a and a[0] == 'ker':
            if base(a[1]) == 'H' and a[2] == 'kernel_size[0]':
                return 'KH'
            if base(a[1]) == 'W' and a[2] == 'kernel_size[1]':
                return 'KW'
            return a
        if isinstance(a, tuple):
            return tuple(r(x) for x in a)
        return a
    if isinstance(v, TV):
        return replace(v, axes=tuple(r(a) for a in v.axes))
    return v


# --------------------------------------------------------------------------- C04: factors

def _sym_run(ctx: Ctx, f: Func, valuation: dict[str, bool], init: dict, tracked_prefixes: tuple[str, ...] = ('self.',)):  # noqa: ANN202
    """Symbolic run of a small method with branch tests decided by `valuation` (text -> bool); unknown tests explore both."""
    from kfv import symexec
    from kfv.terms import Poly

    def track(t: ast.AST) -> str | None:
        if isinstance(t, ast.Name):
            return t.id
        tx = norm(t)
        return tx if tx.startswith(tracked_prefixes) else None

    def assume(s, test, pol):  # noqa: ANN001, ANN202
        tx = norm(test)
        if tx in valuation:
            return s if valuation[tx] == pol else None
        if isinstance(test, ast.UnaryOp) and isinstance(test.op, ast.Not) and norm(test.operand) in valuation:
            return s if valuation[norm(test.operand)] != pol else None
        return s
    from kfv.terms import Facts
    # the same valuation decides conditional expressions (a helper written as `x if test else y`)
    cb = symexec.SymCB(lambda c: None, track, None, assume, Facts({}, None, dict(valuation)))
    final, exits = symexec.run(f, cb, {k: (v if isinstance(v, Poly) else Poly.atom(v)) for k, v in init.items()})
    return cb, final, exits


def rule_aff_factor(ctx: Ctx) -> None:
    """AFF-EMA, AFF-ID, AFF-ACC on KFACBaseLayer.update_*_factor / save_layer_* / reset_batch."""
    from kfv.terms import Poly
    p = ctx.prog
    ctx.rule('AFF-EMA', 'stored factor = alpha*old + (1-alpha)*new in polynomial normal form', floor=2)
    ctx.rule('AFF-ID', 'a missing factor is first set to the identity of the batch size', floor=2)
    ctx.rule('AFF-ACC', 'batch buffer = sum of `count` micro-batch moments; update divides by count exactly when count > 1 and clears the buffer; reset clears buffer and count together', floor=8)
    for X in ('a', 'g'):
        f = p.get_func(f'layers.base.KFACBaseLayer.update_{X}_factor')
        batch, count, fac = f'self._{X}_batch', f'self._{X}_count', f'self.{X}_factor'
        alpha = Poly.atom('alpha')
        for many in (True, False):
            for have in (True, False):
                val = {f'{batch} is None': False, f'{count} > 1': many, f'{fac} is None': not have}
                cb, fin, exits = _sym_run(ctx, f, val, {batch: 'B', count: 'n', fac: 'F', 'alpha': 'alpha'})
                if fin is None:
                    ctx.violate('AFF-EMA', f, f'update_{X}_factor', f'update_{X}_factor has no normal exit with a pending batch', f.node)
                    continue
                env = dict(fin.env)
                new = Poly.atom('B') * (Poly.atom('n').inverse() if many else Poly.const(1))
                got = env.get(fac)
                if have:
                    want = alpha * Poly.atom('F') + (Poly.const(1) - alpha) * new
                    ctx.check(got == want, 'AFF-EMA', f, f'update_{X}_factor (count>1={many}): {fac} = alpha*old + (1-alpha)*new', f'update_{X}_factor ema many={many}',
                              f'update_{X}_factor stores {got.canon() if got else None}; specified {want.canon()} (old = F, batch sum = B, count = n)', f.node)
                else:
                    # identity initialisation: the old value is whatever the None-branch assigned
                    init_assign = [n_ for n_ in p.nodes(f) if isinstance(n_, ast.Assign) and norm(n_.targets[0]) == fac and any(
                        (norm(a), pol) == (f'{fac} is None', True) for g_ in __import__('kfv.flow', fromlist=['x']).enclosing_guards(p, f, n_)
                        for a, pol in __import__('kfv.rules.spmd_rules', fromlist=['x']).conjuncts(g_.test, g_.polarity))]
                    okid = False
                    if len(init_assign) == 1:
                        got_id = norm(init_assign[0].value).replace(' ', '')
                        for V in sorted({n_.id for n_ in ast.walk(init_assign[0].value) if isinstance(n_, ast.Name)} - {'torch'}):
                            if got_id in (f'torch.diag({V}.new({V}.shape[0]).fill_(1))', f'torch.eye({V}.shape[0],dtype={V}.dtype,device={V}.device)', f'torch.diag({V}.new_ones({V}.shape[0]))'):
                                # V is the new batch moment (whatever the local is called)
                                try:
                                    okid = cb.value(symexec_state(fin), ast.Name(id=V, ctx=ast.Load())) == new
                                except Exception:  # noqa: BLE001
                                    okid = False
                    ctx.check(okid, 'AFF-ID', f, f'update_{X}_factor: first factor = identity of the batch size', f'update_{X}_factor identity',
                              f'update_{X}_factor initialises a missing factor with {norm(init_assign[0].value) if init_assign else "nothing"}; specified: the identity matrix of the size (and dtype) of the new batch moment', init_assign[0] if init_assign else f.node)
                    if init_assign:
                        I0 = cb.value(symexec_state(fin), init_assign[0].value)
                        want = alpha * I0 + (Poly.const(1) - alpha) * new
                        ctx.check(got == want, 'AFF-EMA', f, f'update_{X}_factor first update: alpha*I + (1-alpha)*new', f'update_{X}_factor ema-first many={many}',
                                  f'update_{X}_factor (first update) stores {got.canon() if got else None}; specified {want.canon()}', f.node)
                ctx.check(env.get(batch) == Poly.atom('None'), 'AFF-ACC', f, f'update_{X}_factor clears the batch buffer', f'update_{X}_factor clear many={many} have={have}',
                          f'update_{X}_factor leaves the batch buffer as {env.get(batch).canon() if env.get(batch) else None}; it must be cleared after being consumed', f.node)
        # no batch: nothing changes
        cb, fin, exits = _sym_run(ctx, f, {f'{batch} is None': True}, {batch: 'B', count: 'n', fac: 'F', 'alpha': 'alpha'})
        env = dict(fin.env) if fin else {}
        ctx.check(fin is not None and env.get(fac) == Poly.atom('F'), 'AFF-ACC', f, f'update_{X}_factor without a batch leaves the factor unchanged', f'update_{X}_factor nobatch',
                  f'update_{X}_factor changes the factor to {env.get(fac).canon() if env.get(fac) else None} although no batch was accumulated', f.node)
        # the count test is exactly count > 1
        tests = [n_ for n_ in p.nodes(f) if isinstance(n_, (ast.If, ast.IfExp)) and count in norm(n_.test)]
        okc = len(tests) == 1 and norm(tests[0].test).replace(' ', '') in (f'{count}>1', f'1<{count}', f'{count}>=2', f'{count}!=1')
        ctx.check(okc, 'AFF-ACC', f, f'update_{X}_factor divides exactly when count > 1', f'update_{X}_factor count test',
                  f'update_{X}_factor normalises under `{norm(tests[0].test) if tests else None}`; specified: divide the accumulated sum by the count exactly when more than one micro-batch was accumulated', tests[0] if tests else f.node)
    for X, m, arg in (('a', 'save_layer_input', 'a'), ('g', 'save_layer_grad_output', 'g')):
        f = p.get_func(f'layers.base.KFACBaseLayer.{m}')
        batch, count = f'self._{X}_batch', f'self._{X}_count'
        # the accumulated value is the result of module.get_X_factor(...)
        src = [n_ for n_ in p.nodes(f) if isinstance(n_, ast.Assign) and isinstance(n_.value, ast.Call) and norm(n_.value.func) == f'self.module.get_{X}_factor']
        var = norm(src[-1].targets[0]) if src else None
        ctx.check(bool(src), 'AFF-ACC', f, f'{m}: accumulates module.get_{X}_factor(...)', f'{m} source', f'{m} does not accumulate the result of module.get_{X}_factor', f.node)
        for first in (True, False):
            cb, fin, exits = _sym_run(ctx, f, {f'{batch} is None': first, 'self.grad_scaler is not None': False}, {batch: 'B', count: 'n'})
            if fin is None:
                ctx.violate('AFF-ACC', f, m, f'{m} has no normal exit', f.node)
                continue
            env = dict(fin.env)
            newv = env.get(var) if var else None
            if first:
                ok = newv is not None and env.get(batch) == newv and env.get(count) == Poly.const(1)
                want = '(moment, 1)'
            else:
                ok = newv is not None and env.get(batch) == Poly.atom('B') + newv and env.get(count) == Poly.atom('n') + Poly.const(1)
                want = '(batch + moment, count + 1)'
            ctx.check(ok, 'AFF-ACC', f, f'{m} ({"first" if first else "later"} micro-batch): (batch, count) = {want}', f'{m} first={first}',
                      f'{m} ({"first" if first else "later"} micro-batch) leaves batch = {env.get(batch).canon() if env.get(batch) else None}, count = {env.get(count).canon() if env.get(count) else None}; specified {want}', f.node)
    f = p.get_func('layers.base.KFACBaseLayer.reset_batch')
    cb, fin, exits = _sym_run(ctx, f, {}, {'self._a_batch': 'Ba', 'self._a_count': 'na', 'self._g_batch': 'Bg', 'self._g_count': 'ng'})
    env = dict(fin.env) if fin else {}
    ok = fin is not None and all(env.get(k) == Poly.atom('None') for k in ('self._a_batch', 'self._g_batch')) and all(env.get(k) == Poly.const(0) for k in ('self._a_count', 'self._g_count'))
    ctx.check(ok, 'AFF-ACC', f, 'reset_batch clears both buffers and both counts', 'reset_batch',
              f'reset_batch leaves {[(k, v.canon()) for k, v in env.items() if k.startswith("self._")]}; buffers must become None and counts 0 together', f.node)


def symexec_state(fin: Any) -> Any:
    return fin


def rule_tt_cov(ctx: Ctx) -> None:
    """TT-COV, TT-BIAS1, TT-CONV, AFF-SCALER, TT-FDTYPE."""
    p = ctx.prog
    ctx.assumptions.add('A3')
    ctx.rule('TT-COV', 'get_cov(a) = a^T (a / rows), a symmetric Gram matrix over the feature space, symmetrised with coefficients summing to 1', floor=3)
    ctx.rule('TT-BIAS1', 'the appended bias column is constant 1 and is the last column', floor=2)
    ctx.rule('TT-CONV', 'convolution moments are normalised by the number of output positions taken from the right axes', floor=2)
    ctx.rule('AFF-SCALER', 'with a gradient scaler the output gradient is divided by the loss scale before the second moment is taken', floor=2)
    ctx.rule('TT-FDTYPE', 'inputs / output gradients are cast to the factor dtype before the moments are computed', floor=2)
    # get_cov on a generic 2-D input
    it = Interp(p, {'b is None': True, 'scale is None': True, 'len(a.shape) != 2': False}, layer_oracle)
    f = p.get_func('layers.utils.get_cov')
    r, _ = it.call_function(f, {'a': TV(('R', 'F'), XU, 'factor'), 'b': NONE, 'scale': NONE}, {})
    _report_all(ctx, 'TT-COV', it, 'get_cov')
    _incomplete(it, 'get_cov')
    ok = isinstance(r, TV) and r.axes == ('F', 'F') and 'sym' in r.quals and r.unit == (('x', 2),)
    ctx.check(ok, 'TT-COV', f, f'get_cov: {r}', 'get_cov type', f'get_cov yields {r}; specified: a symmetric (F, F) second moment a^T a of its 2-D input (R, F)', f.node)
    coef = dict(r.coef) if isinstance(r, TV) else {}
    okc = coef.get('(R)') == -1 and {k: v for k, v in coef.items() if k != '(R)'} in ({}, {'2.0': -1, '2': 1}, {'2.0': 0})
    # symmetrisation (x + x^T)/2 contributes 2 * 1/2 = 1: accept exactly coefficient 1/R overall
    ctx.check(coef.get('(R)') == -1, 'TT-COV', f, f'get_cov: normalised by the number of rows (coef {r.coef if isinstance(r, TV) else None})', 'get_cov rows',
              f'get_cov normalises with {r.coef if isinstance(r, TV) else None}; specified: divide once by the number of rows', f.node)
    # symmetrisation coefficients
    rets = [n for n in p.nodes(f) if isinstance(n, ast.Return) and n.value is not None and '.t()' in norm(n.value) and '+' in norm(n.value)]
    for n in rets:
        from kfv.terms import Normalizer
        from kfv.terms import Poly
        nz = Normalizer({}, lambda x: ('CT' if isinstance(x, ast.Call) and norm(x).endswith('.t()') else None))
        pol = nz.poly(n.value)
        names = [a for a in pol.atoms() if a not in ('CT',)]
        tot = sum((c for k, c in pol.t.items()), start=__import__('fractions').Fraction(0))
        ctx.check(tot == 1 and len(pol.t) == 2, 'TT-COV', f, f'symmetrisation {norm(n.value)}: coefficients sum to 1', 'get_cov symmetrisation',
                  f'get_cov symmetrises as {norm(n.value)}: the coefficients of C and C^T must sum to 1', n)
    # append_bias_ones
    f2 = p.get_func('layers.utils.append_bias_ones')
    it2 = Interp(p, {}, layer_oracle)
    r2, _ = it2.call_function(f2, {'tensor': TV(('R', 'F'), XU, 'factor')}, {})
    _incomplete(it2, 'append_bias_ones')
    cats = [ev for ev in it2.events if ev[0] == 'cat']
    okb = isinstance(r2, TV) and r2.axes == ('R', ('cat', 'F', 'ONE')) and len(cats) == 1 and cats[0][3][2] == [None, '1'] and cats[0][3][0] == cats[0][3][1] - 1
    ctx.check(okb, 'TT-BIAS1', f2, f'append_bias_ones: {r2}, appended constants {cats[0][3][2] if cats else None}', 'append_bias_ones',
              f'append_bias_ones yields {r2} from parts with constants {cats[0][3][2] if cats else None} along dim {cats[0][3][0] if cats else None}; specified: the input followed by one column of ones on the last axis', f2.node)
    r3, _ = it2.call_function(f2, {'tensor': TV(('B', 'S', 'F'), XU, 'factor')}, {})
    ctx.check(isinstance(r3, TV) and r3.axes == ('B', 'S', ('cat', 'F', 'ONE')), 'TT-BIAS1', f2, f'append_bias_ones on N-d input: {r3}', 'append_bias_ones nd',
              f'append_bias_ones on an N-d input yields {r3}; the ones must be appended on the last axis', f2.node)
    # conv normalisation
    orc = helper_oracle('conv', True)
    ita, A = _call(ctx, CONV, 'get_a_factor', {'a': TV(('B', 'C', 'H', 'W'), XU, 'factor')}, orc, helper_flags(True))
    _need(A, 'Conv2dModuleHelper.get_a_factor')
    fa = p.lookup_method(CONV, 'get_a_factor')
    cA = dict(A.coef) if isinstance(A, TV) else {}
    wH = "(win(pad(H,padding[0]),kernel_size[0],stride[0]))"
    wW = "(win(pad(W,padding[1]),kernel_size[1],stride[1]))"
    rows = f'(prod(B,{wH[1:-1]},{wW[1:-1]}))'
    sp = f'(prod({wH[1:-1]},{wW[1:-1]}))'
    wantA = {rows: -1, sp: -2}
    ctx.check(cA == wantA, 'TT-CONV', fa, f'conv A: coefficient {A.coef if isinstance(A, TV) else None}', 'conv A coef',
              f'Conv2d get_a_factor normalises with {A.coef if isinstance(A, TV) else None}; specified: 1/rows for the mean and 1/(OH*OW) on each patch factor (spatial size = size(1)*size(2) of the patch tensor)', fa.node)
    itg, G = _call(ctx, CONV, 'get_g_factor', {'g': TV(('B', 'OUT', 'OH', 'OW'), GAMMA, 'factor')}, orc, helper_flags(True))
    _need(G, 'Conv2dModuleHelper.get_g_factor')
    fg = p.lookup_method(CONV, 'get_g_factor')
    cG = dict(G.coef) if isinstance(G, TV) else {}
    wantG = {'(prod(B,OH,OW))': -1, '(prod(OH,OW))': -2}
    ctx.check(cG == wantG, 'TT-CONV', fg, f'conv G: coefficient {G.coef if isinstance(G, TV) else None}', 'conv G coef',
              f'Conv2d get_g_factor normalises with {G.coef if isinstance(G, TV) else None}; specified: 1/rows and 1/(OH*OW) per factor with (OH, OW) = size(2), size(3) of the output gradient', fg.node)
    # scaler / factor dtype in the layer
    for m, argname, arg in (('save_layer_input', 'input_', T.ListV((TV(('B', 'IN'), XU, 'input', frozenset(), frozenset({'hook.input'})),))),
                            ('save_layer_grad_output', 'grad_output', T.ListV((TV(('B', 'OUT'), (('gamma', 1), ('sigma', 1)), 'input', frozenset(), frozenset({'hook.grad_output'})),)))):
        for scaler in ((True, False) if m == 'save_layer_grad_output' else (False,)):
            calls: list = []

            def orc2(it_: Interp, fn: Func, node: ast.AST, s: Any, _calls: list = calls) -> Any:
                t = norm(node)
                if isinstance(node, ast.Call) and t.startswith('self.module.get_') and node.args:
                    v, _s = T._CB(it_, fn).ev(node.args[0], s, True)
                    _calls.append((node, v))
                    return TV(('F', 'F'), umul2(v), 'factor', frozenset({'sym'})) if isinstance(v, TV) else T.Top('arg')
                if t == 'self.grad_scaler()':
                    return SV((('sigma', 1),), 'scale', 'num')
                if t == 'self.grad_scaler':
                    return ObjV('scaler') if scaler else NONE
                return layer_oracle(it_, fn, node, s)
            it3 = Interp(p, {'self.grad_scaler is not None': scaler}, orc2)
            it3.concrete = [BASE]
            f3 = p.get_func(f'layers.base.KFACBaseLayer.{m}')
            sl = base_slots(BASE, {'_a_batch': NONE, '_g_batch': NONE, '_a_count': SV((), '0', 'num'), '_g_count': SV((), '0', 'num')})
            it3.call_function(f3, {'self': ObjV('self'), argname: arg}, sl)
            _incomplete(it3, f'KFACBaseLayer.{m}', (m,))
            v = calls[0][1] if calls else None
            ctx.check(isinstance(v, TV) and v.dtype == 'factor', 'TT-FDTYPE', f3, f'{m}: moment computed on {v}', f'{m} dtype scaler={scaler}',
                      f'{m} passes {v} to the module helper; the tensor must be cast to the factor dtype first', calls[0][0] if calls else f3.node)
            if m == 'save_layer_grad_output':
                want_u = GAMMA if scaler else (('gamma', 1), ('sigma', 1))
                ctx.check(isinstance(v, TV) and v.unit == want_u, 'AFF-SCALER', f3, f'{m} (scaler={scaler}): unit {T.ustr(v.unit) if isinstance(v, TV) else None}', f'{m} scaler={scaler}',
                          f'{m} with{"" if scaler else "out"} a gradient scaler takes the second moment of a tensor with unit {T.ustr(v.unit) if isinstance(v, TV) else None}; '
                          f'specified {T.ustr(want_u)} (the loss scale must be divided out exactly once when a scaler is supplied)', calls[0][0] if calls else f3.node)


def umul2(v: TV) -> tuple:
    return T.umul(v.unit, v.unit)


# --------------------------------------------------------------------------- alias rules (E5)

def rule_alias_grad(ctx: Ctx) -> None:
    """ALIAS-GRAD: nothing writes into storage aliased with a module gradient between preconditioning and write-back
    (KAISA layers here; the GPT-NeoX layer in rule_gpt_layer)."""
    p = ctx.prog
    rule_alias_pool(ctx)
    ctx.rule('ALIAS-GRAD', 'preconditioned_grad / broadcast_grad never write in place into storage aliased with module.weight.grad / bias.grad', floor=3)
    for tag, cls, flags in (('eigen', EIG, {'self.symmetric_factors': True, 'self.prediv_eigenvalues': False}),
                            ('eigen+prediv', EIG, {'self.symmetric_factors': True, 'self.prediv_eigenvalues': True}),
                            ('inverse', INV, {'self.symmetric_factors': True})):
        it, sl = run_methods(ctx, cls, ['compute_a_inv', 'compute_g_inv', 'preconditioned_grad'], flags)
        bad = [ev for ev in it.events if ev[0] == 'inplace' and any(a.startswith('param.grad') for a in ev[3][1].alias)]
        f = p.lookup_method(cls, 'preconditioned_grad')
        for ev in bad:
            ctx.violate('ALIAS-GRAD', ev[1], norm(ev[2])[:100], f'[{tag}] {ev[3][0]} writes into {ev[3][1]}, which may share storage with the module gradient: '
                        '_compute_grad_scale would read an overwritten gradient', ev[2])
        if not bad:
            ctx.ok('ALIAS-GRAD', f, f'[{tag}] no in-place write on an alias of the module gradient', f.node)
        # the stored preconditioned gradient itself must not alias the module gradient (update would be applied to its own input)
        g = sl.get('grad') if sl else None
        if isinstance(g, TV):
            ctx.check(not any(a.startswith('param.grad') for a in g.alias), 'ALIAS-GRAD', f, f'[{tag}] grad slot is a fresh tensor', f'{tag} grad slot alias',
                      f'[{tag}] the preconditioned gradient stored in the layer may alias the module gradient ({sorted(g.alias)})', f.node)
        # a gradient receiver: the buffer handed to the broadcast (which writes into it) must not alias the module gradient
        fb = p.lookup_method(cls, 'broadcast_grad')
        it_r = Interp(p, {**flags, 'get_rank() == src': False}, layer_oracle)
        it_r.concrete = [cls]
        _r, fin = it_r.call_function(fb, {'self': ObjV('self'), 'src': SV((), 'src', 'num'), 'group': ObjV('group')}, base_slots(cls))
        cm = [ev for ev in it_r.events if ev[0] == 'comm']
        badr = [ev for ev in cm if isinstance(ev[3][1], TV) and any(a.startswith('param.grad') for a in ev[3][1].alias)]
        for ev in badr:
            ctx.violate('ALIAS-GRAD', ev[1], f'[{tag}] ' + norm(ev[2])[:90], f'[{tag}] broadcast_grad on a receiver passes {ev[3][1]} to the broadcast, which writes the received values into it, '
                        f'and it may share storage with the module gradient ({sorted(ev[3][1].alias)}): _compute_grad_scale would read the preconditioned gradient in place of the gradient', ev[2])
        if cm and not badr:
            ctx.ok('ALIAS-GRAD', fb, f'[{tag}] receive buffer of broadcast_grad is fresh', fb.node)


def _key_identifies_layer(p, m: Func, key: ast.expr) -> bool:  # noqa: ANN001
    """The key contains the layer's own identity: self, self.name, self.module or id(...) of one of them, as an
    element (not merely something computed from them such as a shape)."""
    parents = p.modules[m.module].parents
    todo = [key]
    seen: set[str] = set()
    while todo:
        e = todo.pop()
        for x in ast.walk(e):
            t = norm(x)
            if t in ('self', 'self.name', 'self.module', 'id(self)', 'id(self.module)'):
                par = parents.get(id(x))
                if t.startswith('id(') or not (isinstance(par, ast.Attribute) or (isinstance(par, ast.Call) and par.func is x)):
                    if not (t == 'self' and isinstance(par, ast.Attribute)):
                        return True
            if isinstance(x, ast.Name) and isinstance(x.ctx, ast.Load) and x.id not in seen and x.id != 'self':
                seen.add(x.id)
                todo.extend(p.local_defs(m, x.id))
    return False


def rule_alias_pool(ctx: Ctx) -> None:
    """ALIAS-POOL: a tensor slot of a layer is never bound to storage taken from a container that other layers can
    reach under the same key (buffer pools keyed by shape / dtype): two layers would then hold one tensor."""
    p = ctx.prog
    ctx.rule('ALIAS-POOL', 'tensor slots of a layer are bound to fresh tensors or to storage keyed by the layer itself, never to a pooled buffer other layers can obtain', floor=1)
    slots_all = {'grad', 'a_factor', 'g_factor', 'a_inv', 'g_inv', 'qa', 'qg', 'da', 'dg', 'dgda', '_a_batch', '_g_batch'}
    # attributes that constructors initialise as containers (dict / list / defaultdict, or annotated as such)
    containers: set[str] = set()
    for g in p.functions():
        if g.name != '__init__':
            continue
        for st in p.nodes(g):
            if isinstance(st, (ast.Assign, ast.AnnAssign)):
                tg = st.targets[0] if isinstance(st, ast.Assign) else st.target
                ann = norm(getattr(st, '_kfv_ann', None) or getattr(st, 'annotation', None) or ast.Constant(value=''))
                v = st.value
                if isinstance(tg, ast.Attribute) and v is not None and (isinstance(v, (ast.Dict, ast.List, ast.DictComp, ast.ListComp))
                                                                        or (isinstance(v, ast.Call) and norm(v.func).split('.')[-1] in ('dict', 'list', 'defaultdict', 'OrderedDict'))
                                                                        or ann.startswith(('dict[', 'list[', 'Dict[', 'List[', 'defaultdict['))):
                    containers.add(tg.attr)
    n = 0
    for c in p.subclasses(BASE):
        for m in c.methods.values():
            for st in p.nodes(m):
                if not isinstance(st, ast.Assign):
                    continue
                for t in st.targets:
                    if not (isinstance(t, ast.Attribute) and isinstance(t.value, ast.Name) and t.value.id == 'self' and t.attr.lstrip('_') in {x.lstrip('_') for x in slots_all}):
                        continue
                    n += 1
                    # loads `<container>[key]` the value may come from (through locals)
                    srcs = [st.value]
                    seen: set[str] = set()
                    pooled = []
                    while srcs:
                        e = srcs.pop()
                        for x in ast.walk(e):
                            if isinstance(x, ast.Subscript) and isinstance(x.ctx, ast.Load) and isinstance(x.value, ast.Attribute) and norm(x.value).startswith('self.') \
                                    and x.value.attr in containers and not isinstance(x.slice, ast.Slice) \
                                    and not (isinstance(x.slice, ast.Tuple) and any(isinstance(z, ast.Slice) for z in x.slice.elts)):
                                par = p.modules[m.module].parents.get(id(x))
                                if isinstance(par, (ast.Attribute, ast.Call)) and not (isinstance(par, ast.Call) and x in par.args):
                                    continue     # container[key].attr / container[key](...) : not the stored object itself
                                pooled.append(x)
                            if isinstance(x, ast.Name) and isinstance(x.ctx, ast.Load) and x.id not in seen and x.id != 'self' and (x is e or e is st.value or True):
                                seen.add(x.id)
                        for nm in list(seen):
                            for d in p.local_defs(m, nm):
                                if id(d) not in {id(z) for z in srcs} and not getattr(d, '_kfv_seen', False):
                                    d._kfv_seen = True  # type: ignore[attr-defined]
                                    if isinstance(d, (ast.Subscript, ast.Name, ast.IfExp)):
                                        srcs.append(d)
                    for x in pooled:
                        ident = _key_identifies_layer(p, m, x.slice)
                        ctx.check(ident, 'ALIAS-POOL', m, f'{norm(t)} <- {norm(x)[:60]} keyed by the layer', f'{norm(t)} <- {norm(x)[:70]}',
                                  f'{m.short}: {norm(t)} is bound to {norm(x)}, a buffer held in a container outside the layer under a key ({norm(x.slice)}) that does not identify the layer: '
                                  'another layer with the same key receives into / reads from the same storage', st)
    ctx.ok('ALIAS-POOL', 'kfac.layers', f'{n} slot assignments scanned; none takes pooled storage', None)


def rule_alias_input(ctx: Ctx) -> None:
    """ALIAS-INPUT: no in-place sink reachable from hook inputs; ALIAS-FACTOR: factor slots are rebound, never mutated in place."""
    p = ctx.prog
    ctx.rule('ALIAS-INPUT', 'no in-place operation reaches the tensors handed to the forward-pre / backward hooks', floor=6)
    ctx.rule('ALIAS-FACTOR', 'factor slots are rebound, never mutated in place (state dicts and pending futures hand out aliases)', floor=4)
    for kind, hcls in (('linear', LIN), ('conv', CONV)):
        for padded in ((True, False) if kind == 'conv' else (True,)):
            for scaler in (True, False):
                orc0 = helper_oracle(kind, True)

                def orc(it_: Interp, fn: Func, node: ast.AST, s: Any, _sc: bool = scaler) -> Any:
                    t = norm(node)
                    if t == 'self.grad_scaler()':
                        return SV((('sigma', 1),), 'scale', 'num')
                    if t == 'self.grad_scaler':
                        return ObjV('scaler') if _sc else NONE
                    if fn.cls and fn.cls.startswith('kfac.layers.modules'):
                        return orc0(it_, fn, node, s)
                    if t == 'self.module':
                        return ObjV('helper')
                    return layer_oracle(it_, fn, node, s)
                it = Interp(p, {**helper_flags(True, padded), 'self.grad_scaler is not None': scaler}, orc)
                it.concrete = [BASE, hcls]
                it.objects = {'helper': {'__class__': 'kfac.' + hcls[5:] if not hcls.startswith('kfac.') else hcls}}
                it.object_flags = {'helper': helper_flags(True, padded)}
                xin = TV(('B', 'IN'), XU, 'input', frozenset(), frozenset({'hook.input'})) if kind == 'linear' else TV(('B', 'C', 'H', 'W'), XU, 'input', frozenset(), frozenset({'hook.input'}))
                gin = TV(('B', 'OUT'), GAMMA, 'input', frozenset(), frozenset({'hook.grad_output'})) if kind == 'linear' else TV(('B', 'OUT', 'OH', 'OW'), GAMMA, 'input', frozenset(), frozenset({'hook.grad_output'}))
                sl = base_slots(BASE, {'_a_batch': NONE, '_g_batch': NONE, '_a_count': SV((), '0', 'num'), '_g_count': SV((), '0', 'num')})
                for m, argname, arg in (('save_layer_input', 'input_', T.ListV((xin,))), ('save_layer_grad_output', 'grad_output', T.ListV((gin,)))):
                    f = p.get_func(f'layers.base.KFACBaseLayer.{m}')
                    n0 = len(it.events)
                    it.call_function(f, {'self': ObjV('self'), argname: arg}, sl)
                    bad = [ev for ev in it.events[n0:] if ev[0] == 'inplace' and any(a.startswith('hook.') for a in ev[3][1].alias)]
                    tag = f'{kind} padded={padded} scaler={scaler}'
                    for ev in bad:
                        ctx.violate('ALIAS-INPUT', ev[1], norm(ev[2])[:100], f'[{tag}] {m}: {ev[3][0]} modifies {ev[3][1]}, which may share storage with the tensor autograd handed to the hook '
                                    f'({sorted(ev[3][1].alias)}): registering K-FAC would change the model\'s activations / gradients', ev[2])
                    if not bad:
                        ctx.ok('ALIAS-INPUT', f, f'[{tag}] {m}: no in-place write reaches the hook tensors', f.node)
                unk = [(fn.short, getattr(n, 'lineno', 0), why) for fn, n, why in it.unknown]
                if unk:
                    raise AnalysisIncomplete(f'ALIAS-INPUT [{kind}]: operator outside the vocabulary: {unk[:3]}')
    # factor slots
    for cls, flags, methods in ((BASE, {'self._a_batch is None': False, 'self._g_batch is None': False}, ['update_a_factor', 'update_g_factor']),
                                (EIG, {'self.symmetric_factors': True, 'self.prediv_eigenvalues': True}, ['compute_a_inv', 'compute_g_inv']),
                                (INV, {'self.symmetric_factors': True}, ['compute_a_inv', 'compute_g_inv'])):
        sl = base_slots(cls, {'_a_batch': TV(('A', 'A'), LA, 'factor'), '_g_batch': TV(('G', 'G'), LG, 'factor'), '_a_count': SV((), '2', 'num'), '_g_count': SV((), '2', 'num')})
        it, _sl = run_methods(ctx, cls, methods, flags, sl)
        bad = [ev for ev in it.events if ev[0] == 'inplace' and any(a.startswith('slot:') for a in ev[3][1].alias)]
        for ev in bad:
            ctx.violate('ALIAS-FACTOR', ev[1], norm(ev[2])[:100], f'{ev[3][0]} mutates {ev[3][1]}, which may share storage with a running-average factor ({sorted(ev[3][1].alias)}): '
                        'the stored factor (and every state_dict that references it) would change', ev[2])
        if not bad:
            for m in methods:
                ctx.ok('ALIAS-FACTOR', p.lookup_method(cls, m), f'{cls.rsplit(".", 1)[1]}.{m}: factors only read / rebound', None)


# --------------------------------------------------------------------------- GPT-NeoX layer (C11, C07)

GH = 'kfac.gpt_neox.modules.GPTNeoXLinearModuleHelper'


def gpt_axes(par: str, bias: bool, mp: bool = True) -> tuple[tuple, tuple, Any, Any]:
    """(weight shard axes, bias shard axes, A space, G space) for column-parallel ('output') / row-parallel ('input') layers."""
    if not mp:
        w = ('OUT', 'IN')
        b = ('OUT',)
    elif par == 'output':
        w = (('shard', 'OUT'), 'IN')
        b = (('shard', 'OUT'),)
    else:
        w = ('OUT', ('shard', 'IN'))
        b = ('OUT',)
    A = ('cat', 'IN', 'ONE') if bias else 'IN'
    return w, b, A, 'OUT'


def gpt_oracle(par: str, bias: bool, primary: bool, mp: bool):  # noqa: ANN201
    w, b, A, G = gpt_axes(par, bias, mp)

    def oracle(it: Interp, f: Func, node: ast.AST, s: Any) -> Any:
        t = norm(node)
        if t in ('self.module.get_weight_grad()', 'self.module.weight.grad'):
            return TV(w, GAMMA, 'grad', frozenset(), frozenset({'param.grad:weight'}))
        if t in ('self.module.get_bias_grad()', 'self.module.bias.grad'):
            return TV(b, GAMMA, 'grad', frozenset(), frozenset({'param.grad:bias'})) if bias else NONE
        if t == 'self.module.weight':
            return TV(w, (), 'param', frozenset(), frozenset({'param:weight'}))
        if t == 'self.module.bias':
            return ObjV('bias') if bias else NONE
        if t in ('self.module.has_bias()', 'self.has_bias()'):
            return SV((), 'True' if bias else 'False', 'flag')
        if t == 'self.primary_rank':
            return SV((), 'primary', 'num')
        if t in ('self.model_parallel_group', 'self.data_parallel_group', 'self.pipe_parallel_peer_group', 'model_parallel_group'):
            return ObjV(t.split('.')[-1])
        if t == 'self.model_parallel_world_size':
            return SV((), 'mp', 'mp')
        if t == 'self.parallelism':
            return ObjV(repr(par))
        if t.startswith('dist.get_world_size(') or t.startswith('get_world_size('):
            return SV((), 'mp', 'mp')
        return layer_oracle(it, f, node, s)
    return oracle


def gpt_flags(par: str, bias: bool, primary: bool, mp: bool, prediv: bool = False) -> dict:
    return {"self.parallelism == 'input'": par == 'input', "self.parallelism == 'output'": par == 'output', 'self.module.has_bias()': bias, 'self.has_bias()': bias,
            'get_world_size(self.model_parallel_group) > 1': mp, 'world_size == 1': not mp, 'dist.get_rank() == dst': primary, 'get_rank() == self.primary_rank': primary,
            'get_rank() != self.primary_rank': not primary, 'self.primary_rank is None': False, 'self.prediv_eigenvalues': prediv, 'self.symmetric_factors': True,
            'model_parallel_group is None': False, 'dt == torch.bfloat16 and fp32_allreduce': False, 'fp32_allreduce': False, 'dim_size % num_partitions != 0': False, 'contiguous_split_chunks': True,
            'self.grad_scaler is not None': False}


def gpt_slots(par: str, bias: bool, primary: bool) -> dict:
    _w, _b, A, G = gpt_axes(par, bias)
    sl = base_slots(GPT)
    sl['a_factor'] = TV((A, A), LA, 'factor', frozenset({'sym'}), frozenset({'slot:a_factor'})) if primary else NONE
    sl['g_factor'] = TV((G, G), LG, 'factor', frozenset({'sym'}), frozenset({'slot:g_factor'})) if primary else NONE
    if primary:
        sl.update({'qa': TV((A, ('eig', A)), (), 'inv', frozenset({'orth'})), 'qg': TV((G, ('eig', G)), (), 'inv', frozenset({'orth'})),
                   'da': TV((('eig', A),), LA, 'inv', frozenset({'nonneg'})), 'dg': TV((('eig', G),), LG, 'inv', frozenset({'nonneg'}))})
    return sl


def rule_gpt_layer(ctx: Ctx) -> None:
    """TT-GPT, SIB-DIM, ALIAS-GRAD (GPT), COH-PRIMARY, DOM-GATHER for GPTNeoXKFACEigenLayer."""
    p = ctx.prog
    ctx.assumptions |= {'A2', 'A3'}
    ctx.rule('TT-GPT', 'the GPT-NeoX preconditioned gradient has the typed algebra of the unsharded layer on the primary rank and every rank ends with exactly its own shard', floor=16)
    ctx.rule('SIB-DIM', 'gather and split of the gradient use the same dimension (last for input-parallel, first for output-parallel); scatter buffers match the shards', floor=9)
    ctx.rule('ALIAS-GRAD', 'preconditioned_grad / broadcast_grad never write in place into storage aliased with module.weight.grad / bias.grad', floor=12)
    ctx.rule('COH-PRIMARY', 'shards are gathered to, and results sent from, the same primary rank of the layer', floor=4)
    f = p.lookup_method(GPT, 'preconditioned_grad')
    if f is None:
        raise AnalysisIncomplete('GPTNeoXKFACEigenLayer.preconditioned_grad not found')
    for par in ('input', 'output'):
        for bias in (True, False):
            for mp in (True, False):
                for primary in ((True, False) if mp else (True,)):
                    tag = f'{par}-parallel {"bias" if bias else "nobias"} mp{">1" if mp else "=1"} {"primary" if primary else "peer"}'
                    it = Interp(p, gpt_flags(par, bias, primary, mp), gpt_oracle(par, bias, primary, mp))
                    it.concrete = [GPT]
                    it.single_partition = not mp
                    sl = gpt_slots(par, bias, primary)
                    _r, fin = it.call_function(f, {'self': ObjV('self'), 'damping': DAMP}, sl)
                    nerr = _report_all(ctx, 'TT-GPT', it, tag)
                    unk = [(fn.short, getattr(n, 'lineno', 0), why) for fn, n, why in it.unknown]
                    if unk:
                        raise AnalysisIncomplete(f'GPT layer [{tag}]: operator outside the vocabulary: {unk[:3]}')
                    if fin is None:
                        ctx.violate('TT-GPT', f, tag, f'[{tag}] preconditioned_grad has no normal exit', f.node)
                        continue
                    g = dict(fin.slots).get('grad')
                    w, b, A, G = gpt_axes(par, bias, mp)
                    want_cols = ('cat', w[1], 'ONE') if bias else w[1]
                    ok = isinstance(g, TV) and g.axes == (w[0], want_cols)
                    if nerr == 0:
                        ctx.check(ok, 'TT-GPT', f, f'[{tag}] result {g}', f'{tag} result',
                                  f'[{tag}] the stored gradient is {g}; specified: this rank\'s shard of the combined gradient {T.axes_str((w[0], want_cols))}', f.node)
                    if isinstance(g, TV) and primary and not mp:
                        ctx.check(g.unit == WANT_UNIT and g.dtype == 'grad', 'TT-GPT', f, f'[{tag}] unit {T.ustr(g.unit)}, dtype {g.dtype}', f'{tag} unit',
                                  f'[{tag}] the preconditioned gradient has unit {T.ustr(g.unit)} / dtype {g.dtype}; specified gamma/(lamG*lamA) in the gradient dtype', f.node)
                    # gather / split dims and scatter buffers
                    gc = [ev for ev in it.events if ev[0] == 'gather-cat']
                    sp = [ev for ev in it.events if ev[0] == 'split']
                    for ev in it.events:
                        if ev[0] == 'dist' and ev[3][0] == 'reduce_scatter' and len(ev[3][1]) >= 2:
                            out, lst = ev[3][1][0], ev[3][1][1]
                            el = lst.items[0] if isinstance(lst, T.ListV) and lst.items else None
                            okd = isinstance(out, TV) and isinstance(el, TV) and out.axes == el.axes
                            ctx.check(okd, 'SIB-DIM', ev[1], f'[{tag}] reduce_scatter: buffer {out} <- chunks {el}', f'{tag} {norm(ev[2])[:60]}',
                                      f'[{tag}] reduce_scatter receives into {out} but scatters chunks {el}: gather and split dimensions (or the buffers) disagree', ev[2])
                    if mp and primary:
                        dims = sorted({(e_[3][0]) for e_ in gc if len(e_[3]) == 2 and e_[1].name == 'gather_from_model_parallel_region'})
                        want_dim = -1 if par == 'input' else 0
                        wd = [e_ for e_ in gc if isinstance(e_[3][1], tuple) and e_[3][1] and e_[3][1][0] == 'shard' and e_[3][1] in w]
                    # aliases
                    bad = [ev for ev in it.events if ev[0] == 'inplace' and any(a.startswith('param.grad') for a in ev[3][1].alias)]
                    for ev in bad:
                        ctx.violate('ALIAS-GRAD', ev[1], norm(ev[2])[:100], f'[{tag}] {ev[3][0]} writes into {ev[3][1]}, which may share storage with the module gradient '
                                    f'({sorted(ev[3][1].alias)}): the original gradient is overwritten before _compute_grad_scale reads it', ev[2])
                    if not bad:
                        ctx.ok('ALIAS-GRAD', f, f'[{tag}] no in-place write on an alias of the module gradient', f.node)
    # COH-PRIMARY: syntactic over the layer
    for m in ('preconditioned_grad', 'save_layer_input', 'save_layer_grad_output'):
        g_ = p.lookup_method(GPT, m)
        if g_ is None:
            continue
        for c in p.calls_in(g_):
            fn = norm(c.func)
            if fn.endswith('gather_from_model_parallel_region'):
                d = [k.value for k in c.keywords if k.arg == 'dst'] or (c.args[1:2])
                grp = [k.value for k in c.keywords if k.arg == 'model_parallel_group'] or (c.args[2:3])
                ctx.check(bool(d) and norm(d[0]) == 'self.primary_rank' and bool(grp) and norm(grp[0]) == 'self.model_parallel_group', 'COH-PRIMARY', g_, f'{m}: gather to self.primary_rank on the model-parallel group', norm(c)[:80],
                          f'{m}: {norm(c)[:100]} does not gather to the layer\'s primary rank inside its model-parallel group', c)
            if fn in ('torch.distributed.broadcast', 'dist.broadcast'):
                srcs = [k.value for k in c.keywords if k.arg == 'src'] or c.args[1:2]
                grp = [k.value for k in c.keywords if k.arg == 'group']
                ctx.check(bool(srcs) and norm(srcs[0]) == 'self.primary_rank' and bool(grp) and norm(grp[0]) == 'self.model_parallel_group', 'COH-PRIMARY', g_, f'{m}: broadcast from self.primary_rank', norm(c)[:80],
                          f'{m}: {norm(c)[:100]}: the replicated result lives on the primary rank; broadcasting from another root sends an unpreconditioned buffer', c)
            if fn in ('torch.distributed.reduce_scatter', 'dist.reduce_scatter'):
                grp = [k.value for k in c.keywords if k.arg == 'group']
                ctx.check(bool(grp) and norm(grp[0]) == 'self.model_parallel_group', 'COH-PRIMARY', g_, f'{m}: scatter inside the model-parallel group', norm(c)[:80],
                          f'{m}: {norm(c)[:100]} is not issued on the layer\'s model-parallel group', c)


def rule_gpt_helper(ctx: Ctx) -> None:
    """TT-SHAPEFN (GPT helper) + DOM-GATHER + SIB-DUAL."""
    import re
    p = ctx.prog
    ctx.rule('TT-SHAPEFN', 'advertised factor shapes equal the shapes of the factors the helper computes', floor=8)
    ctx.rule('DOM-GATHER', 'on the sharded side the gathered tensor (not the local shard) flows into the second-moment code, on the primary rank only', floor=14)
    ctx.rule('SIB-DUAL', 'reduce_a_factor / reduce_g_factor are mirror images: sharded factor -> primary rank on the data-parallel group, replicated factor -> stage peers', floor=1)
    for par in ('input', 'output'):
        for bias in (True, False):
            tag = f'{par}-parallel {"bias" if bias else "nobias"}'
            orc = gpt_oracle(par, bias, True, True)
            fl = gpt_flags(par, bias, True, True)
            _w, _b, A, G = gpt_axes(par, bias, True)
            for prop, want in (('a_factor_shape', A), ('g_factor_shape', G)):
                it, shp = _call(ctx, GH, prop, {}, orc, fl, 'getter')
                fp = p.lookup_method(GH, prop, 'getter')
                got = None
                if isinstance(shp, T.ListV) and len(shp.items) == 2 and all(isinstance(x, SV) and x.kind == 'size' for x in shp.items):
                    got = tuple(x.size for x in shp.items)
                ctx.check(got == (want, want), 'TT-SHAPEFN', fp, f'[{tag}] {prop} = {T.axes_str(got) if got else shp}', f'{tag} {prop}',
                          f'[{tag}] {prop} advertises {T.axes_str(got) if got else shp}; the factor of the unsharded layer is over {T.axes_str((want, want))} '
                          '(only the sharded dimension is multiplied by the model-parallel size)', fp.node)
            # gather before the moments
            for m, argname, shard_when, local in (('save_layer_input', 'input_', 'input', ('B', ('shard', 'IN')) if par == 'input' else ('B', 'IN')),
                                                  ('save_layer_grad_output', 'grad_output', 'output', ('B', ('shard', 'OUT')) if par == 'output' else ('B', 'OUT'))):
                for primary in (True, False):
                    calls: list = []
                    base_orc = gpt_oracle(par, bias, primary, True)

                    def orc2(it_: Interp, fn: Func, node: ast.AST, s: Any, _c: list = calls, _m: str = m) -> Any:
                        if isinstance(node, ast.Call) and norm(node.func) == f'super().{_m}' and node.args:
                            v, _s = T._CB(it_, fn).ev(node.args[0], s, True)
                            _c.append((node, v))
                            return NONE
                        return base_orc(it_, fn, node, s)
                    it = Interp(p, gpt_flags(par, bias, primary, True), orc2)
                    it.concrete = [GPT]
                    f = p.lookup_method(GPT, m)
                    it.call_function(f, {'self': ObjV('self'), argname: T.ListV((TV(local, XU, 'input', frozenset(), frozenset({'hook'})),))}, gpt_slots(par, bias, primary))
                    unk = [(fn.short, getattr(n, 'lineno', 0), why) for fn, n, why in it.unknown]
                    if unk:
                        raise AnalysisIncomplete(f'GPT {m} [{tag}]: {unk[:3]}')
                    sharded = par == shard_when
                    full = ('B', 'IN') if m == 'save_layer_input' else ('B', 'OUT')
                    if sharded and not primary:
                        ctx.check(not calls, 'DOM-GATHER', f, f'[{tag}] {m}: non-primary rank accumulates nothing for the sharded side', f'{tag} {m} peer',
                                  f'[{tag}] {m}: a non-primary rank feeds {[str(c[1]) for c in calls]} into the moment code although only the primary rank holds the gathered tensor', f.node)
                    else:
                        v = calls[0][1] if calls else None
                        el = v.items[0] if isinstance(v, T.ListV) and v.items else v
                        ctx.check(len(calls) == 1 and isinstance(el, TV) and el.axes == full, 'DOM-GATHER', f, f'[{tag}] {m} ({"primary" if primary else "peer"}): moments of {el}', f'{tag} {m} primary={primary}',
                                  f'[{tag}] {m}: the second-moment code receives {el}; specified the full (unsharded) tensor {T.axes_str(full)}', calls[0][0] if calls else f.node)
    fa = p.lookup_method(GPT, 'reduce_a_factor')
    fg = p.lookup_method(GPT, 'reduce_g_factor')

    def effects(f: Func, par: str, primary: bool) -> list[str] | None:
        """The reductions reduce_x_factor issues in the world (parallelism, this rank is the primary rank): a walk of
        the body with the two kinds of test decided; None when a test of another kind guards a reduction."""
        known = {"self.parallelism == 'input'": par == 'input', "self.parallelism == 'output'": par == 'output',
                 "self.parallelism != 'input'": par != 'input', "self.parallelism != 'output'": par != 'output',
                 'get_rank() == self.primary_rank': primary, 'get_rank() != self.primary_rank': not primary,
                 'self.primary_rank == get_rank()': primary, 'self.primary_rank != get_rank()': not primary}
        out: list[str] = []
        unknown: list[str] = []

        def has_reduce(sts: list[ast.stmt]) -> bool:
            return any(isinstance(n, ast.Call) and 'reduce_' in norm(n.func) for st in sts for n in ast.walk(st))

        def truth(t: ast.expr) -> bool | None:
            if isinstance(t, ast.UnaryOp) and isinstance(t.op, ast.Not):
                v = truth(t.operand)
                return None if v is None else not v
            return known.get(norm(t))

        def run(sts: list[ast.stmt]) -> bool:
            for st in sts:
                if isinstance(st, ast.If):
                    v = truth(st.test)
                    if v is None:
                        if has_reduce(st.body) or has_reduce(st.orelse):
                            unknown.append(norm(st.test))
                            return True
                        # validation (raises only): not part of the reduction protocol
                        continue
                    if run(st.body if v else st.orelse):
                        return True
                elif isinstance(st, (ast.Return, ast.Raise)):
                    if isinstance(st, ast.Raise):
                        out.append('raise')
                    return True
                elif isinstance(st, ast.Expr) and isinstance(st.value, ast.Call) and 'reduce_' in norm(st.value.func):
                    out.append(norm(st.value))
            return False
        run([st for st in f.body if not (isinstance(st, ast.Expr) and isinstance(st.value, ast.Constant))])
        return None if unknown else out
    for f, X, shard_par in ((fa, 'a', 'input'), (fg, 'g', 'output')):
        for par in ('input', 'output'):
            for primary in (True, False):
                got = effects(f, par, primary)
                if par == shard_par:
                    want = [f'super().reduce_{X}_factor(self.data_parallel_group)'] if primary else []
                else:
                    want = [f'super().reduce_{X}_factor(self.pipe_parallel_peer_group)']
                alt = [w.replace('(self.', '(group=self.') for w in want]
                ctx.check(got in (want, alt), 'SIB-DUAL', f, f'reduce_{X}_factor [{par}-parallel, primary={primary}]: {got}', f'reduce_{X}_factor {par} primary={primary}',
                          f'reduce_{X}_factor on a{"" if primary else " non-"} primary rank of an {par}-parallel layer issues {got}; specified {want}: the sharded factor is reduced by the primary rank alone '
                          'over the data-parallel group, the replicated factor by every rank of the stage over the stage peers (A and G are mirror images)', f.node)


def rule_clip_shard(ctx: Ctx) -> None:
    """CLIP-SHARD: where the layer stores only a shard of the preconditioned gradient, the clip sum must be reduced over the model-parallel peers."""
    from kfv.rules.spmd_rules import get_spmd
    p = ctx.prog
    ctx.rule('CLIP-SHARD', 'with model-parallel shards the clip sum <V, D> is reduced over the shards before the scale is computed', floor=1)
    S = get_spmd(ctx, 'GPT')
    f = p.get_func('base_preconditioner.BaseKFACPreconditioner._compute_grad_scale')
    # the GPT family inherits _compute_grad_scale unless it overrides it
    g = p.lookup_method(S.family.root, '_compute_grad_scale') or f
    has_coll = bool(S.may_coll.get(g.qualname))
    ctx.check(has_coll, 'CLIP-SHARD', g, '_compute_grad_scale (GPT-NeoX family) reduces the inner products over the model-parallel group', 'gpt clip scale',
              'GPT-NeoX family: every rank holds only its shard of each layer gradient (see TT-GPT), but _compute_grad_scale sums the local shards only and issues no collective: '
              'the clip factor differs between model-parallel peers and from the unsharded value (C07 "one scalar shared by every rank", C11 "clipping included")', g.node)


# --------------------------------------------------------------------------- alternative paths under branch facts

def _facts_of(test: ast.expr, prog: Any = None, cls: str | None = None) -> dict[str, str] | None:
    """Facts implied by a test being true: conjuncts of the form max(<module>.<cfg>) == c or [tuple(]<module>.<cfg>[)] == (c, c).
    A test that is a field (`self._pointwise`) stands for the expression the constructor assigns to it.  Conjuncts outside
    the vocabulary are ignored (fewer facts: the equivalence is only harder to establish)."""
    import re
    if prog is not None and cls is not None and isinstance(test, ast.Attribute) and isinstance(test.value, ast.Name) and test.value.id == 'self':
        defs = []
        for c in prog.mro(cls):
            init = c.methods.get('__init__')
            if init is not None:
                defs += [n.value for n in prog.nodes(init) if isinstance(n, ast.Assign) and len(n.targets) == 1 and norm(n.targets[0]) == norm(test)]
        writers = [1 for c in prog.mro(cls) + prog.subclasses(cls) for m in c.methods.values() if m.name != '__init__'
                   for n in prog.nodes(m) if isinstance(n, ast.Attribute) and isinstance(n.ctx, ast.Store) and n.attr == test.attr]
        if len(defs) == 1 and not writers:
            test = defs[0]
    out: dict[str, str] = {}
    parts = test.values if isinstance(test, ast.BoolOp) and isinstance(test.op, ast.And) else [test]
    for pt in parts:
        t = norm(pt).replace(' ', '')
        m = re.fullmatch(r'max\((?:self\.)?module\.(kernel_size|padding|stride)\)==(\d+)', t) \
            or re.fullmatch(r'(?:tuple\()?(?:self\.)?module\.(kernel_size|padding|stride)\)?==\((\d+),\2\)', t)
        if m:
            out[m.group(1)] = m.group(2)
    return out or None


def _simplify_axes(a: Any, facts: dict[str, str]) -> Any:
    if isinstance(a, tuple) and a:
        if a[0] == 'pad' and facts.get('padding') == '0':
            return _simplify_axes(a[1], facts)
        if a[0] == 'ker' and facts.get('kernel_size') == '1':
            return 'ONE'
        if a[0] == 'win' and facts.get('kernel_size') == '1' and facts.get('stride') == '1':
            return _simplify_axes(a[1], facts)
        if a[0] == 'prod':
            return T.prod_axis([_simplify_axes(x, facts) for x in a[1:]])
        return tuple([a[0]] + [_simplify_axes(x, facts) for x in a[1:]])
    if a in ('KH', 'KW') and facts.get('kernel_size') == '1':
        return 'ONE'
    return a


def rule_alt_paths(ctx: Ctx) -> None:
    """SIB-PATH: a special-case path guarded by a configuration test must agree with the general path under the facts the test implies."""
    p = ctx.prog
    ctx.rule('SIB-PATH', 'special-case paths of the helpers agree with the general path under the facts their guard implies', floor=0)
    for cls, meth, arg in ((CONV, 'get_a_factor', TV(('B', 'C', 'H', 'W'), XU, 'factor')), (CONV, 'get_g_factor', TV(('B', 'OUT', 'OH', 'OW'), GAMMA, 'factor')),
                           (LIN, 'get_a_factor', TV(('B', 'S', 'IN'), XU, 'factor')), (LIN, 'get_g_factor', TV(('B', 'S', 'OUT'), GAMMA, 'factor'))):
        f = p.lookup_method(cls, meth)
        kind = 'conv' if cls == CONV else 'linear'
        fl0 = helper_flags(True)
        tests = [n.test for n in p.nodes(f) if isinstance(n, ast.If) and (norm(n.test) not in fl0 or norm(n.test) in _VERIFIED_ALT) and not norm(n.test).startswith('self.has_bias')]
        for t in tests:
            # `if not <special-case test>: general else: special` is the same dispatch with the branches exchanged
            neg = isinstance(t, ast.UnaryOp) and isinstance(t.op, ast.Not)
            facts = _facts_of(t.operand if neg else t, p, cls)
            pname = [a for a in f.params if a != 'self'][0]
            res = {}
            for val in (True, False):
                it, r = _call(ctx, cls, meth, {pname: arg}, helper_oracle(kind, True), {**fl0, norm(t.operand if neg else t): val})
                res[val] = (r, it)
            special, general = res[True][0], res[False][0]
            if not isinstance(special, TV) or not isinstance(general, TV):
                raise AnalysisIncomplete(f'{cls}.{meth}: path under `{norm(t)}` evaluates to {special} / {general}')
            if facts is None:
                if (special.axes, special.coef, special.unit) != (general.axes, general.coef, general.unit):
                    raise AnalysisIncomplete(f'{cls}.{meth}: the paths of `{norm(t)}` differ and the test is outside the modelled fact vocabulary')
                ctx.ok('SIB-PATH', f, f'{meth}: both paths of `{norm(t)}` have the same type', t)
                continue
            ga = tuple(_simplify_axes(a, facts) for a in _rename_kernel_axes(general).axes)
            sa = tuple(_simplify_axes(a, facts) for a in _rename_kernel_axes(special).axes)

            def coefs(v: TV) -> dict:
                import re as _re
                out = {}
                for k, e in v.coef:
                    out[k] = e
                return out
            # coefficients are keyed by axis text: re-derive them by evaluating the spatial/row axes under the facts
            gc = _coef_under(general, facts)
            sc = _coef_under(special, facts)
            ok = ga == sa and gc == sc
            if ok:
                ctx.extra.setdefault('verified_alt_tests', []).append(norm(t))
                if norm(t) not in _VERIFIED_ALT:
                    _VERIFIED_ALT.append(norm(t))   # proven equivalent: the other rules follow the general path
            ctx.check(ok, 'SIB-PATH', f, f'{meth}: special path under {facts} agrees with the general path', norm(t)[:100],
                      f'{cls.rsplit(".", 1)[1]}.{meth}: the special-case path guarded by `{norm(t)}` yields {special} (normalisation {sc}) but the general path, under the facts {facts} the guard implies, '
                      f'yields {T.axes_str(ga)} (normalisation {gc}): the shortcut is only equivalent under additional conditions (e.g. stride 1) that the guard does not test', t)


def _coef_under(v: TV, facts: dict[str, str]) -> dict:
    """Size coefficients with axis texts simplified under the facts (the texts were produced by axes_str)."""
    out: dict[str, int] = {}
    for k, e in v.coef:
        kk = k
        if facts.get('padding') == '0':
            import re
            kk = re.sub(r'pad\((\w+),padding\[\d\]\)', r'\1', kk)
        if facts.get('kernel_size') == '1' and facts.get('stride') == '1':
            import re
            kk = re.sub(r'win\((\w+),kernel_size\[\d\],stride\[\d\]\)', r'\1', kk)
        out[kk] = out.get(kk, 0) + e
    return out
