"""Rules over the work-assignment code (KAISAAssignment, GPTNeoXAssignment), shared by C06, C12, C17.

A small role-type system for the greedy loops: load tables indexed by rank or by position in a
rank list, index-of-minimum selections, elements of the selected group, costs; every store into the
assignment table and every load update is checked against these roles.
"""
from __future__ import annotations

import ast
import math
import sys
import re

from kfv import flow
from kfv.core import AnalysisError
from kfv.core import AnalysisIncomplete
from kfv.core import Ctx
from kfv.model import Func
from kfv.model import norm
from kfv.rules.spmd_rules import DET_ELEM
from kfv.rules.spmd_rules import SET_RE
from kfv.rules.spmd_rules import conjuncts
from kfv.rules.spmd_rules import get_spmd
from kfv.terms import Normalizer

KA = 'assignment.KAISAAssignment'
GA = 'gpt_neox.assignment.GPTNeoXAssignment'
PURE_BUILTINS = {'sum', 'sorted', 'min', 'max', 'len', 'range', 'enumerate', 'zip', 'list', 'dict', 'tuple', 'float', 'int',
                 'abs', 'reversed', 'isinstance', 'all', 'any', 'map', 'filter', 'round', 'bool', 'str'}
ORDER_CONSUMERS = {'list', 'tuple', 'enumerate', 'zip', 'iter', 'next', 'reversed', 'map', 'filter', 'dict'}


# --------------------------------------------------------------------------- DET-HASH / DET-PURE

def rule_det_hash(ctx: Ctx, modules: tuple[str, ...] = ('kfac.assignment', 'kfac.gpt_neox.assignment', 'kfac.gpt_neox.mpu')) -> None:
    p = ctx.prog
    ctx.rule('DET-HASH', 'no order is taken from a hash-ordered collection whose elements hash process-dependently (set of str ...); '
                         'sets of int / frozenset[int] are process-independent (A5)', floor=3)
    ctx.assumptions.add('A5')
    for f in p.functions():
        if f.module not in modules:
            continue
        mod = p.modules[f.module]
        for n in p.nodes(f):
            if not isinstance(n, ast.expr):
                continue
            t = p.type_str(f.module, n)
            if not t:
                continue
            m = SET_RE.match(t.rstrip('?'))
            if not m:
                continue
            det = bool(DET_ELEM.match(m.group(1).strip()))
            par = mod.parents.get(id(n))
            use = None
            if isinstance(par, (ast.For, ast.AsyncFor, ast.comprehension)) and par.iter is n:
                use = 'iteration'
            elif isinstance(par, ast.Call) and n in par.args and isinstance(par.func, ast.Name):
                fn = par.func.id
                if fn in ORDER_CONSUMERS:
                    use = f'{fn}()'
                elif fn == 'sorted' and any(k.arg == 'key' for k in par.keywords):
                    use = 'sorted(key=...) (ties keep the set order)'
                elif fn in ('min', 'max') and any(k.arg == 'key' for k in par.keywords):
                    use = f'{fn}(key=...) (ties keep the set order)'
            elif isinstance(par, ast.Attribute) and par.value is n and par.attr == 'pop':
                use = '.pop()'
            elif isinstance(par, ast.Starred):
                use = 'unpacking'
            if use is None:
                continue
            if det:
                ctx.ok('DET-HASH', f, f'{use} of {norm(n)[:50]} : {t} (process-independent hashes)', n)
            else:
                ctx.violate('DET-HASH', f, norm(par)[:120], f'{use} takes an order from {norm(n)[:60]} of type {t}: str hashes are salted per process, '
                            'so ranks launched as separate interpreters would order it differently', n)


def rule_det_pure(ctx: Ctx, fname: str) -> None:
    p = ctx.prog
    ctx.rule('DET-PURE', 'the greedy assignment reads only its parameters and pure builtins and writes only locals', floor=1)
    f = p.get_func(fname)
    locs = set(f.params)
    for n in p.nodes(f):
        if isinstance(n, ast.Name) and isinstance(n.ctx, ast.Store):
            locs.add(n.id)
        if isinstance(n, ast.comprehension):
            for x in ast.walk(n.target):
                if isinstance(x, ast.Name):
                    locs.add(x.id)
    for g in p.funcs.values():
        if g.parent is f:
            locs |= set(g.params)
    bad = []
    for n in list(p.nodes(f)) + [m for g in p.funcs.values() if g.parent is f for m in p.nodes(g)]:
        if isinstance(n, ast.Name) and isinstance(n.ctx, ast.Load) and n.id not in locs and n.id not in PURE_BUILTINS:
            bad.append(f'reads non-local name {n.id}')
        if isinstance(n, (ast.Global, ast.Nonlocal)):
            bad.append('global/nonlocal write')
        if isinstance(n, ast.Attribute) and isinstance(n.ctx, ast.Store):
            bad.append(f'attribute store {norm(n)}')
        if isinstance(n, ast.Call) and isinstance(n.func, ast.Attribute) and n.func.attr in ('shuffle', 'random', 'choice', 'time', 'popitem'):
            bad.append(f'call {norm(n.func)}')
    ctx.check(not bad, 'DET-PURE', f, f'{f.short} is a pure function of its arguments', 'purity',
              f'{f.short} is not a pure function of its arguments: {sorted(set(bad))}', f.node)


# --------------------------------------------------------------------------- greedy role types

class Greedy:
    """Role typing of one greedy-assignment function."""

    def __init__(self, ctx: Ctx, f: Func, table: str, groups_param: str | None, ranks_attr: str | None) -> None:
        self.ctx = ctx
        self.p = ctx.prog
        self.f = f
        self.table = table                # text of the assignment table being filled
        self.groups_param = groups_param  # parameter holding the list of worker groups (KAISA)
        self.ranks_attr = ranks_attr      # attribute holding the single rank list (GPT)
        self.mod = self.p.modules[f.module]
        self.nodes = self.p.nodes(f)
        self.defs: dict[str, list[ast.AST]] = {}
        for n in self.nodes:
            if isinstance(n, ast.Assign):
                for t in n.targets:
                    if isinstance(t, ast.Name):
                        self.defs.setdefault(t.id, []).append(n)
            elif isinstance(n, (ast.For, ast.comprehension)):
                for x in ast.walk(n.target):
                    if isinstance(x, ast.Name):
                        self.defs.setdefault(x.id, []).append(n)
        self.load_tables = self._load_tables()

    # -- helpers
    def loops_of(self, n: ast.AST) -> list[ast.AST]:
        out = []
        c = n
        pr = self.mod.parents.get(id(c))
        while pr is not None and c is not self.f.node:
            if isinstance(pr, (ast.For, ast.While)) and any(c is s for s in pr.body):
                out.append(pr)
            c = pr
            pr = self.mod.parents.get(id(pr))
        return out

    def _load_tables(self) -> dict[str, tuple]:
        """name -> ('rank',) | ('pos', rank-list text)"""
        out = {}
        for name, ds in self.defs.items():
            for d in ds:
                if not isinstance(d, ast.Assign):
                    continue
                v = d.value
                if isinstance(v, ast.BinOp) and isinstance(v.op, ast.Mult) and isinstance(v.left, ast.List) and len(v.left.elts) == 1 \
                        and isinstance(v.left.elts[0], ast.Constant) and v.left.elts[0].value == 0:
                    # [0.0] * len(L): one slot per element of L (positions of L); [0.0] * n: one slot per rank below n
                    if isinstance(v.right, ast.Call) and norm(v.right.func) == 'len' and len(v.right.args) == 1:
                        out[name] = ('pos', norm(v.right.args[0]))
                    else:
                        out[name] = ('rank', norm(v.right))
                elif isinstance(v, ast.ListComp) and isinstance(v.elt, ast.Constant) and v.elt.value == 0 and len(v.generators) == 1:
                    it = v.generators[0].iter
                    if isinstance(it, ast.Call) and norm(it.func) == 'range' and len(it.args) == 1 and isinstance(it.args[0], ast.Call) and norm(it.args[0].func) == 'len' \
                            and len(it.args[0].args) == 1:
                        out[name] = ('pos', norm(it.args[0].args[0]))
                    elif isinstance(it, ast.Call) and norm(it.func) == 'range' and len(it.args) == 1:
                        out[name] = ('rank', norm(it.args[0]))
                    else:
                        out[name] = ('pos', norm(it))
        # keep only tables that are updated by subscript +=
        upd = {norm(n.target.value) for n in self.nodes if isinstance(n, ast.AugAssign) and isinstance(n.target, ast.Subscript)}
        return {k: v for k, v in out.items() if k in upd}

    @staticmethod
    def _line(d: ast.AST) -> int:
        return getattr(d, 'lineno', None) or getattr(getattr(d, 'target', None), 'lineno', 0)

    def single_def(self, name: str, at: ast.AST | None = None) -> ast.AST | None:
        # comprehension-scoped binding enclosing `at`
        n = at
        while n is not None and n is not self.f.node:
            par = self.mod.parents.get(id(n))
            if isinstance(par, (ast.ListComp, ast.SetComp, ast.GeneratorExp, ast.DictComp)):
                for g in par.generators:
                    if any(isinstance(x, ast.Name) and x.id == name for x in ast.walk(g.target)):
                        return g
            n = par
        ds = [d for d in self.defs.get(name, []) if not isinstance(d, ast.comprehension)]
        if len(ds) == 1:
            return ds[0]
        if at is not None and ds:
            # closest preceding definition in source order
            ln = self._line(at)
            prev = [d for d in ds if self._line(d) <= ln]
            if prev:
                return max(prev, key=self._line)
        return None

    def ty(self, e: ast.AST, at: ast.AST | None = None, depth: int = 0) -> tuple | None:
        """Role type of an expression."""
        if depth > 40:
            return None
        if isinstance(e, ast.Name):
            if e.id in self.load_tables:
                return ('loads',) + self.load_tables[e.id]
            if self.groups_param and e.id == self.groups_param:
                return ('groups', e.id)
            d = self.single_def(e.id, at or e)
            if d is None:
                return None
            if isinstance(d, ast.Assign):
                return self.ty(d.value, d, depth + 1)
            if isinstance(d, (ast.For, ast.comprehension)):
                it = self.ty(d.iter, d, depth + 1)
                tgt = d.target
                if isinstance(tgt, ast.Name) and tgt.id == e.id:
                    if it and it[0] == 'groups':
                        return ('ranks', f'elem({it[1]})')
                    if it and it[0] == 'ranks':
                        return ('rank', it[1])
                    if it and it[0] == 'items':
                        return None
                    if it and it[0] == 'keys':
                        return ('key', it[1])
                if isinstance(tgt, ast.Tuple) and it and it[0] == 'items':
                    idx = [i for i, x in enumerate(tgt.elts) if isinstance(x, ast.Name) and x.id == e.id]
                    if idx:
                        return ('key', it[1]) if idx[0] == 0 else ('cost', it[1])
                return None
            return None
        if isinstance(e, ast.Attribute):
            if self.ranks_attr and norm(e) == self.ranks_attr:
                return ('ranks', norm(e))
            return None
        if isinstance(e, ast.ListComp) and len(e.generators) == 1:
            g = e.generators[0]
            it = self.ty(g.iter, e, depth + 1)
            if it and it[0] in ('ranks', 'groups'):
                return ('listover', it, norm(e.elt), g)
            return None
        if isinstance(e, ast.Call):
            fn = norm(e.func)
            if isinstance(e.func, ast.Attribute) and e.func.attr == 'index' and len(e.args) == 1:
                base = self.ty(e.func.value, at, depth + 1)
                a = e.args[0]
                sel = None
                if isinstance(a, ast.Call) and norm(a.func) in ('min', 'max') and len(a.args) == 1 and norm(a.args[0]) == norm(e.func.value):
                    sel = norm(a.func)
                if base and base[0] == 'listover':
                    return ('idx', base[1], sel)
                if base and base[0] == 'loads' and base[1] == 'pos':
                    return ('idx', ('ranks', base[2]), sel)
                if base and base[0] == 'loads' and base[1] == 'rank':
                    return ('idx', ('allranks', base[2]), sel)
                return None
            if fn in ('sorted',) and e.args:
                inner = self.ty(e.args[0], at, depth + 1)
                return ('sorted', inner, e)
            if fn in ('list', 'tuple') and len(e.args) == 1:
                return self.ty(e.args[0], at, depth + 1)
            if isinstance(e.func, ast.Attribute) and e.func.attr == 'items' and not e.args:
                return ('items', norm(e.func.value))
            if isinstance(e.func, ast.Attribute) and e.func.attr in ('keys',) and not e.args:
                return ('keys', norm(e.func.value))
            return None
        if isinstance(e, ast.Subscript):
            base = self.ty(e.value, at, depth + 1)
            k = self.ty(e.slice, at, depth + 1)
            if base and k and k[0] == 'idx' and base == k[1]:
                if base[0] == 'groups':
                    return ('ranks', f'elem({base[1]})')
                if base[0] == 'ranks':
                    return ('rank', base[1])
            if base and base[0] == 'loads':
                return ('load',)
            return None
        return None


def cost_role(G: Greedy, u: ast.AugAssign, stores: list[ast.Assign]) -> str | None:
    """The increment of a load update must be the cost of the item whose placement is stored."""
    keys = set()
    for st in stores:
        keys.add(norm(st.targets[0].value.slice))   # layer key
        keys.add(norm(st.targets[0].slice))         # factor key
    v = u.value
    if isinstance(v, ast.Name):
        d = G.single_def(v.id, u)
        if isinstance(d, ast.For) and isinstance(d.target, ast.Tuple) and len(d.target.elts) == 2 \
                and isinstance(d.target.elts[1], ast.Name) and d.target.elts[1].id == v.id and norm(d.target.elts[0]) in keys \
                and any(d is lp for lp in G.loops_of(u)):
            return f'cost paired with key {norm(d.target.elts[0])}'
        return None
    if isinstance(v, ast.Subscript) and isinstance(v.value, ast.Name) and norm(v.slice) in keys:
        d = G.single_def(v.value.id, u)
        if isinstance(d, ast.Assign) and isinstance(d.value, ast.DictComp) and len(d.value.generators) == 1:
            g = d.value.generators[0]
            if isinstance(g.target, ast.Tuple) and len(g.target.elts) == 2 and norm(d.value.key) == norm(g.target.elts[0]) \
                    and norm(d.value.value) == f'sum({norm(g.target.elts[1])}.values())' and norm(g.iter).endswith('.items()'):
                return f'summed cost of {norm(v.slice)}'
    # the sum written out in place: sum(W[layer].values()) with W the work parameter the costs come from
    if isinstance(v, ast.Call) and norm(v.func) == 'sum' and len(v.args) == 1 and not v.keywords:
        a = v.args[0]
        if isinstance(a, ast.Call) and isinstance(a.func, ast.Attribute) and a.func.attr == 'values' and not a.args \
                and isinstance(a.func.value, ast.Subscript) and isinstance(a.func.value.value, ast.Name) and a.func.value.value.id in G.f.params \
                and norm(a.func.value.slice) in keys:
            return f'summed cost of {norm(a.func.value.slice)}'
    return None


def rule_greedy(ctx: Ctx, which: str) -> None:
    """COH-CONFINE, COH-COLOC, AFF-LOAD, DIR-MIN, DIR-SORT, DET-STALE for one greedy assignment."""
    p = ctx.prog
    if which == 'KAISA':
        f = p.get_func(f'{KA}.greedy_assignment')
        G = Greedy(ctx, f, 'assignments', 'worker_groups', None)
    else:
        f = p.get_func(f'{GA}.__init__')
        G = Greedy(ctx, f, 'self._inv_assignments', None, 'self.pipe_parallel_peers')
    tag = f'[{which}] '
    ctx.rule('COH-CONFINE', 'every rank stored into the assignment table is an element of the selected worker group (a rank, not an index)', floor=1)
    ctx.rule('AFF-LOAD', 'the load of the chosen worker is incremented by the cost placed, in the index space of the load table', floor=1)
    ctx.rule('DIR-MIN', 'group and worker are chosen by index-of-minimum over the current loads', floor=1)
    ctx.rule('DIR-SORT', 'items are placed in order of decreasing cost (reverse flag XOR negated key), ties broken deterministically', floor=1)
    ctx.rule('DET-STALE', 'a load list derived from the mutable load table is recomputed after every update before it is used again', floor=1)
    ctx.rule('COH-COLOC', 'all factors of a layer are placed on one worker when co-located', floor=1)
    if not G.load_tables:
        raise AnalysisIncomplete(f'{f.short}: no load table (zero-initialised list updated with +=) found')
    # --- stores into the assignment table
    stores = [n for n in G.nodes if isinstance(n, ast.Assign) and len(n.targets) == 1 and isinstance(n.targets[0], ast.Subscript)
              and isinstance(n.targets[0].value, ast.Subscript) and norm(n.targets[0].value.value) == G.table]
    if not stores:
        raise AnalysisIncomplete(f'{f.short}: no store into {G.table}[layer][factor] found')
    selected_groups = set()
    for st in stores:
        t = G.ty(st.value, st)
        ok = bool(t) and t[0] == 'rank'
        ctx.check(ok, 'COH-CONFINE', f, f'{tag}{norm(st)[:70]} : value is {t}', norm(st)[:120],
                  f'{tag}{norm(st)[:100]}: the stored value has role {t}; it must be an element of the selected worker group (a rank), '
                  'not an index, a load or a rank of another group', st)
        if ok:
            selected_groups.add(t[1])
        # layer / factor keys
        lk, fk = st.targets[0].value.slice, st.targets[0].slice
        tl, tf = G.ty(lk, st), G.ty(fk, st)
    # selected group must itself be chosen by min over group loads (KAISA) or be the stage peer list (GPT)
    for sg in selected_groups:
        if which == 'KAISA':
            ctx.check(sg == 'elem(worker_groups)', 'COH-CONFINE', f, f'{tag}workers come from one element of worker_groups', sg,
                      f'{tag}assigned ranks are taken from {sg}, not from the selected element of worker_groups', f.node)
        else:
            ctx.check(sg == 'self.pipe_parallel_peers', 'COH-CONFINE', f, f'{tag}workers come from the stage peers', sg,
                      f'{tag}assigned ranks are taken from {sg}, not from the ranks of the own pipeline stage', f.node)
    # --- selections
    sels = [n for n in G.nodes if isinstance(n, ast.Call) and isinstance(n.func, ast.Attribute) and n.func.attr == 'index']
    for s in sels:
        t = G.ty(s, s)
        ok = bool(t) and t[0] == 'idx' and t[2] == 'min'
        ctx.check(ok, 'DIR-MIN', f, f'{tag}{norm(s)[:60]} -> {t[:2] if t else None} by min', norm(s)[:120],
                  f'{tag}{norm(s)[:100]} does not select the index of the minimum of the load list it indexes (role {t})', s)
        # the list searched must hold loads: elements are LT[i] or sum(LT[i] for i in group)
        base = G.ty(s.func.value, s)
        if base and base[0] == 'listover':
            elt = base[2]
            g = base[3]
            var = norm(g.target)
            lts = list(G.load_tables)
            good = any(elt == f'{lt}[{var}]' for lt in lts) or any(re.fullmatch(rf'sum\(\(?({lt})\[(\w+)\] for \2 in {re.escape(var)}\)?\)', elt) for lt in lts)
            ctx.check(good, 'DIR-MIN', f, f'{tag}searched list holds current loads: [{elt} for {var} in ...]', norm(s.func.value),
                      f'{tag}the list searched by {norm(s)[:60]} has elements `{elt}`, which are not the current loads of the candidates', s)
    if not sels:
        ctx.violate('DIR-MIN', f, 'selection', f'{tag}no index-of-minimum selection found', f.node)
    # --- load updates
    upds = [n for n in G.nodes if isinstance(n, ast.AugAssign) and isinstance(n.target, ast.Subscript) and norm(n.target.value) in G.load_tables]
    for u in upds:
        lt = G.load_tables[norm(u.target.value)]
        k = G.ty(u.target.slice, u)
        if lt[0] == 'rank':
            okk = bool(k) and k[0] == 'rank'
        else:
            okk = bool(k) and k[0] == 'idx' and k[1] == ('ranks', lt[1])
        c = cost_role(G, u, stores)
        cost_ok = isinstance(u.op, ast.Add) and c is not None
        ctx.check(okk and cost_ok, 'AFF-LOAD', f, f'{tag}{norm(u)} : index role {k}, increment role {c}', norm(u),
                  f'{tag}{norm(u)}: the load table is indexed by {lt}, the index has role {k}, the increment has role {c}; '
                  'the load of the chosen worker must grow by the cost just placed', u)
        # the updated worker is the one assigned
        assigned = {norm(s.value) for s in stores}
        if lt[0] == 'rank':
            ctx.check(norm(u.target.slice) in assigned, 'AFF-LOAD', f, f'{tag}load updated for the assigned worker', norm(u) + ' [worker]',
                      f'{tag}{norm(u)} updates the load of {norm(u.target.slice)} but the table stores {sorted(assigned)}', u)
    if not upds:
        ctx.violate('AFF-LOAD', f, 'update', f'{tag}the load table is never updated', f.node)
    # every selection of a worker is followed, in the same block, by the update of that worker's load
    for st in stores:
        if not isinstance(st.value, ast.Name):
            continue
        d = G.single_def(st.value.id, st)
        if not isinstance(d, ast.Assign):
            continue
        blk_parent = G.mod.parents.get(id(d))
        sibs = []
        for fld in ('body', 'orelse'):
            b = getattr(blk_parent, fld, None)
            if isinstance(b, list) and any(x is d for x in b):
                sibs = b
        idx_names = {st.value.id}
        for sub in ast.walk(d.value):
            if isinstance(sub, ast.Name):
                idx_names.add(sub.id)
        has = any(isinstance(x, ast.AugAssign) and any(x is u for u in upds) and norm(x.target.slice) in idx_names and x.lineno > d.lineno for x in sibs)
        ctx.check(has, 'AFF-LOAD', f, f'{tag}selection of {st.value.id} (line {d.lineno}) is followed by its load update', f'{norm(d)[:80]} [update]',
                  f'{tag}{st.value.id} is selected at line {d.lineno} but its load is not updated in the same block: the next placement would see unchanged loads', d)
    # --- DET-STALE
    for s in sels:
        base_name = s.func.value.id if isinstance(s.func.value, ast.Name) else None
        if not base_name or base_name in G.load_tables:
            if base_name in G.load_tables:
                ctx.ok('DET-STALE', f, f'{tag}{norm(s)[:50]} searches the live load table itself', s)
            continue
        d = G.single_def(base_name, s)
        if d is None:
            continue
        use_loops = G.loops_of(s)
        def_loops = G.loops_of(d)
        for u in upds:
            uloops = G.loops_of(u)
            # innermost loop containing both the update and the use
            common = [lp for lp in uloops if any(lp is x for x in use_loops)]
            if not common:
                continue
            inner = common[0]
            ok = any(inner is x for x in def_loops) and G._line(d) <= s.lineno
            ctx.check(ok, 'DET-STALE', f, f'{tag}{base_name} recomputed inside the loop that updates {norm(u.target.value)}', f'{base_name} / {norm(u)}',
                      f'{tag}{base_name} (defined at line {G._line(d)}) is used at line {s.lineno} inside a loop that updates {norm(u.target.value)} (line {u.lineno}) '
                      'without being recomputed: later placements would see stale loads', s)
    # --- DIR-SORT
    main_loops = [n for n in G.nodes if isinstance(n, ast.For) and any(any(st is x for x in ast.walk(n)) for st in stores)]
    checked = 0
    for lp in main_loops:
        t = G.ty(lp.iter, lp)
        src = lp.iter
        # a name bound to a comprehension over a sorted(...) call
        call = None
        for sub in ast.walk(src):
            pass
        cand = [src]
        if isinstance(src, ast.Name):
            d = G.single_def(src.id, lp)
            if isinstance(d, ast.Assign):
                cand = [d.value]
        for cnd in cand:
            for sub in ast.walk(cnd):
                if isinstance(sub, ast.Call) and norm(sub.func) == 'sorted':
                    call = sub
        if call is None:
            if t and t[0] in ('keys', 'key') or isinstance(lp.iter, ast.Subscript) or (isinstance(lp.iter, ast.Attribute)):
                continue   # inner loop over the factors of one layer (co-located branch)
            if isinstance(lp.iter, ast.Subscript) or 'work[' in norm(lp.iter) or norm(lp.iter).startswith(G.table):
                continue
            ctx.violate('DIR-SORT', f, norm(lp.iter)[:100], f'{tag}placement loop iterates {norm(lp.iter)[:80]}, which is not sorted by cost', lp)
            continue
        checked += 1
        rev = [k.value for k in call.keywords if k.arg == 'reverse']
        key = [k.value for k in call.keywords if k.arg == 'key']
        reverse = bool(rev) and isinstance(rev[0], ast.Constant) and rev[0].value is True
        desc = None
        tie = False
        if key and isinstance(key[0], ast.Lambda):
            body = key[0].body
            arg = key[0].args.args[0].arg
            first = body.elts[0] if isinstance(body, ast.Tuple) and body.elts else body
            tie = isinstance(body, ast.Tuple) and any(norm(x) == f'{arg}[0]' for x in body.elts[1:])
            if norm(first) == f'{arg}[1]':
                desc = reverse
            elif norm(first) in (f'-{arg}[1]', f'-1 * {arg}[1]'):
                desc = not reverse
            elif call.args and isinstance(call.args[0], ast.Name) and norm(first) == f'{norm(call.args[0])}[{arg}]':
                desc = reverse          # sorted(costs, key=lambda k: costs[k]): keys ordered by their cost
        elif key and call.args and isinstance(call.args[0], ast.Name) and norm(key[0]) in (f'{norm(call.args[0])}.__getitem__', f'{norm(call.args[0])}.get'):
            desc = reverse              # sorted(costs, key=costs.__getitem__)
        elif key and isinstance(key[0], ast.Call) and norm(key[0].func).split('.')[-1] == 'itemgetter' and key[0].args \
                and isinstance(key[0].args[0], ast.Constant) and key[0].args[0].value == 1:
            desc = reverse              # operator.itemgetter(1[, 0]) on (name, cost) items
            tie = len(key[0].args) > 1
        ctx.check(desc is True, 'DIR-SORT', f, f'{tag}{norm(call)[:80]}: descending cost', norm(call)[:140],
                  f'{tag}{norm(call)[:120]} does not order the items by decreasing cost (key on the cost component with reverse=True, or negated key)', call)
    if checked == 0:
        ctx.violate('DIR-SORT', f, 'sort', f'{tag}no cost-sorted placement order found', f.node)
    # --- COH-COLOC: in a for-loop over the factors of a layer the stored value is loop-invariant
    for st in stores:
        loops = G.loops_of(st)
        if not loops:
            continue
        inner = loops[0]
        val = st.value
        if isinstance(val, ast.Name) or not any(isinstance(x, ast.Call) for x in ast.walk(val)):
            if isinstance(val, ast.Name):
                d = G.single_def(val.id, st)
                inv = d is not None and not any(inner is x for x in G.loops_of(d))
                shown = val.id
            else:
                # the choice written out in place (`peers[min_index]`): invariant when nothing it reads is bound or
                # stored to inside the loop over the factors
                reads = {norm(x) for x in ast.walk(val) if isinstance(x, (ast.Name, ast.Attribute)) and isinstance(x.ctx, ast.Load)}
                written = set()
                for x in ast.walk(inner):
                    tg = []
                    if isinstance(x, ast.Assign):
                        tg = [t for t in x.targets if t is not st.targets[0]]
                    elif isinstance(x, (ast.AugAssign, ast.AnnAssign, ast.For, ast.comprehension)):
                        tg = [x.target]
                    elif isinstance(x, ast.Call) and isinstance(x.func, ast.Attribute) and x.func.attr in (
                            'append', 'pop', 'extend', 'insert', 'remove', 'sort', 'reverse', 'clear', 'update', 'setdefault'):
                        tg = [x.func.value]
                    for t in tg:
                        for e in (t.elts if isinstance(t, (ast.Tuple, ast.List)) else [t]):
                            while isinstance(e, (ast.Subscript, ast.Starred)):
                                e = e.value
                            written.add(norm(e))
                inv = not (reads & written)
                shown = norm(val)
            guards = [g for g in flow.enclosing_guards(p, f, st)]
            colocated = which == 'GPT' or any(norm(g.test) == 'colocate_factors' and g.polarity for g in guards)
            if colocated:
                ctx.check(inv, 'COH-COLOC', f, f'{tag}{shown} is chosen once per layer and stored for every factor', norm(st)[:100],
                          f'{tag}co-located placement: {shown} is recomputed inside the loop over the factors of a layer, so factors of one layer can land on different workers', st)


# --------------------------------------------------------------------------- KAISA grid

def rule_rank_arg(ctx: Ctx, which: str) -> None:
    """RANK-ARG: the assignment is built for this process's *global* rank in the default group and for the global
    world size — the coordinates every root / membership test of the step is expressed in."""
    p = ctx.prog
    ctx.rule('RANK-ARG', "the assignment's local_rank is get_rank() of the default group (the global rank) and world_size is get_world_size()", floor=1)
    owner, cls = (('preconditioner.KFACPreconditioner.__init__', 'KAISAAssignment') if which == 'KAISA'
                  else ('gpt_neox.preconditioner.GPTNeoXKFACPreconditioner.__init__', 'GPTNeoXAssignment'))
    f = p.get_func(owner)
    sites = [c for c in p.calls_in(f) if norm(c.func) == cls]
    if not sites:
        raise AnalysisIncomplete(f'{owner}: no construction of {cls} found')
    dist_mod = p.modules.get('kfac.distributed') or p.modules.get('distributed')
    for c in sites:
        kws = {k.arg: k.value for k in c.keywords}
        g = p.get_func(f'{cls_path(which)}.__init__')
        names = [a for a in g.params if a != 'self']
        for i, a in enumerate(c.args):
            if i < len(names):
                kws.setdefault(names[i], a)
        want = {'local_rank': 'get_rank'} if which != 'KAISA' else {'local_rank': 'get_rank', 'world_size': 'get_world_size'}
        for k, fn in want.items():
            v = kws.get(k)
            ok = isinstance(v, ast.Call) and norm(v.func) in (fn, f'kfac.distributed.{fn}', f'distributed.{fn}') and not v.args and not v.keywords
            if ok:
                tg = [t for t in p.resolve_call(f, v) if t.kind == 'func']
                ok = bool(tg) and all(t.ref.short == f'distributed.{fn}' for t in tg)
            ctx.check(ok, 'RANK-ARG', f, f'{cls}({k}={fn}())', f'{cls} {k}',
                      f'{owner}: {cls} is built with {k}={norm(v) if v is not None else None}; every root and membership test of the step is in global ranks of the default group, '
                      f'so {k} must be {fn}() (a launcher-local or group-relative value differs on multi-node / sub-group runs)', v if v is not None else c)
    # the accessor itself: the rank of the default group when initialised, else 0
    for fn, want_ret in (('get_rank', ('dist.get_rank(group)', '0')), ('get_world_size', ('dist.get_world_size(group)', '1'))):
        g = p.get_func(f'distributed.{fn}')
        def leaves(e: ast.expr) -> list[str]:
            return leaves(e.body) + leaves(e.orelse) if isinstance(e, ast.IfExp) else [norm(e)]
        rets = sorted(x for r in p.nodes(g) if isinstance(r, ast.Return) and r.value is not None for x in leaves(r.value))
        ctx.check(rets == sorted(want_ret), 'RANK-ARG', g, f'{fn}() = {want_ret[0]} if initialised else {want_ret[1]}', fn,
                  f'distributed.{fn} returns {rets}; specified: {want_ret[0]} when torch.distributed is initialised, else {want_ret[1]}', g.node)


def cls_path(which: str) -> str:
    return KA if which == 'KAISA' else GA


def _dict_builds(p, f, name: str) -> list[tuple[str, str, str, str]]:  # noqa: ANN001
    """(key, value, iterable, loop target) of every way `name` is filled per element of an iterable:
    `for t in it: name[k] = v` and `name = {k: v for t in it}` are the same construction."""
    out = []
    for n in p.nodes(f):
        if isinstance(n, ast.Assign) and len(n.targets) == 1 and isinstance(n.targets[0], ast.Subscript) and norm(n.targets[0].value) == name:
            loops = [lp for lp in flow.enclosing_loops(p, f, n) if isinstance(lp, ast.For)]
            if loops and not flow.enclosing_guards(p, f, n):
                lp = loops[-1] if loops[-1].lineno >= loops[0].lineno else loops[0]
                out.append((norm(n.targets[0].slice), norm(n.value), norm(lp.iter), norm(lp.target)))
        if isinstance(n, (ast.Assign, ast.AnnAssign)) and isinstance(n.value, ast.DictComp):
            tg = n.targets[0] if isinstance(n, ast.Assign) else n.target
            dc = n.value
            if norm(tg) == name and len(dc.generators) == 1 and not dc.generators[0].ifs:
                g = dc.generators[0]
                out.append((norm(dc.key), norm(dc.value), norm(g.iter), norm(g.target)))
    return out


def rule_coh_grid(ctx: Ctx) -> None:
    p = ctx.prog
    ctx.rule('COH-GRID', "a layer's worker group is the column containing its inverse worker, the receiver group the row containing the local rank, "
                         'the gradient source their intersection, is_grad_worker membership of the local rank in the same column record', floor=8)
    ctx.rule('AFF-GRID', 'columns are range(i, W, W//K) for i < W//K, rows are range(i*(W//K), (i+1)*(W//K)) for i < K', floor=2)
    init = p.get_func(f'{KA}.__init__')
    txt = {norm(n) for n in p.nodes(init) if isinstance(n, ast.Assign)}
    nodes = p.nodes(init)

    def assigned(name: str) -> ast.expr | None:
        for n in nodes:
            if isinstance(n, ast.Assign) and len(n.targets) == 1 and norm(n.targets[0]) == name:
                return n.value
        return None
    gw = assigned('grad_worker_ranks')
    gr = assigned('grad_receiver_ranks')
    ctx.check(gw is not None and norm(gw.func).endswith('partition_grad_workers') and [norm(a) for a in gw.args] == ['self.world_size', 'self.grad_workers'], 'COH-GRID', init,
              'worker groups = partition_grad_workers(world_size, grad_workers)', 'grad_worker_ranks', f'grad_worker_ranks is {norm(gw) if gw is not None else None}', gw or init.node)
    ctx.check(gr is not None and norm(gr.func).endswith('partition_grad_receivers') and [norm(a) for a in gr.args] == ['self.world_size', 'self.grad_workers'], 'COH-GRID', init,
              'receiver groups = partition_grad_receivers(world_size, grad_workers)', 'grad_receiver_ranks', f'grad_receiver_ranks is {norm(gr) if gr is not None else None}', gr or init.node)
    ia = assigned('self._inv_assignments')
    def _rows_of_workers(e: ast.expr) -> bool:
        # [list(v) for v in grad_worker_ranks] / [sorted(v) ...], whatever the comprehension variable is called
        if not (isinstance(e, ast.ListComp) and len(e.generators) == 1 and not e.generators[0].ifs and isinstance(e.generators[0].target, ast.Name)):
            return False
        g_ = e.generators[0]
        return norm(g_.iter) == 'grad_worker_ranks' and norm(e.elt) in (f'list({g_.target.id})', f'sorted({g_.target.id})')
    ok = ia is not None and norm(ia.func).endswith('greedy_assignment') and len(ia.args) >= 4 and norm(ia.args[0]) == 'work' \
        and _rows_of_workers(ia.args[1]) \
        and norm(ia.args[2]) == 'self.world_size' and norm(ia.args[3]) == 'self.colocate_factors'
    ctx.check(ok, 'COH-GRID', init, 'greedy assignment is confined to the gradient-worker groups (columns)', '_inv_assignments',
              f'inverse workers are assigned by {norm(ia)[:140] if ia is not None else None}; the candidate groups must be the gradient-worker groups', ia or init.node)
    # per-layer records
    handle_tables: set[str] = set()
    # the layer variable: the (first) target of the loop over the assignment table; the inverse-worker local: the name
    # tested for membership in a column (whatever the two are called)
    lay = 'layer'
    for lp in nodes:
        if isinstance(lp, ast.For) and norm(lp.iter) in ('self._inv_assignments', 'self._inv_assignments.items()', 'self._inv_assignments.keys()'):
            t0 = lp.target.elts[0] if isinstance(lp.target, ast.Tuple) and lp.target.elts else lp.target
            if isinstance(t0, ast.Name):
                lay = t0.id
    iw_name = 'inv_worker'
    for n_ in nodes:
        if isinstance(n_, ast.Compare) and len(n_.ops) == 1 and isinstance(n_.ops[0], (ast.In, ast.NotIn)) and isinstance(n_.left, ast.Name) and isinstance(n_.comparators[0], ast.Name):
            lps_ = [lp for lp in flow.enclosing_loops(p, init, n_) if isinstance(lp, ast.For) and norm(lp.iter) == 'grad_worker_ranks' and norm(lp.target) == n_.comparators[0].id]
            if lps_:
                iw_name = n_.left.id
    for rec, tab, member in (('_grad_worker_groups', 'grad_worker_ranks', iw_name), ('_grad_receiver_groups', 'grad_receiver_ranks', 'self.local_rank')):
        sts = [n for n in nodes if isinstance(n, ast.Assign) and len(n.targets) == 1 and isinstance(n.targets[0], ast.Subscript) and norm(n.targets[0].value) == f'self.{rec}']
        good = False
        for st in sts:
            atoms = [(norm(a), pol) for g in flow.guards(p, init, st) for a, pol in conjuncts(g.test, g.polarity)]
            loops = [lp for lp in flow.enclosing_loops(p, init, st) if isinstance(lp, ast.For)]
            v = st.value
            lvars = [norm(lp.target) for lp in loops if norm(lp.iter) == tab and isinstance(lp.target, ast.Name)]
            lv_ = next((x for x in lvars if (f'{member} in {x}', True) in atoms or (f'{member} not in {x}', False) in atoms), None)
            if lv_ is not None \
                    and isinstance(v, ast.Call) and norm(v.func) == '_Group' and sorted(k.arg or '' for k in v.keywords) == ['group', 'ranks'] \
                    and norm(st.targets[0].slice) == lay:
                kws = {k.arg: k.value for k in v.keywords}
                h = kws['group']
                # the handle is looked up, under the very rank set stored, in a local table (whatever it is called)
                if norm(kws['ranks']) == lv_ and isinstance(h, ast.Subscript) and isinstance(h.value, ast.Name) and norm(h.slice) == lv_:
                    good = True
                    handle_tables.add(h.value.id)
        if not good and member == 'self.local_rank':
            # the receiver group does not depend on the layer: it may be searched once, before the layer loop, into a local
            # (`R = None; for ranks in TAB: if self.local_rank in ranks: R = ranks`) and stored under `R is not None`
            for st in sts:
                v = st.value
                if not (isinstance(v, ast.Call) and norm(v.func) == '_Group' and sorted(k.arg or '' for k in v.keywords) == ['group', 'ranks'] and norm(st.targets[0].slice) == lay):
                    continue
                kws = {k.arg: k.value for k in v.keywords}
                R, h = kws['ranks'], kws['group']
                if not (isinstance(R, ast.Name) and isinstance(h, ast.Subscript) and isinstance(h.value, ast.Name) and norm(h.slice) == R.id):
                    continue
                defs = [n for n in nodes if isinstance(n, ast.Assign) and len(n.targets) == 1 and norm(n.targets[0]) == R.id]
                found = [d for d in defs if isinstance(d.value, ast.Name)]
                inits = [d for d in defs if norm(d.value) == 'None']
                if len(found) != 1 or len(found) + len(inits) != len(defs):
                    continue
                d = found[0]
                lps = [lp for lp in flow.enclosing_loops(p, init, d) if isinstance(lp, ast.For)]
                atoms_d = [(norm(a), pol) for g in flow.enclosing_guards(p, init, d) for a, pol in conjuncts(g.test, g.polarity)]
                atoms_s = [(norm(a), pol) for g in flow.guards(p, init, st) for a, pol in conjuncts(g.test, g.polarity)]
                if len(lps) == 1 and norm(lps[0].iter) == tab and norm(lps[0].target) == norm(d.value) and (f'{member} in {norm(d.value)}', True) in atoms_d \
                        and ((f'{R.id} is None', False) in atoms_s or (f'{R.id} is not None', True) in atoms_s or not inits):
                    good = True
                    handle_tables.add(h.value.id)
        ctx.check(good, 'COH-GRID', init, f'{rec}[layer] = the element of {tab} containing {member}, with the handle created for the same ranks', rec,
                  f'self.{rec}[layer] is not set to _Group(ranks=ranks, group=ranks_to_communication_group[ranks]) for the element of {tab} that contains {member}', sts[0] if sts else init.node)
    iw = assigned(iw_name)
    # the per-layer table may be reached as self._inv_assignments[layer] or as the value variable of
    # `for layer, v in self._inv_assignments.items()`
    vals = {norm(lp.target.elts[1]) for lp in nodes if isinstance(lp, ast.For) and isinstance(lp.target, ast.Tuple) and len(lp.target.elts) == 2
            and norm(lp.target.elts[0]) == lay and norm(lp.iter) == 'self._inv_assignments.items()'}
    ctx.check(iw is not None and (f'self._inv_assignments[{lay}]' in norm(iw) or any(re.search(rf'\b{re.escape(v)}\b', norm(iw)) for v in vals)), 'COH-GRID', init, 'the column is selected by an inverse worker of the same layer', 'inv_worker',
              f'inv_worker is {norm(iw) if iw is not None else None}', iw or init.node)
    # group handles created for every row and column under the ranks they are looked up by
    okh = False
    union = ('grad_worker_ranks | grad_receiver_ranks', 'grad_receiver_ranks | grad_worker_ranks')
    htab = next(iter(handle_tables)) if len(handle_tables) == 1 else 'ranks_to_communication_group'
    builds = _dict_builds(p, init, htab)
    okh = bool(builds) and len(handle_tables) <= 1 and all(
        it in union and key == tgt and val in (f'self.group_func(list({tgt}))', f'self.group_func(sorted({tgt}))') for key, val, it, tgt in builds)
    ctx.check(okh, 'COH-GRID', init, 'one handle per row and per column, keyed by its ranks', 'ranks_to_communication_group',
              'process-group handles are not created once for every gradient-worker and gradient-receiver rank set and stored under that rank set', init.node)
    # accessor methods
    want = {
        'is_grad_worker': {'self.local_rank in self._grad_worker_groups[layer].ranks'},
        'grad_worker_group': {'self._grad_worker_groups[layer].group'},
        'grad_receiver_group': {'self._grad_receiver_groups[layer].group'},
        'inv_worker': {'self._inv_assignments[layer][factor]'},
        'src_grad_worker': {'set(self._grad_worker_groups[layer].ranks & self._grad_receiver_groups[layer].ranks).pop()',
                            'set(self._grad_receiver_groups[layer].ranks & self._grad_worker_groups[layer].ranks).pop()',
                            'next(iter(self._grad_worker_groups[layer].ranks & self._grad_receiver_groups[layer].ranks))',
                            'min(self._grad_worker_groups[layer].ranks & self._grad_receiver_groups[layer].ranks)'},
    }
    for m, ws in want.items():
        g = p.get_func(f'{KA}.{m}')
        rets = [n for n in p.nodes(g) if isinstance(n, ast.Return) and n.value is not None]
        got = norm(rets[0].value) if len(rets) == 1 else None
        ctx.check(got in ws, 'COH-GRID', g, f'{m} = {got}', m, f'KAISAAssignment.{m} returns {got}; specified: {sorted(ws)[0]}', g.node)
    # AFF-GRID
    nz = Normalizer({})
    for m, shape in (('partition_grad_workers', 'col'), ('partition_grad_receivers', 'row')):
        g = p.get_func(f'{KA}.{m}')
        W, K = [a for a in g.params][:2]
        env = {}
        for n in p.nodes(g):
            if isinstance(n, ast.Assign) and isinstance(n.targets[0], ast.Name):
                env[n.targets[0].id] = n.value
        rets = [n for n in p.nodes(g) if isinstance(n, ast.Return) and n.value is not None]
        ok = False
        got = norm(rets[0].value) if rets else None
        if len(rets) == 1 and isinstance(rets[0].value, (ast.SetComp, ast.ListComp)) and len(rets[0].value.generators) == 1:
            comp = rets[0].value
            gen = comp.generators[0]
            elt = comp.elt
            if isinstance(elt, ast.Call) and norm(elt.func) in ('frozenset', 'tuple', 'list') and len(elt.args) == 1:
                elt = elt.args[0]
            var = norm(gen.target)
            nz = Normalizer(env)
            Pp = nz.poly(ast.parse(f'{W} // {K}', mode='eval').body)
            if isinstance(elt, ast.Call) and norm(elt.func) == 'range' and isinstance(gen.iter, ast.Call) and norm(gen.iter.func) == 'range' and len(gen.iter.args) == 1 and not gen.ifs:
                bound = nz.poly(gen.iter.args[0])
                args = [nz.poly(a) for a in elt.args]
                i = nz.poly(ast.Name(id=var, ctx=ast.Load()))
                if shape == 'col':
                    ok = len(args) == 3 and args[0] == i and args[1] == nz.poly(ast.Name(id=W, ctx=ast.Load())) and args[2] == Pp and bound == Pp
                else:
                    ok = len(args) == 2 and args[0] == i * Pp and args[1] == i * Pp + Pp and bound == nz.poly(ast.Name(id=K, ctx=ast.Load()))
        ctx.check(ok, 'AFF-GRID', g, f'{m}: {got}', m, f'{m} returns {got}; specified: ' + ('{range(i, W, W//K) for i in range(W//K)}' if shape == 'col' else '{range(i*(W//K), (i+1)*(W//K)) for i in range(K)}'), g.node)


def rule_flt_int(ctx: Ctx) -> None:
    p = ctx.prog
    ctx.rule('FLT-INT', 'the gradient-worker count world_size*fraction is tested for integrality with a tolerance and converted by rounding', floor=2)
    ctx.rule('SIB-FRAC', 'preconditioner and assignment derive the same gradient-worker count from the fraction', floor=1)
    init = p.get_func(f'{KA}.__init__')
    nodes = p.nodes(init)
    var = None
    for n in nodes:
        if isinstance(n, ast.Assign) and isinstance(n.targets[0], ast.Name) and 'world_size * grad_worker_fraction' in norm(n.value) or \
                (isinstance(n, ast.Assign) and isinstance(n.targets[0], ast.Name) and 'grad_worker_fraction * world_size' in norm(n.value)):
            var = n.targets[0].id
    if var is None:
        raise AnalysisIncomplete('KAISAAssignment.__init__: the product world_size * grad_worker_fraction was not found')
    convs = []
    tests = []
    for n in nodes:
        if isinstance(n, ast.Call) and norm(n.func) in ('int', 'round', 'math.floor', 'math.ceil', 'math.trunc') and n.args and norm(n.args[0]) == var:
            par = p.parent(init.module, n)
            if isinstance(par, ast.Assign):
                convs.append(n)
        if isinstance(n, ast.If):
            if any(isinstance(r, ast.Raise) for r in n.body) and var in {x.id for x in ast.walk(n.test) if isinstance(x, ast.Name)} and ('int(' in norm(n.test) or 'round(' in norm(n.test) or 'isclose' in norm(n.test) or '%' in norm(n.test)):
                tests.append(n)
    for c in convs:
        ctx.check(norm(c.func) == 'round', 'FLT-INT', init, f'conversion {norm(c)}', norm(c),
                  f'{norm(c)} truncates the float product world_size*fraction: k/world_size*world_size can be one ulp below k (e.g. 98*(2/98)), which becomes k-1', c)
    if not convs:
        ctx.violate('FLT-INT', init, 'conversion', f'{var} (a float product) is never converted to an integer by rounding', init.node)
    for t in tests:
        tx = norm(t.test)
        tolerant = 'isclose' in tx or 'abs(' in tx
        exact = bool(re.search(rf'{var} != (int|round)\({var}\)|(int|round)\({var}\) != {var}', tx)) or '% 1' in tx
        ctx.check(tolerant and not exact, 'FLT-INT', init, f'integrality test {tx}', tx,
                  f'integrality of world_size*fraction is tested exactly ({tx}): a valid fraction k/world_size whose product is one ulp off k is rejected', t)
        # the tolerance has to cover the rounding error of the product: fl(W * fl(k/W)) differs from k by up to
        # (2u + u^2) k with u = 2^-53, i.e. a *relative* 2.3e-16.  math.isclose(a, b, rel_tol=r, abs_tol=t) accepts
        # |a-b| <= max(r * max(|a|,|b|), t): r >= 2^-51 covers every world size; t alone only covers k <= t / 2.3e-16,
        # accepted from 1e-9 on (k up to 4e6).
        for c in (x for x in ast.walk(t.test) if isinstance(x, ast.Call) and norm(x.func) in ('math.isclose', 'isclose')):
            tol = {'rel_tol': 1e-09, 'abs_tol': 0.0}
            for kw in c.keywords:
                if kw.arg in tol:
                    try:
                        tol[kw.arg] = float(eval(compile(ast.Expression(kw.value), '<tol>', 'eval'), {'__builtins__': {}}, {'math': math, 'sys': sys}))  # constants only
                    except Exception:
                        raise AnalysisIncomplete(f'KAISAAssignment.__init__: the tolerance {kw.arg}={norm(kw.value)} of the integrality test is not a constant expression')
            ctx.check(tol['rel_tol'] >= 2.0 ** -51 or tol['abs_tol'] >= 1e-9, 'FLT-INT', init, f'tolerance of {norm(c)[:80]}', 'isclose-tolerance',
                      f'the integrality test {norm(c)} accepts a deviation of max({tol["rel_tol"]:g}*k, {tol["abs_tol"]:g}); the product world_size*(k/world_size) '
                      f'is off k by up to 2.3e-16*k (e.g. 588*(12/588) = 12.000000000000002), so valid fractions are rejected', c)
    if not tests:
        ctx.violate('FLT-INT', init, 'test', 'no integrality test of world_size*fraction', init.node)
    pc = p.get_func('preconditioner.KFACPreconditioner.__init__')
    txt = ' '.join(norm(n) for n in p.nodes(pc) if isinstance(n, ast.If))
    ctx.check('round(size * grad_worker_fraction)' in txt or 'round(grad_worker_fraction * size)' in txt, 'SIB-FRAC', pc, 'preconditioner validates with round(size * fraction)', 'round',
              'KFACPreconditioner does not derive the gradient-worker count with round(size * grad_worker_fraction) as the assignment does', pc.node)


def rule_det_unif(ctx: Ctx, fam: str) -> None:
    S = get_spmd(ctx, fam)
    p = ctx.prog
    allowed = set() if fam == 'KAISA' else {'pipe'}
    ctx.rule('DET-UNIF', 'the inverse-worker table and everything derived from it only depend on rank-uniform data '
                         f'(label {sorted(allowed) or "{}"}): every rank {"of a stage " if allowed else ""}derives the same assignment', floor=3)
    root = 'kfac.assignment.WorkAssignment'
    cls = KA if fam == 'KAISA' else GA
    for fld in (['_inv_assignments', '_grad_worker_groups'] if fam == 'KAISA' else ['_inv_assignments']):
        lab = S.fld.get((root, fld), set())
        why = [S.explain(S.fld, (root, fld), x) for x in lab - allowed]
        ctx.check(lab <= allowed, 'DET-UNIF', p.get_func(f'{cls}.__init__'), f'[{fam}] label({fld}) = {sorted(lab)}', fld,
                  f'[{fam}] {fld} depends on rank-specific data (label {sorted(lab)}; first source: {why[:1]}): ranks would derive different assignments', None)
    for m in ('inv_worker', 'broadcast_gradients', 'broadcast_inverses') + (('grad_worker_group',) if fam == 'KAISA' else ()):
        g = p.get_func(f'{cls}.{m}')
        lab = S.conc({x for x in S.ret.get(g.qualname, set()) if not x.startswith('P:')})
        ctx.check(lab <= allowed, 'DET-UNIF', g, f'[{fam}] label({m}()) = {sorted(lab)}', m,
                  f'[{fam}] {m}() depends on rank-specific data (label {sorted(lab)})', g.node)


# --------------------------------------------------------------------------- GPT-NeoX assignment

def rule_role_grp(ctx: Ctx) -> None:
    """ROLE-GRP + GRP-REUSE + DET-TIE for GPTNeoXAssignment."""
    p = ctx.prog
    ctx.rule('ROLE-GRP', 'factor_worker in DP(inverse worker) & MP(self); src_grad_worker in DP(self) & MP(inverse worker); is_grad_worker tests '
                         'inverse worker in MP(self); get_group_with_rank returns the first group that contains the rank', floor=6)
    ctx.rule('GRP-REUSE', 'the stage peer group is an existing group only when its members equal the stage peers, else a group created for exactly the stage peers', floor=3)
    ctx.rule('DET-TIE', 'the GPT-NeoX placement order is total: sort key (cost, name)', floor=1)
    init = p.get_func(f'{GA}.__init__')
    nodes = p.nodes(init)

    def assigned(name: str) -> ast.expr | None:
        for n in nodes:
            if isinstance(n, ast.Assign) and len(n.targets) == 1 and norm(n.targets[0]) == name:
                return n.value
        return None
    # role definitions from __init__
    roles = {}
    for attr, axis in (('data_parallel_peers', 'data'), ('model_parallel_peers', 'model')):
        v = assigned(f'self.{attr}')
        ok = isinstance(v, ast.Call) and norm(v.func).endswith('get_group_with_rank') and len(v.args) == 2 and norm(v.args[0]) == 'self.local_rank' and norm(v.args[1]) == f'self.{axis}_parallel_groups'
        g = assigned(f'self.{axis}_parallel_groups')
        ok = ok and isinstance(g, ast.Call) and norm(g) == f"topology.get_axis_comm_lists('{axis}')"
        ctx.check(bool(ok), 'ROLE-GRP', init, f'self.{attr} = {axis}-parallel group of the local rank', attr,
                  f'self.{attr} is {norm(v) if v is not None else None} over {norm(g) if g is not None else None}; expected get_group_with_rank(self.local_rank, topology.get_axis_comm_lists({axis!r}))', v or init.node)
    pr = assigned('self.pipe_parallel_rank')
    ctx.check(pr is not None and norm(pr) == 'topology.get_coord(self.local_rank).pipe', 'ROLE-GRP', init, 'pipe_parallel_rank = pipe coordinate of the local rank', 'pipe_parallel_rank',
              f'self.pipe_parallel_rank is {norm(pr) if pr is not None else None}', pr or init.node)
    pp = assigned('self.pipe_parallel_peers')
    okp = isinstance(pp, ast.ListComp) and len(pp.generators) == 1 and norm(pp.elt) == norm(pp.generators[0].target) \
        and norm(pp.generators[0].iter) == 'range(topology.world_size())' and len(pp.generators[0].ifs) == 1 \
        and norm(pp.generators[0].ifs[0]) in (f'topology.get_coord({norm(pp.elt)}).pipe == self.pipe_parallel_rank', f'self.pipe_parallel_rank == topology.get_coord({norm(pp.elt)}).pipe')
    ctx.check(bool(okp), 'ROLE-GRP', init, 'pipe_parallel_peers = all ranks with the own pipe coordinate, ascending', 'pipe_parallel_peers',
              f'self.pipe_parallel_peers is {norm(pp) if pp is not None else None}; expected the ranks of range(world_size) whose pipe coordinate equals the own one', pp or init.node)

    def inter_roles(g: Func) -> tuple[set[str], ast.AST | None]:
        """Roles of the two operands of the `set(..) & set(..)` whose single element is returned / tested."""
        env = {}
        for n in p.nodes(g):
            if isinstance(n, ast.Assign) and isinstance(n.targets[0], ast.Name):
                env[n.targets[0].id] = n.value

        def inv_expr(e: ast.expr, depth: int = 0) -> bool:
            if 'self._inv_assignments[layer]' in norm(e):
                return True
            if depth > 6:
                return False
            return any(isinstance(x, ast.Name) and x.id in env and inv_expr(env[x.id], depth + 1) for x in ast.walk(e))

        def role(e: ast.expr) -> str:
            if isinstance(e, ast.Call) and norm(e.func) == 'set' and len(e.args) == 1:
                e = e.args[0]
            for _ in range(4):
                if isinstance(e, ast.Name) and e.id in env:
                    e = env[e.id]
            t = norm(e)
            if t == 'self.data_parallel_peers':
                return 'DP(self)'
            if t == 'self.model_parallel_peers':
                return 'MP(self)'
            if isinstance(e, ast.Call) and norm(e.func).endswith('get_group_with_rank') and len(e.args) == 2:
                ax = {'self.data_parallel_groups': 'DP', 'self.model_parallel_groups': 'MP'}.get(norm(e.args[1]))
                who = 'inv' if inv_expr(e.args[0]) else ('self' if norm(e.args[0]) == 'self.local_rank' else '?')
                if ax:
                    return f'{ax}({who})'
            if 'self._inv_assignments[layer]' in t:
                return '{inv}'
            return f'?{t[:40]}'
        for n in p.nodes(g):
            if isinstance(n, ast.BinOp) and isinstance(n.op, ast.BitAnd):
                return {role(n.left), role(n.right)}, n
        return set(), None
    for m, want in (('factor_worker', {'DP(inv)', 'MP(self)'}), ('src_grad_worker', {'DP(self)', 'MP(inv)'}), ('is_grad_worker', {'{inv}', 'MP(self)'})):
        g = p.get_func(f'{GA}.{m}')
        got, node = inter_roles(g)
        ctx.check(got == want, 'ROLE-GRP', g, f'{m}: intersection of {sorted(got)}', m,
                  f'GPTNeoXAssignment.{m} intersects {sorted(got)}; specified: {sorted(want)}', node or g.node)
        # every exit returns the single element of (a test on) that intersection: no other path decides the role
        for r in [n for n in p.nodes(g) if isinstance(n, ast.Return)]:
            derived = False
            todo = [r.value] if r.value is not None else []
            seen_n: set[str] = set()
            while todo and not derived:
                e = todo.pop()
                for x in ast.walk(e):
                    if x is node:
                        derived = True
                    if isinstance(x, ast.Name) and isinstance(x.ctx, ast.Load) and x.id not in seen_n:
                        seen_n.add(x.id)
                        todo.extend(p.local_defs(g, x.id))
            ctx.check(derived, 'ROLE-GRP', g, f'{m}: {norm(r)} returns the element of the intersection', f'{m} {norm(r)[:60]}',
                      f'GPTNeoXAssignment.{m}: {norm(r)} does not come from the intersection {sorted(want)}: on that path the role is decided by something else', r)
        rets = [n for n in p.nodes(g) if isinstance(n, ast.Return) and n.value is not None]
        if m == 'is_grad_worker':
            ok = len(rets) == 1 and re.sub(r'\s+', '', norm(rets[0].value)).startswith('len(') and re.sub(r'\s+', '', norm(rets[0].value)).endswith(')==1')
            ctx.check(ok, 'ROLE-GRP', g, 'is_grad_worker: the intersection has exactly one element', m + ' ==1', f'is_grad_worker returns {norm(rets[0].value) if rets else None}', g.node)
    # get_group_with_rank
    gg = p.get_func('gpt_neox.mpu.get_group_with_rank')
    rets = [n for n in p.nodes(gg) if isinstance(n, ast.Return)]
    ok = False
    for r in rets:
        atoms = [(norm(a), pol) for gd in flow.enclosing_guards(p, gg, r) for a, pol in conjuncts(gd.test, gd.polarity)]
        loops = [lp for lp in flow.enclosing_loops(p, gg, r) if isinstance(lp, ast.For)]
        if len(loops) == 1 and norm(loops[0].iter) == gg.params[1] and atoms == [(f'{gg.params[0]} in {norm(loops[0].target)}', True)] and norm(r.value) == norm(loops[0].target):
            ok = True
    ctx.check(ok and len(rets) == 1 and any(isinstance(n, ast.Raise) for n in p.nodes(gg)), 'ROLE-GRP', gg, 'get_group_with_rank: first group g with rank in g, else raise', 'get_group_with_rank',
              'get_group_with_rank does not return the first group that contains the rank (membership test) and raise otherwise', gg.node)
    # GRP-REUSE
    sts = [n for n in nodes if isinstance(n, ast.Assign) and len(n.targets) == 1 and norm(n.targets[0]) == 'self.pipe_parallel_peer_group']
    for st in sts:
        atoms = [(re.sub(r'\s+', '', norm(a)), pol) for gd in flow.enclosing_guards(p, init, st) for a, pol in conjuncts(gd.test, gd.polarity)]
        pos = [a for a, pol in atoms if pol]
        v = norm(st.value)

        def eqtest(peers: str) -> set[str]:
            return {f'set(self.pipe_parallel_peers)==set(self.{peers})', f'set(self.{peers})==set(self.pipe_parallel_peers)'}
        if v == 'self.model_parallel_group':
            ok = any(a in eqtest('model_parallel_peers') for a in pos)
        elif v == 'self.data_parallel_group':
            ok = any(a in eqtest('data_parallel_peers') for a in pos)
        elif v == 'None':
            ok = True
        else:
            # a group created for the own stage
            ok = False
            src = st.value
            if isinstance(src, ast.Name):
                ds = [n for n in nodes if isinstance(n, ast.Assign) and norm(n.targets[0]) == src.id]
                # group created for D[S] under the test S == own stage
                m_arg = re.fullmatch(r'dist\.new_group\((\w+)\[(\w+)\]\)', re.sub(r'\s+', '', norm(ds[0].value))) if len(ds) == 1 else None
                sv = m_arg.group(2) if m_arg else 'stage'
                stage_guard = any(re.sub(r'\s+', '', a) in (f'{sv}==self.pipe_parallel_rank', f'self.pipe_parallel_rank=={sv}') for a in pos)
                ok = len(ds) == 1 and norm(ds[0].value).startswith('dist.new_group(') and stage_guard
            elif isinstance(src, ast.Call) and norm(src.func).endswith('new_group'):
                ok = len(src.args) == 1 and norm(src.args[0]) == 'self.pipe_parallel_peers'
        ctx.check(ok, 'GRP-REUSE', init, f'pipe_parallel_peer_group = {v} under {pos}', norm(st),
                  f'self.pipe_parallel_peer_group = {v} under {pos}: the group used for stage-wide factor reductions must have exactly the stage peers as members', st)
    if not sts:
        ctx.violate('GRP-REUSE', init, 'pipe_parallel_peer_group', 'self.pipe_parallel_peer_group is never assigned', init.node)
    # new_group argument for the created stage groups: exactly the ranks of one pipe coordinate
    for n in nodes:
        if isinstance(n, ast.Call) and norm(n.func).endswith('new_group') and norm(n) != 'dist.new_group(self.pipe_parallel_peers)':
            arg = norm(n.args[0]) if n.args else ''
            m_arg = re.fullmatch(r'(\w+)\[(\w+)\]', arg)
            okn = bool(m_arg) and any(isinstance(m_, ast.Expr) and re.fullmatch(re.escape(m_arg.group(1)) + r'\.setdefault\(topology\.get_coord\((\w+)\)\.pipe,\[\]\)\.append\(\1\)',
                                                                          re.sub(r'\s+', '', norm(m_))) for m_ in nodes)
            # the table is iterated over its keys (one group per stage) and filled from every rank of the topology
            if okn:
                lps = [lp for lp in flow.enclosing_loops(p, init, n) if isinstance(lp, ast.For)]
                okn = any(norm(lp.target) == m_arg.group(2) and m_arg.group(1) in norm(lp.iter) for lp in lps)
            ctx.check(okn, 'GRP-REUSE', init, 'created groups hold the ranks of one pipe coordinate each', norm(n),
                      f'{norm(n)}: cannot show that the created group holds exactly the ranks of one pipeline stage', n)
    # DET-TIE
    srt = [n for n in nodes if isinstance(n, ast.Call) and norm(n.func) == 'sorted' and any(k.arg == 'key' for k in n.keywords)]
    for c in srt:
        key = [k.value for k in c.keywords if k.arg == 'key'][0]
        ok = isinstance(key, ast.Lambda) and isinstance(key.body, ast.Tuple) and len(key.body.elts) == 2 and \
            [norm(e) for e in key.body.elts] == [f'{key.args.args[0].arg}[1]', f'{key.args.args[0].arg}[0]']
        ctx.check(ok, 'DET-TIE', init, 'sort key (cost, name)', norm(c)[:120], f'{norm(c)[:120]}: ties between equal costs are not broken by the unique layer name', c)
