"""C14 — triangular packing of symmetric matrices is lossless."""
from __future__ import annotations

from kfv.core import Ctx
from kfv.rules import coh_rules as C
from kfv.rules import dist_rules as D

NEEDS_TYPES = False
TECHNIQUE = ('index-set algebra of pack/unpack (same generator, same (rows, cols), offset 0; mirror through a transpose with offset <= 1), '
             'layout-independence lint, dominance of the shape validation over packing and communication, rank-space lint; configuration forwarding of symmetry_aware; '
             'case evaluation of the completion callbacks over (average, symmetric)')
EXPLANATION = (
    'get_triu and fill_triu are reduced to index-set terms under the torch semantics of triu_indices (A3): the pack gathers '
    'T[I0, I1] with I = triu_indices(rows(T), cols(T), 0); the unpack scatters the packed vector to the same enumeration of a '
    'new matrix of the requested shape and dtype, then copies Upper(m), m in {0,1}, of the filled matrix through a (0,1) transpose, '
    'so Upper(0) u Upper(m)^T is the whole matrix.  Neither may depend on memory strides.  In the three communication functions '
    'the validation (2-D and square, on the shape captured before packing) raises before any packing or communication, all ranks '
    'pack exactly when symmetric, and every pack is paired with one unpack into the captured shape.  Exact value equality per '
    'dtype is torch\'s gather/scatter semantics and is not decided. symmetry_aware reaches every layer type unconditionally (CFG-FWD). '
    'The completion callbacks are evaluated in the four worlds symmetric x average: unpacking and averaging commute and neither is skipped (AFF-AVG, SIB-CB).')

NOT_DECIDED = 'exact value equality per dtype (torch gather/scatter)'


def run(ctx: Ctx) -> None:
    ctx.assumptions -= {'A6'}
    ctx.do(D.rule_idx_triu)
    ctx.do(D.rule_dom_valid)
    ctx.do(D.rule_rank_space)
    ctx.do(C.rule_cfg_fwd)
    from kfv.rules import dist_rules as _DR
    ctx.do(_DR.rule_contig)
    # "symmetric allreduce returns the same result as the dense one": the completion callbacks do the same
    # post-processing (averaging) whether or not the payload was packed
    ctx.do(C.rule_aff_avg)
    ctx.do(D.rule_sib_cb)
