"""Rules over BaseKFACPreconditioner (step / hooks / load_state_dict), shared by C05, C07, C09, C13, C02, C04."""
from __future__ import annotations

import ast

from kfv import flow
from kfv import symexec
from kfv.core import AnalysisError
from kfv.core import AnalysisIncomplete
from kfv.core import Ctx
from kfv.model import Func
from kfv.model import norm
from kfv.rules.spmd_rules import conjuncts
from kfv.terms import Normalizer
from kfv.terms import Poly

BP = 'base_preconditioner.BaseKFACPreconditioner'
FACTOR_METHODS = {'save_layer_input', 'save_layer_grad_output', 'update_a_factor', 'update_g_factor',
                  'reduce_a_factor', 'reduce_g_factor'}
INV_METHODS = {'compute_a_inv', 'compute_g_inv', 'broadcast_a_inv', 'broadcast_g_inv'}
GRAD_METHODS = {'preconditioned_grad', 'broadcast_grad', 'update_grad'}
LAYER = 'kfac.layers.base.KFACBaseLayer'


def hp_names(ctx: Ctx) -> tuple[list[str], set[str]]:
    c = ctx.prog.get_class(BP)
    names, ints = [], set()
    for n, g in c.getters.items():
        txt = ' '.join(norm(st) for st in g.body)
        if f'callable(self._{n})' in txt or f'self._{n}(' in txt:
            names.append(n)
            if norm(g.node.returns) == 'int':  # type: ignore[attr-defined]
                ints.add(n)
    return names, ints


def steps_atom(n: ast.AST) -> str | None:
    """self.steps / self._steps -> canonical atom 'steps'."""
    if isinstance(n, ast.Attribute) and isinstance(n.value, ast.Name) and n.value.id == 'self' and n.attr in ('steps', '_steps'):
        return 'steps'
    return None


def layer_calls(ctx: Ctx, f: Func) -> list[tuple[ast.Call, str]]:
    """Calls in f on a KFAC layer object: (call, method name)."""
    p = ctx.prog
    p.family = None
    out = []
    for c in p.calls_in(f):
        if isinstance(c.func, ast.Attribute):
            recv = p.receiver_classes(f, c.func.value)
            if any(rc in p.classes and p.is_subclass(rc, LAYER) for rc in recv):
                out.append((c, c.func.attr))
    return out


def mod_gates(atoms: list[tuple[ast.expr, bool, str]]) -> tuple[list[tuple], list[str]]:
    """Modulo gates among guard atoms: (dividend canon, divisor canon, rhs canon, polarity); plus other atoms reading steps."""
    nz = Normalizer({}, steps_atom)
    gates, others = [], []
    for a, pol, _via in atoms:
        if isinstance(a, ast.Compare) and len(a.ops) == 1 and isinstance(a.ops[0], (ast.Eq, ast.NotEq)):
            sides = [a.left, a.comparators[0]]
            m = [s for s in sides if isinstance(s, ast.BinOp) and isinstance(s.op, ast.Mod)]
            if len(m) == 1:
                o = [s for s in sides if s is not m[0]][0]
                eq = isinstance(a.ops[0], ast.Eq)
                dv = nz.poly(m[0].left)
                gates.append((dv.canon(), nz.poly(m[0].right).canon(), nz.poly(o).canon(), pol == eq, 'steps' in dv.atoms()))
                continue
        if any(steps_atom(x) for x in ast.walk(a)):
            others.append(('' if pol else 'not ') + norm(a))
    return gates, others


def guard_atoms_plain(ctx: Ctx, f: Func, node: ast.AST) -> list[tuple[ast.expr, bool, str]]:
    out = []
    for g in flow.guards(ctx.prog, f, node):
        for a, pol in conjuncts(g.test, g.polarity):
            out.append((a, pol, g.via))
    return out


def mutable_state_reads(ctx: Ctx, f: Func, atoms: list[tuple[ast.expr, bool, str]]) -> list[str]:
    """Fields of the preconditioner read by non-interval guard atoms that some method other than __init__ writes.

    A guard of the inverse / gradient phase may test the rank's role (assignment queries, configuration
    fixed at construction); it may not test state that changes between steps, because then the phase
    no longer runs on every step of its interval.  Locals are followed to their definitions.
    """
    from kfv.rules.memo_rules import _backing, _writers
    p = ctx.prog
    fields: set[str] = set()
    seen: set[str] = set()
    full = p.get_class(BP).fullname

    def visit(e: ast.AST, depth: int) -> None:
        for n in ast.walk(e):
            if isinstance(n, ast.Attribute) and isinstance(n.value, ast.Name) and n.value.id == 'self' and isinstance(n.ctx, ast.Load):
                if n.attr in ('steps', '_steps'):
                    continue  # counted by the interval-gate clauses
                fields.update(_backing(p, full, n.attr))
            elif isinstance(n, ast.Name) and isinstance(n.ctx, ast.Load) and n.id != 'self' and n.id not in seen and depth < 4:
                seen.add(n.id)
                for d in p.local_defs(f, n.id):
                    visit(d, depth + 1)

    for a, _pol, _via in atoms:
        if isinstance(a, ast.Compare) and any(isinstance(x, ast.BinOp) and isinstance(x.op, ast.Mod) for x in [a.left] + list(a.comparators)):
            continue
        visit(a, 0)
    fields -= {'steps', '_steps'}
    # hyper-parameters are state by design (SIB-HP / SIB-SCHED decide how they are read and written);
    # restoring a checkpoint is not a step
    hps, _ints = hp_names(ctx)
    fields -= {f'_{h}' for h in hps} | set(hps)
    out = []
    for m, _n, fld in _writers(p, full, fields):
        if m.name == 'load_state_dict':
            continue
        out.append(f'self.{fld} (written in {m.short})')
    return sorted(set(out))


def rule_gates(ctx: Ctx) -> None:
    """AFF-GATE, DOM-FGATE, DOM-INVGATE, DOM-ALWAYS over step() and the two hooks."""
    p = ctx.prog
    ctx.rule('AFF-GATE', 'interval gates have the form steps % <own interval> == 0 with dividend exactly the step counter', floor=4)
    ctx.rule('DOM-FGATE', 'every factor-state effect in hooks / step is control-dependent on the factor gate (and on no other step predicate)', floor=8)
    ctx.rule('DOM-INVGATE', 'every compute_*_inv / broadcast_*_inv in step() is control-dependent on the inverse gate, on no other step predicate and on no field written after construction', floor=4)
    ctx.rule('DOM-ALWAYS', 'the gradient phase (preconditioned_grad, broadcast_grad, update_grad, grad scale) depends on no step predicate and on no field written after construction', floor=3)
    fus = 'self.factor_update_steps'
    ius = 'self.inv_update_steps'
    seen_gates = set()
    for fname in ('step', '_save_input', '_save_grad_output'):
        f = p.get_func(f'{BP}.{fname}')
        sites = layer_calls(ctx, f)
        if fname == 'step':
            sites += [(c, '_compute_grad_scale') for c in p.calls_in(f) if isinstance(c.func, ast.Attribute) and c.func.attr == '_compute_grad_scale']
        for c, m in sites:
            atoms = guard_atoms_plain(ctx, f, c)
            gates, others = mod_gates(atoms)
            step_gates = [g for g in gates if g[4] or g[1] in (fus, ius)]
            acc_gates = [g for g in gates if g not in step_gates]
            for g in step_gates:
                good = g[0] == 'steps' and g[2] == '0' and g[3] and g[1] in (fus, ius)
                if id(c) not in seen_gates:
                    ctx.check(good, 'AFF-GATE', f, f'{m}: gate {g[0]} % {g[1]} == {g[2]}', f'{g[0]} % {g[1]} == {g[2]} ({g[3]})',
                              f'{norm(c.func)} is gated by ({g[0]}) % ({g[1]}) {"==" if g[3] else "!="} {g[2]}; the specified gate is steps % interval == 0', c)
            divs = sorted({g[1] for g in step_gates if g[0] == 'steps' and g[2] == '0' and g[3]})
            if m in FACTOR_METHODS:
                ok = divs == [fus] and not others
                ctx.check(ok, 'DOM-FGATE', f, f'{fname}: {m} under steps % factor_update_steps == 0', norm(c)[:100],
                          f'{fname}: {norm(c.func)} must run exactly on factor-update steps (steps % factor_update_steps == 0); found interval gates {divs or "none"}'
                          + (f' and extra step predicates {others}' if others else ''), c)
            elif m in INV_METHODS and fname == 'step':
                mut = mutable_state_reads(ctx, f, atoms)
                ok = divs == [ius] and not others and not mut
                ctx.check(ok, 'DOM-INVGATE', f, f'{m} under steps % inv_update_steps == 0 only', norm(c)[:100],
                          f'step(): {norm(c.func)} must run exactly on multiples of the inverse interval; found interval gates {divs or "none"}'
                          + (f' and extra step predicates {others}' if others else '')
                          + (f' and guards reading state that changes between steps: {mut}' if mut else ''), c)
            elif m in GRAD_METHODS or m == '_compute_grad_scale':
                mut = mutable_state_reads(ctx, f, atoms) if fname == 'step' else []
                ok = not step_gates and not others and not acc_gates and not mut
                ctx.check(ok, 'DOM-ALWAYS', f, f'{m} runs on every step', norm(c)[:100],
                          f'step(): {norm(c.func)} is conditional on the step counter ({[g[:3] for g in gates] + others})'
                          + (f' or on state that changes between steps ({mut})' if mut else '') + '; every step must precondition', c)
    # the phases must exist at all
    st = p.get_func(f'{BP}.step')
    have = {m for _c, m in layer_calls(ctx, st)}
    for need in ('compute_a_inv', 'compute_g_inv', 'preconditioned_grad', 'update_grad'):
        if need not in have:
            ctx.violate('DOM-INVGATE' if 'inv' in need else 'DOM-ALWAYS', st, need, f'step() never calls layer.{need}', st.node)


def rule_sib_hp(ctx: Ctx) -> None:
    """Six hyper-parameter getters: own backing field, evaluated at exactly `steps` when callable."""
    p = ctx.prog
    names, _ = hp_names(ctx)
    ctx.rule('SIB-HP', 'each hyper-parameter property returns its own backing field, called with exactly the step counter when callable', floor=6)
    init = p.get_func(f'{BP}.__init__')
    stores = {}
    for n in p.nodes(init):
        if isinstance(n, ast.Assign) and len(n.targets) == 1 and isinstance(n.targets[0], ast.Attribute) and isinstance(n.targets[0].value, ast.Name) and n.targets[0].value.id == 'self':
            stores[n.targets[0].attr] = norm(n.value)
    c = p.get_class(BP)
    nz = Normalizer({}, steps_atom)
    for name in names:
        g = c.getters[name]
        want = nz.poly(ast.parse(f'self._{name}(self.steps) if callable(self._{name}) else self._{name}', mode='eval').body).canon()
        rets = [n for n in p.nodes(g) if isinstance(n, ast.Return)]
        got = None
        if len(rets) == 1 and rets[0].value is not None:
            got = nz.poly(rets[0].value).canon()
        elif len(rets) == 2:
            # if callable(x): return x(steps) \n return x
            parts = {}
            for r in rets:
                atoms = [a for gd in flow.guards(p, g, r) for a in conjuncts(gd.test, gd.polarity)]
                if len(atoms) == 1 and isinstance(atoms[0][0], ast.Call) and norm(atoms[0][0].func) == 'callable':
                    parts[atoms[0][1]] = (norm(atoms[0][0]), nz.poly(r.value).canon())
            if set(parts) == {True, False} and parts[True][0] == parts[False][0]:
                got = f'ite({parts[True][0]},{parts[True][1]},{parts[False][1]})'
        ctx.check(got == want, 'SIB-HP', g, f'{name}: {want}', name,
                  f'property {name} evaluates to {got}; specified: {want} (own field, evaluated at the current step count)', g.node)
        ctx.check(stores.get(f'_{name}') == name, 'SIB-HP', init, f'self._{name} = {name}', f'_{name}',
                  f'constructor stores {stores.get("_" + name)} into self._{name} instead of the parameter {name}', init.node)


def rule_own_steps(ctx: Ctx) -> None:
    p = ctx.prog
    ctx.rule('OWN-STEPS', 'the step counter is written only by __init__ (=0), load_state_dict (restore) and step (+1 exactly once on every normal path, after its last use)', floor=4)
    ctx.rule('OWN-MINI', 'the micro-step table is cleared at the end of every step', floor=1)
    writers = {}
    for f in p.functions():
        for n in p.nodes(f):
            tg = []
            if isinstance(n, ast.Assign):
                tg = n.targets
            elif isinstance(n, (ast.AugAssign, ast.AnnAssign)):
                tg = [n.target]
            for t in tg:
                if isinstance(t, ast.Attribute) and t.attr == '_steps':
                    writers.setdefault(f.short, []).append(n)
    allowed = {f'{BP}.__init__', f'{BP}.load_state_dict', f'{BP}.step'}
    for w, ns in writers.items():
        ctx.check(w in allowed, 'OWN-STEPS', p.funcs['kfac.' + w], f'{w} may write _steps', norm(ns[0]),
                  f'{w} writes the step counter ({norm(ns[0])}); only __init__, load_state_dict and step may', ns[0])
    ini = writers.get(f'{BP}.__init__', [])
    ctx.check(len(ini) == 1 and isinstance(ini[0], ast.Assign) and norm(ini[0].value) == '0', 'OWN-STEPS', p.get_func(f'{BP}.__init__'),
              '_steps initialised to 0', '_steps init', f'the step counter is not initialised to 0 exactly once in __init__: {[norm(x) for x in ini]}', ini[0] if ini else None)
    # step(): symbolic evaluation of the counter
    st = p.get_func(f'{BP}.step')

    def track(t: ast.AST) -> str | None:
        if isinstance(t, ast.Name):
            return t.id
        if isinstance(t, ast.Attribute) and isinstance(t.value, ast.Name) and t.value.id == 'self' and t.attr in ('_steps', '_mini_steps'):
            return 'self.' + t.attr
        return None
    cb = symexec.SymCB(lambda c: None, track)
    final, exits = symexec.run(st, cb, {'self._steps': Poly.atom('S')})
    for s, ret in exits:
        v = s.get('self._steps')
        ctx.check(v == Poly.atom('S') + Poly.const(1), 'OWN-STEPS', st, 'step(): counter = old + 1 at exit', f'exit {getattr(ret, "lineno", "end")}',
                  f'step() leaves the step counter at {v.canon() if v else "?"} on the path to exit line {getattr(ret, "lineno", "end")}; it must grow by exactly one per step', ret)
    # increment after last use: no call / hyper-parameter read after the increment in the top-level body
    names, _ = hp_names(ctx)
    idx = [i for i, s_ in enumerate(st.body) if any(n in writers.get(f'{BP}.step', []) for n in ast.walk(s_))]
    if idx:
        tail = st.body[max(idx) + 1:]
        bad = [norm(s_)[:60] for s_ in tail for n in ast.walk(s_)
               if (isinstance(n, ast.Attribute) and isinstance(n.value, ast.Name) and n.value.id == 'self' and n.attr in names + ['steps', '_steps'])
               or (isinstance(n, ast.Call) and isinstance(n.func, ast.Attribute) and n.func.attr in FACTOR_METHODS | INV_METHODS | GRAD_METHODS)]
        ctx.check(not bad, 'OWN-STEPS', st, 'increment follows the last use of the counter', 'increment position',
                  f'the step counter is incremented before later statements that still depend on it: {bad}', st.body[max(idx)])
    # mini steps cleared at every exit
    resets = [n for n in st.body if isinstance(n, ast.Assign) and any(isinstance(t, ast.Attribute) and t.attr == '_mini_steps' for t in n.targets)
              or (isinstance(n, ast.Expr) and isinstance(n.value, ast.Call) and norm(n.value.func) == 'self._mini_steps.clear')]
    has_ret = any(isinstance(n, ast.Return) for n in p.nodes(st))
    ctx.check(bool(resets) and not has_ret, 'OWN-MINI', st, 'self._mini_steps reset unconditionally at the end of step()', '_mini_steps reset',
              'step() does not unconditionally reset the micro-step table at its end: accumulation counts leak into the next step', st.node)


class HPRun:
    """Symbolic run of a BaseKFACPreconditioner method tracking the hyper-parameter backing fields and the
    step counter; hyper-parameter property reads evaluate to hp:<name>(<field value>, <steps value>)."""

    def __init__(self, ctx: Ctx, f: Func) -> None:
        self.ctx = ctx
        self.f = f
        names, _ = hp_names(ctx)
        self.names = names
        self.calls: list[tuple[ast.Call, str, dict[str, Poly], dict[str, Poly]]] = []
        self._seen: set = set()
        outer = self

        def track(t: ast.AST) -> str | None:
            if isinstance(t, ast.Name):
                return t.id
            if isinstance(t, ast.Attribute) and isinstance(t.value, ast.Name) and t.value.id == 'self' and (t.attr == '_steps' or t.attr[1:] in names and t.attr.startswith('_')):
                return 'self.' + t.attr
            return None

        class CB(symexec.SymCB):
            def norm(self, s):  # noqa: ANN001
                env = dict(s.env)

                def atom_of(n: ast.AST) -> str | None:
                    if id(n) in self._atoms:
                        return self._atoms[id(n)]
                    if isinstance(n, ast.Attribute) and isinstance(n.value, ast.Name) and n.value.id == 'self':
                        if n.attr in names:
                            return f'hp:{n.attr}({env["self._" + n.attr].canon()};{env["self._steps"].canon()})'
                        if n.attr == 'steps':
                            return None
                    return None
                nz = Normalizer(env, atom_of)
                return nz

            def value(self, s, e):  # noqa: ANN001
                # self.steps reads the tracked counter
                class R(ast.NodeTransformer):
                    def visit_Attribute(self, n):  # noqa: ANN001, N802
                        if isinstance(n.value, ast.Name) and n.value.id == 'self' and n.attr == 'steps':
                            return ast.copy_location(ast.Attribute(value=n.value, attr='_steps', ctx=ast.Load()), n)
                        return self.generic_visit(n)
                return self.norm(s).poly(e)

            def expr(self, s, e, st):  # noqa: ANN001
                s = super().expr(s, e, st)
                for c in flow.calls_in_order(e):
                    if isinstance(c.func, ast.Attribute) and c.func.attr in INV_METHODS | GRAD_METHODS:
                        args = {}
                        for i, a in enumerate(c.args):
                            args[f'#{i}'] = self.value(s, a)
                        for k in c.keywords:
                            if k.arg:
                                args[k.arg] = self.value(s, k.value)
                        cur = {n: Poly.atom(f'hp:{n}({dict(s.env)["self._" + n].canon()};{dict(s.env)["self._steps"].canon()})') for n in names}
                        key = (id(c), tuple(sorted((k, v.canon()) for k, v in args.items())), tuple(sorted((k, v.canon()) for k, v in cur.items())))
                        if key not in outer._seen:
                            outer._seen.add(key)
                            outer.calls.append((c, c.func.attr, args, cur))
                return s
        init = {f'self._{n}': Poly.atom(f'F_{n}') for n in names}
        init['self._steps'] = Poly.atom('S')
        self.cb = CB(lambda c: None, track)
        self.final, self.exits = symexec.run(f, self.cb, init)


def rule_damparg(ctx: Ctx, funcs: list[str]) -> None:
    """DOM-DAMPARG / DOM-RESTORE: second-order computations receive the damping property as evaluated in the
    state (step counter, backing field) current at the call."""
    p = ctx.prog
    ctx.rule('DOM-DAMPARG', 'compute_*_inv / preconditioned_grad receive damping = the damping property evaluated in the state current at the call '
                            '(after any restore of the counter and of the backing field)', floor=2 * len(funcs))
    for fn in funcs:
        f = p.get_func(fn)
        r = HPRun(ctx, f)
        for c, m, args, cur in r.calls:
            if m not in ('compute_a_inv', 'compute_g_inv', 'preconditioned_grad'):
                continue
            got = args.get('damping', args.get('#0'))
            want = cur['damping']
            if got is None:
                ctx.violate('DOM-DAMPARG', f, norm(c)[:120], f'{norm(c.func)} is called without the damping argument: the layer default (0.001) would be used instead of the preconditioner\'s damping', c)
            else:
                fin = r.final
                if fin is not None and 'load' in fn.split('.')[-1]:
                    fenv = dict(fin.env)
                    end = Poly.atom(f'hp:damping({fenv["self._damping"].canon()};{fenv["self._steps"].canon()})')
                    ctx.check(end == want, 'DOM-DAMPARG', f, f'{fn.split(".")[-1]}: no restore of counter/damping after {m}', norm(c)[:120] + ' [late restore]',
                              f'{norm(c.func)} runs while the damping state is {want.canon()}, but {fn.split(".")[-1]}() leaves it as {end.canon()}: '
                              'the step counter or the damping is restored only after the second-order data was recomputed', c)
                ctx.check(got == want, 'DOM-DAMPARG', f, f'{fn.split(".")[-1]}: {m}(damping = current damping property)', norm(c)[:120],
                          f'{norm(c.func)} receives damping = {got.canon()} but the damping property in the state current at the call is {want.canon()} '
                          '(stale value, e.g. read before the step counter / damping were restored, or another quantity)', c)


def rule_own_so(ctx: Ctx) -> None:
    """OWN-SO: second-order slots are written only by compute_*_inv / broadcast_*_inv (and __init__ = None)."""
    p = ctx.prog
    p.family = None
    ctx.rule('OWN-SO', 'second-order data (qa, qg, da, dg, dgda, a_inv, g_inv) is written only by compute_*_inv / broadcast_*_inv of the layer classes', floor=7)
    slots = set()
    for c in p.subclasses(LAYER):
        for n in c.getters:
            if n not in ('a_factor', 'g_factor', 'grad'):
                slots.add(n)
    priv = {'_' + s for s in slots}
    for f in p.functions():
        for n in p.nodes(f):
            tg = []
            if isinstance(n, ast.Assign):
                tg = n.targets
            elif isinstance(n, (ast.AugAssign, ast.AnnAssign)):
                tg = [n.target]
            for t0 in tg:
                for t in (t0.elts if isinstance(t0, (ast.Tuple, ast.List)) else [t0]):
                    if isinstance(t, ast.Attribute) and (t.attr in slots or t.attr in priv):
                        recv = p.receiver_classes(f, t.value)
                        if not any(rc in p.classes and p.is_subclass(rc, LAYER) for rc in recv):
                            continue
                        ok = (f.name in INV_METHODS and f.cls and p.is_subclass(f.cls, LAYER)) \
                            or (f.kind in ('setter', 'getter') and f.name == t.attr.lstrip('_')) \
                            or (f.name == '__init__' and isinstance(n, (ast.Assign, ast.AnnAssign)) and norm(n.value) == 'None')
                        ctx.check(ok, 'OWN-SO', f, f'{f.short} writes {t.attr}', norm(n)[:100],
                                  f'{f.short} writes second-order slot {t.attr} ({norm(n)[:80]}); only compute_*_inv / broadcast_*_inv may refresh second-order data', n)


# --------------------------------------------------------------------------- C07: KL clipping

def rule_aff_clip(ctx: Ctx) -> None:
    import ast as _ast
    p = ctx.prog
    ctx.rule('AFF-CLIP', '_compute_grad_scale returns min(1, sqrt(kl_clip / |S|)), S = sum over layers of <V, D> * lr^2 (weight and bias parts), S == 0 -> 1', floor=5)
    f = p.get_func(f'{BP}._compute_grad_scale')
    nz0 = Normalizer({})
    loops = [n for n in f.body if isinstance(n, _ast.For)]
    if len(loops) != 1:
        raise AnalysisIncomplete('_compute_grad_scale: expected one loop over the layers')
    lp = loops[0]
    okl = '_layers.values()' in norm(lp.iter) and isinstance(lp.target, _ast.Tuple)
    ctx.check(okl, 'AFF-CLIP', f, 'sums over every registered layer', 'layer loop', f'_compute_grad_scale iterates {norm(lp.iter)}; every registered layer must contribute', lp)
    lv = norm(lp.target.elts[1]) if okl else 'layer'
    # accumulator
    accs = [n for n in _ast.walk(lp) if isinstance(n, _ast.AugAssign) and isinstance(n.op, _ast.Add) and isinstance(n.target, _ast.Name)]
    acc = accs[0].target.id if accs else None
    init = [n for n in f.body if isinstance(n, _ast.Assign) and norm(n.targets[0]) == acc]
    ctx.check(bool(acc) and len(init) == 1 and norm(init[0].value) in ('0.0', '0') and init[0].lineno < lp.lineno, 'AFF-CLIP', f, f'accumulator {acc} starts at 0 outside the loop', 'accumulator',
              f'the clip sum accumulator is initialised as {[norm(i) for i in init]}; it must start at 0 once, before the layer loop', init[0] if init else f.node)
    env = {}
    for n in _ast.walk(lp):
        if isinstance(n, _ast.Assign) and len(n.targets) == 1 and isinstance(n.targets[0], _ast.Name):
            env.setdefault(n.targets[0].id, []).append(n)
    rebinds = [n for n in _ast.walk(lp) if isinstance(n, _ast.Assign) and any(isinstance(t, _ast.Name) and t.id == acc for t in n.targets)]
    ctx.check(not rebinds, 'AFF-CLIP', f, 'the accumulator is only incremented inside the loop', 'accumulator rebind',
              f'the clip sum is re-assigned inside the layer loop ({[norm(r) for r in rebinds]}): earlier layers are dropped from the sum', rebinds[0] if rebinds else lp)
    # terms, by bias valuation
    def term_forms(bias: bool) -> list[str]:
        """The increments of the accumulator in one iteration for a layer with / without bias: a walk of the loop body
        in statement order (locals are substituted with the value they hold *at that point*)."""
        import copy as _copy
        forms: list[str] = []
        env1: dict[str, _ast.expr] = {}
        hb_text = f'{lv}.module.has_bias()'

        def subst(e: _ast.expr) -> _ast.expr:
            class S(_ast.NodeTransformer):
                def visit_Name(self, n: _ast.Name) -> _ast.AST:  # noqa: N802
                    if isinstance(n.ctx, _ast.Load) and n.id in env1:
                        return _copy.deepcopy(env1[n.id])
                    return n
            return S().visit(_copy.deepcopy(e))

        def run(sts: list, other: list[str]) -> bool:
            for st in sts:
                if isinstance(st, _ast.Assign) and len(st.targets) == 1 and isinstance(st.targets[0], _ast.Name):
                    env1[st.targets[0].id] = subst(st.value)
                elif isinstance(st, _ast.AugAssign) and isinstance(st.target, _ast.Name) and st.target.id == acc and isinstance(st.op, _ast.Add):
                    forms.append(f'GUARDED({other})' if other else Normalizer({}).poly(subst(st.value)).canon())
                elif isinstance(st, _ast.If):
                    atoms = [(norm(subst(x)) if isinstance(x, _ast.expr) else norm(x), pol) for x, pol in conjuncts(st.test, True)]
                    if atoms and all(x == hb_text for x, _pol in atoms):
                        truth = all(pol == bias for _x, pol in atoms)
                        if run(st.body if truth else st.orelse, other):
                            return True
                    elif all(isinstance(x, (_ast.Raise,)) for x in st.body) and not st.orelse:
                        continue      # validation
                    else:
                        saved = dict(env1)
                        run(st.body, other + [norm(st.test)])
                        env1.clear()
                        env1.update(saved)
                        run(st.orelse, other + [f'not ({norm(st.test)})'])
                        env1.clear()
                        env1.update(saved)
                elif isinstance(st, (_ast.Raise, _ast.Return, _ast.Continue, _ast.Break)):
                    return True
            return False
        run(lp.body, [])
        return sorted(forms)

    def want_forms(bias: bool) -> list[str]:
        nzw = Normalizer({})
        w = f'{lv}.module.get_weight_grad()'
        b = f'{lv}.module.get_bias_grad()'
        if bias:
            t1 = f'({lv}.grad[:, :-1].view({w}.size()) * {w} * self.lr ** 2).sum().item()'
            t2 = f'({lv}.grad[:, -1:].view({b}.size()) * {b} * self.lr ** 2).sum().item()'
            return sorted([nzw.poly(_ast.parse(t1, mode='eval').body).canon(), nzw.poly(_ast.parse(t2, mode='eval').body).canon()])
        t1 = f'({lv}.grad.view({w}.size()) * {w} * self.lr ** 2).sum().item()'
        return [nzw.poly(_ast.parse(t1, mode='eval').body).canon()]
    for bias in (True, False):
        got, want = term_forms(bias), want_forms(bias)
        ctx.check(got == want, 'AFF-CLIP', f, f'per-layer terms ({"bias" if bias else "no bias"}): {len(got)} inner product(s) * lr^2', f'terms bias={bias}',
                  f'_compute_grad_scale adds, for a layer {"with" if bias else "without"} bias, the terms {got}; specified {want} (<preconditioned, original> * lr^2 for the weight'
                  + (' and the bias, split off as the last column)' if bias else ')'), lp)
    # result
    rets = [n for n in p.nodes(f) if isinstance(n, _ast.Return) and n.value is not None]
    zero = [r for r in rets if any((norm(a).replace(' ', ''), pol) in ((f'{acc}==0.0', True), (f'{acc}==0', True)) for g in flow.enclosing_guards(p, f, r) for a, pol in conjuncts(g.test, g.polarity))]
    ctx.check(len(zero) == 1 and norm(zero[0].value) in ('1.0', '1'), 'AFF-CLIP', f, 'zero inner product -> 1.0', 'zero case',
              f'_compute_grad_scale returns {[norm(r.value) for r in zero]} for a zero inner product; specified 1.0', zero[0] if zero else f.node)
    main = [r for r in rets if r not in zero]
    want = nz0.poly(_ast.parse(f'min(1.0, math.sqrt(self.kl_clip / abs({acc})))', mode='eval').body).canon()
    got = nz0.poly(main[-1].value).canon() if main else None
    ctx.check(got == want and len(main) == 1, 'AFF-CLIP', f, 'returns min(1, sqrt(kl_clip / |S|))', 'scale formula',
              f'_compute_grad_scale returns {got}; specified {want}', main[-1] if main else f.node)


def rule_null_kl(ctx: Ctx) -> None:
    import ast as _ast
    p = ctx.prog
    ctx.rule('NULL-KL', 'kl_clip=None (documented: no clipping) is accepted by the constructor and leads to scale None, i.e. no scaling (OWN-WRITEBACK: update_grad scales exactly when a scale is given)', floor=2)
    init = p.get_func(f'{BP}.__init__')
    cmps = [n for n in p.nodes(init) if isinstance(n, _ast.Compare) and any(isinstance(x, _ast.Name) and x.id == 'kl_clip' for x in _ast.walk(n))
            and any(isinstance(o, (_ast.Lt, _ast.LtE, _ast.Gt, _ast.GtE)) for o in n.ops)]
    for c in cmps:
        atoms = [(norm(a), pol) for g in flow.guards(p, init, c) for a, pol in conjuncts(g.test, g.polarity)]
        ok = ('kl_clip is None', False) in atoms or ('kl_clip is not None', True) in atoms
        ctx.check(ok, 'NULL-KL', init, f'ordering test {norm(c)} is guarded by kl_clip is not None', norm(c),
                  f'the constructor evaluates {norm(c)} although kl_clip may be None (documented as "no clipping"): TypeError for kl_clip=None', c)
    st = p.get_func(f'{BP}.step')
    sc = [n for n in p.nodes(st) if isinstance(n, _ast.Assign) and norm(n.targets[0]) == 'scale']
    ok = len(sc) == 1 and norm(sc[0].value).replace(' ', '') in ('Noneifself.kl_clipisNoneelseself._compute_grad_scale()', 'self._compute_grad_scale()ifself.kl_clipisnotNoneelseNone')
    ctx.check(ok, 'NULL-KL', st, 'scale = None if kl_clip is None else _compute_grad_scale()', 'scale',
              f'step() computes the scale as {[norm(x.value) for x in sc]}; specified: None (no scaling) exactly when kl_clip is None', sc[0] if sc else st.node)
