"""SPMD rules S1–S8 + inventory (engine E2), shared by C03, C06, C12, C13, C18."""
from __future__ import annotations

import ast
import re

from kfv import flow
from kfv.core import AnalysisError
from kfv.core import Ctx
from kfv.model import Func
from kfv.model import derive_family
from kfv.model import dotted
from kfv.model import norm
from kfv.model import walk_no_nested
from kfv.spmd import COLLECTIVES
from kfv.spmd import SPMD
from kfv.spmd import WORLD
from kfv.spmd import call_arg
from kfv.spmd import prim_of

FAMILIES = (('KAISA', 'preconditioner.KFACPreconditioner'),
            ('GPT', 'gpt_neox.preconditioner.GPTNeoXKFACPreconditioner'))
STAGE_FIELDS = {
    'KFACBaseLayer.model_parallel_group', 'KFACBaseLayer.data_parallel_group',
    'KFACBaseLayer.pipe_parallel_peer_group', 'WorkAssignment.data_parallel_group',
    'WorkAssignment.model_parallel_group', 'WorkAssignment.pipe_parallel_peer_group',
    'BaseKFACPreconditioner.data_parallel_group', 'BaseKFACPreconditioner.model_parallel_group',
    'ModuleHelper.model_parallel_group',
}
BUCKET_FIELD = 'AllreduceTensorBucket._group'

_spmd_cache: dict[tuple[int, str], SPMD] = {}


def get_spmd(ctx: Ctx, fam: str) -> SPMD:
    key = (id(ctx.prog), fam)
    if key not in _spmd_cache:
        root = dict(FAMILIES)[fam]
        _spmd_cache[key] = SPMD(ctx.prog, derive_family(ctx.prog, fam, root))
    s = _spmd_cache[key]
    ctx.prog.family = s.family
    return s


def const_call_value(S: SPMD, f: Func, e: ast.expr) -> object:
    """Constant-fold interface methods whose family implementations all `return <constant>`."""
    if not isinstance(e, ast.Call):
        return NotImplemented
    fs = [t.ref for t in S.prog.resolve_call(f, e) if t.kind == 'func']
    if not fs or len(fs) != len(S.prog.resolve_call(f, e)):
        return NotImplemented
    vals = set()
    for g in fs:
        rets = [n for st in g.body for n in walk_no_nested(st) if isinstance(n, ast.Return)]  # type: ignore[union-attr]
        stmts = [st for st in g.body if not (isinstance(st, ast.Expr) and isinstance(st.value, ast.Constant))]  # type: ignore[union-attr]
        if len(rets) != 1 or len(stmts) != 1 or not isinstance(rets[0].value, ast.Constant):
            return NotImplemented
        vals.add(rets[0].value.value)
    if len(vals) == 1:
        return vals.pop()
    return NotImplemented


def guard_infeasible(S: SPMD, f: Func, g: flow.Guard) -> bool:
    """True if the guard can never hold in this family (constant-folded interface flags)."""
    def ev(e: ast.expr) -> object:
        if isinstance(e, ast.Constant):
            return e.value
        if isinstance(e, ast.UnaryOp) and isinstance(e.op, ast.Not):
            v = ev(e.operand)
            return NotImplemented if v is NotImplemented else (not v)
        if isinstance(e, ast.BoolOp):
            vs = [ev(v) for v in e.values]
            if isinstance(e.op, ast.And):
                if any(v is not NotImplemented and not v for v in vs):
                    return False
                return NotImplemented if any(v is NotImplemented for v in vs) else True
            if any(v is not NotImplemented and v for v in vs):
                return True
            return NotImplemented if any(v is NotImplemented for v in vs) else False
        return const_call_value(S, f, e)
    v = ev(g.test)
    if v is NotImplemented:
        return False
    return bool(v) != g.polarity


def conjuncts(e: ast.expr, pol: bool = True) -> list[tuple[ast.expr, bool]]:
    """Atoms (expr, polarity) that must all hold for `e == pol` (only for and-chains / negated or-chains)."""
    if isinstance(e, ast.UnaryOp) and isinstance(e.op, ast.Not):
        return conjuncts(e.operand, not pol)
    if isinstance(e, ast.BoolOp):
        if (isinstance(e.op, ast.And) and pol) or (isinstance(e.op, ast.Or) and not pol):
            out = []
            for v in e.values:
                out += conjuncts(v, pol)
            return out
        return [(e, pol)]
    if isinstance(e, ast.Compare) and len(e.ops) == 1 and not pol:
        flip = {ast.Eq: ast.NotEq, ast.NotEq: ast.Eq, ast.Is: ast.IsNot, ast.IsNot: ast.Is, ast.Lt: ast.GtE,
                ast.GtE: ast.Lt, ast.Gt: ast.LtE, ast.LtE: ast.Gt, ast.In: ast.NotIn, ast.NotIn: ast.In}
        t = type(e.ops[0])
        if t in flip:
            return [(ast.Compare(left=e.left, ops=[flip[t]()], comparators=e.comparators), True)]
    return [(e, pol)]


def guard_atoms(S: SPMD, f: Func, node: ast.AST) -> list[tuple[ast.expr, bool, str]]:
    out = []
    for g in S.guards(f, node):
        for a, p in conjuncts(g.test, g.polarity):
            out.append((a, p, g.via))
    return out


def method_call(S: SPMD, f: Func, e: ast.expr, meth: str, iface: str = 'kfac.assignment.WorkAssignment') -> tuple[str, list[ast.expr]] | None:
    """If e is `<recv>.<meth>(args)` resolving to an implementation of iface.meth: (receiver text, args)."""
    if not (isinstance(e, ast.Call) and isinstance(e.func, ast.Attribute) and e.func.attr == meth):
        return None
    ts = S.prog.resolve_call(f, e)
    if not ts or not all(t.kind == 'func' and t.ref.cls and S.prog.is_subclass(t.ref.cls, iface) for t in ts):  # type: ignore[union-attr]
        return None
    return norm(e.func.value), list(e.args) + [k.value for k in e.keywords]


def site_mask(S: SPMD, f: Func, effs: set[tuple[str, str]]) -> tuple[set[str], set[tuple[str, str]]]:
    """J-GROUP: anything that is a pure function of the group communicated on is uniform among
    that group's members.  Returns (param names, field keys) to mask when labelling guards."""
    params = {r[1] for r in effs if r[0] == 'param'}
    fields = set()
    for r in effs:
        if r[0] == 'field':
            fields.add(r[1])
    if BUCKET_FIELD in fields and f.cls and f.cls.endswith('TorchDistributedCommunicator'):
        # the bucket is selected by the function's own group parameter (see KEY-INJ, C08)
        params |= S.group_params.get(f.qualname, set())
    return params, fields


def masked_label(S: SPMD, f: Func, e: ast.expr, params: set[str], fields: set[str]) -> set[str]:
    """Concrete label of e with the given group parameters / group fields treated as uniform."""
    labs = S.label(f, e)
    out = set()
    for lab in labs:
        if lab.startswith('P:'):
            _, gq, prm = lab.split(':', 2)
            if gq == f.qualname and prm in params:
                continue
        out.add(lab)
    res = S.conc(out)
    if res and fields:
        # re-evaluate with group fields masked
        saved = set(S.exempt_fields)
        try:
            for fld in fields:
                cname, attr = fld.split('.')
                for c in S.prog.classes.values():
                    if c.name == cname:
                        S.exempt_fields.add((c.fullname, attr))
            labs2 = S.label(f, e)
            out2 = set()
            for lab in labs2:
                if lab.startswith('P:'):
                    _, gq, prm = lab.split(':', 2)
                    if gq == f.qualname and prm in params:
                        continue
                out2.add(lab)
            res = S.conc(out2)
        finally:
            S.exempt_fields.clear()
            S.exempt_fields.update(saved)
    return res


def fields_read(f: Func) -> set[str]:
    return {n.attr for st in f.body for n in walk_no_nested(st)
            if isinstance(n, ast.Attribute) and isinstance(n.value, ast.Name) and n.value.id == 'self'}


# --------------------------------------------------------------------------- justifications

def justify(S: SPMD, f: Func, site: ast.Call, atom: ast.expr, pol: bool, via: str, effs: set[tuple[str, str]]) -> str | None:
    """Return the id of the justification-table entry that covers this rank-labelled guard, else None."""
    p = S.prog
    mc = method_call(S, f, atom, 'is_grad_worker')
    if mc and pol:
        recv, args = mc
        # J1: is_grad_worker(L) is the membership predicate of grad_worker_group(L)
        if effs == {('call', 'grad_worker_group')}:
            garg = None
            for k in site.keywords:
                g2 = method_call(S, f, k.value, 'grad_worker_group')
                if g2:
                    garg = g2
            for a in site.args:
                g2 = method_call(S, f, a, 'grad_worker_group')
                if g2:
                    garg = g2
            if garg and garg[0] == recv and [norm(x) for x in garg[1]] == [norm(x) for x in args]:
                if _anchor_same_record(S, 'is_grad_worker', 'grad_worker_group', '_grad_worker_groups'):
                    return 'J1'
        # J2 (GPT): is_grad_worker == "inverse worker in my model-parallel peers", equal for all MP peers
        if effs and effs <= {('field', 'KFACBaseLayer.model_parallel_group')}:
            impls = [t.ref for t in p.resolve_call(f, atom) if t.kind == 'func']
            ok = bool(impls)
            for g in impls:
                fr = fields_read(g)  # type: ignore[arg-type]
                if not fr <= {'_inv_assignments', 'model_parallel_peers'}:
                    ok = False
            if ok:
                return 'J2'
    # J3 (GPT): `if get_rank() != self.primary_rank: return` before / `if get_rank() == self.primary_rank:` around a reduction on the DP group
    if via in ('return', 'if') and isinstance(atom, ast.Compare) and len(atom.ops) == 1 and isinstance(atom.ops[0], ast.Eq) and pol:
        sides = [atom.left, atom.comparators[0]]
        texts = {norm(s) for s in sides}
        is_rank = any(isinstance(s, ast.Call) and any(t.kind == 'func' and t.ref.qualname == 'kfac.distributed.get_rank' for t in p.resolve_call(f, s)) and not s.args for s in sides)
        if is_rank and 'self.primary_rank' in texts and effs and effs <= {('field', 'KFACBaseLayer.data_parallel_group'), ('field', BUCKET_FIELD)}:
            if _anchor_primary(S):
                return 'J3'
    return None


def _anchor_same_record(S: SPMD, m1: str, m2: str, field: str) -> bool:
    """Both family implementations index the same per-layer record table with their layer parameter."""
    p = S.prog
    for cname in S.family.concrete:
        if not p.is_subclass(cname, 'kfac.assignment.WorkAssignment'):
            continue
        for m in (m1, m2):
            g = p.lookup_method(cname, m)
            if g is None:
                return False
            subs = [n for st in g.body for n in walk_no_nested(st)
                    if isinstance(n, ast.Subscript) and isinstance(n.value, ast.Attribute) and n.value.attr == field
                    and isinstance(n.slice, ast.Name) and n.slice.id in g.params]
            others = [n for st in g.body for n in walk_no_nested(st)
                      if isinstance(n, ast.Attribute) and isinstance(n.value, ast.Name) and n.value.id == 'self' and n.attr not in (field, 'local_rank')]
            if not subs or others:
                return False
    return True


def _anchor_primary(S: SPMD) -> bool:
    """primary_rank <- assignment.factor_worker(...), data_parallel_group <- assignment.data_parallel_group."""
    p = S.prog
    init = p.lookup_method(S.family.root, '__init__')
    if init is None:
        return False
    got = {'primary_rank': False, 'data_parallel_group': False}
    for st in init.body:
        for n in walk_no_nested(st):
            if isinstance(n, ast.Assign) and len(n.targets) == 1 and isinstance(n.targets[0], ast.Attribute):
                t = n.targets[0]
                if t.attr == 'primary_rank' and method_call(S, init, n.value, 'factor_worker'):
                    got['primary_rank'] = True
                if t.attr == 'data_parallel_group' and isinstance(n.value, ast.Attribute) and n.value.attr == 'data_parallel_group' \
                        and any(p.is_subclass(rc, 'kfac.assignment.WorkAssignment') for rc in p.receiver_classes(init, n.value.value) if rc in p.classes):
                    got['data_parallel_group'] = True
    return all(got.values())


# --------------------------------------------------------------------------- rules

def collective_sites(S: SPMD) -> list[tuple[Func, ast.Call, set[str]]]:
    out = []
    for f in S.reach:
        for c in S.prog.calls_in(f):
            pr = S.site_prims(f, c)
            if pr:
                out.append((f, c, pr))
    return out


def rule_inventory(ctx: Ctx) -> None:
    S = get_spmd(ctx, 'KAISA')
    ctx.rule('INV', 'inventory of torch.distributed primitives (direct call sites, indirect calls through a callable '
                    'field, primitives passed as function values); floor 16+1+1 confirmed by hand', floor=18)
    for q, sites in sorted(S.prim_sites.items()):
        f = ctx.prog.funcs[q]
        for c, prim in sites:
            if prim not in COLLECTIVES:
                ctx.violate('INV', f, norm(c), f'call to torch.distributed.{prim}, which is not in the modelled primitive table', c)
            else:
                ctx.ok('INV', f, f'{prim}: {norm(c)[:70]}', c)
    for f, c, vals in S.indirect_sites:
        ctx.ok('INV', f, f'indirect {norm(c)} -> {[repr(v) for v in vals]}', c)
    for f, n, prim in S.func_value_prims:
        ctx.ok('INV', f, f'function value torch.distributed.{prim}', n)
    ctx.extra['inventory'] = S.inventory_count()


def rule_S1_S6(ctx: Ctx, fam: str, only: set[str] | None = None, s4_only: bool = False) -> None:
    """S1 guard soundness, S4 group creation, S6 stage confinement over every collective call site
    reachable in the family.  `only`: restrict to functions whose short name is in the set."""
    S = get_spmd(ctx, fam)
    p = ctx.prog
    ctx.rule('S1', 'a collective effect reached under a rank-labelled guard needs an entry of the justification table '
                   '(J1 membership guard, J2 MP-uniform grad-worker predicate, J3 primary-rank early return, '
                   'J-GROUP functions of the communicated group)')
    ctx.rule('S4', 'process-group creation is unconditional w.r.t. rank: arguments and guards of new_group / group_func are world-uniform')
    ctx.rule('S6', 'GPT family: collectives under per-stage ({pipe}) control use stage-confined groups')
    for f, c, prims in collective_sites(S):
        if only is not None and f.short not in only:
            continue
        gs = S.guards(f, c)
        if any(guard_infeasible(S, f, g) for g in gs):
            ctx.ok('S1', f, f'dead in family {fam}: {norm(c.func)} (interface flag folds to constant)', c)
            continue
        effs = S.group_effects(f, c)
        creates = bool(prims & {'new_group', 'new_subgroups', 'new_subgroups_by_enumeration', 'init_process_group'})
        mparams, mfields = site_mask(S, f, effs)
        bad: list[str] = []
        just: list[str] = []
        pipe_ctl = False
        for a, pol, via in guard_atoms(S, f, c):
            lab = masked_label(S, f, a, mparams, mfields)
            if not lab:
                continue
            if lab == {'pipe'} and not creates:
                pipe_ctl = True
                continue
            # group creation is a collective of the whole world: per-stage control is rank-dependent control there
            j = S.grid_size_test(f, a) if creates else justify(S, f, c, a, pol, via, effs)
            if j:
                just.append(f'{j}:{norm(a)}')
            else:
                bad.append(f'{"" if pol else "not "}({norm(a)}) [{via}] label={sorted(lab)}')
        # per-layer loops in the GPT family are per-stage control
        for lp in flow.enclosing_loops(p, f, c):
            it = lp.iter if isinstance(lp, (ast.For, ast.AsyncFor)) else None
            if it is not None and 'pipe' in S.clabel(f, it):
                pipe_ctl = True
        rid = 'S4' if creates else 'S1'
        if s4_only and not creates:
            continue
        what = f'[{fam}] {norm(c.func)} -> {sorted(prims)} on {sorted(effs)}' + (f' justified {just}' if just else '')
        if bad:
            ctx.violate(rid, f, norm(c)[:160],
                        f'[{fam}] collective {sorted(prims)} on {sorted(effs)} is control-dependent on rank-dependent condition(s) '
                        f'{bad} with no justification: ranks of the group may disagree on issuing it', c)
        else:
            ctx.ok(rid, f, what, c)
            ctx.sample({'rule': rid, 'family': fam, 'site': f'{p.loc(f, c)} {norm(c.func)}', 'prims': sorted(prims),
                        'groups': sorted(map(str, effs)), 'guards': [g.text() for g in gs], 'justified': just})
        direct = any(prim_of(t) for t in p.resolve_call(f, c)) or any(c is c2 for _f, c2, _v in S.indirect_sites)
        if creates and direct:
            # arguments of group creation must be world-uniform
            for a in list(c.args) + [k.value for k in c.keywords]:
                lab = S.clabel(f, a)
                if lab:
                    ctx.violate('S4', f, norm(c)[:160], f'[{fam}] group creation with rank-dependent argument {norm(a)} (label {sorted(lab)}): '
                                'ranks would create different groups in the same creation slot', c)
        if fam == 'GPT' and pipe_ctl and not s4_only:
            resolved = set()
            for r in effs:
                if r == ('field', BUCKET_FIELD):
                    resolved |= S.field_group_values(BUCKET_FIELD)
                else:
                    resolved.add(r)
            loose = [r for r in resolved if not (r[0] == 'param' or (r[0] == 'field' and r[1] in STAGE_FIELDS))]
            if loose:
                ctx.violate('S6', f, norm(c)[:160], f'collective {sorted(prims)} under per-stage control uses non-stage-confined group(s) {sorted(map(str, loose))}', c)
            else:
                ctx.ok('S6', f, f'{norm(c.func)} stage-confined groups {sorted(map(str, resolved))}', c)


def rule_S2(ctx: Ctx, fam: str) -> None:
    """Membership: communicating on grad_worker_group(L) requires is_grad_worker(L)."""
    S = get_spmd(ctx, fam)
    ctx.rule('S2', 'a collective on A.grad_worker_group(L) is guarded by A.is_grad_worker(L) (same assignment object, same layer)')
    for f in S.reach:
        for c in ctx.prog.calls_in(f):
            gargs = []
            for a in list(c.args) + [k.value for k in c.keywords]:
                g = method_call(S, f, a, 'grad_worker_group')
                if g:
                    gargs.append(g)
            if not gargs or not S.site_prims(f, c):
                continue
            if any(guard_infeasible(S, f, g) for g in S.guards(f, c)):
                continue
            for recv, args in gargs:
                ok = False
                for a, pol, via in guard_atoms(S, f, c):
                    m = method_call(S, f, a, 'is_grad_worker')
                    if m and pol and via in ('if', 'ifexp', 'boolop', 'while') and m[0] == recv and [norm(x) for x in m[1]] == [norm(x) for x in args]:
                        ok = True
                ctx.check(ok, 'S2', f, f'[{fam}] {norm(c.func)} on grad_worker_group({", ".join(map(norm, args))}) guarded by is_grad_worker',
                          norm(c)[:160], f'[{fam}] {norm(c.func)}(...) communicates on {recv}.grad_worker_group({", ".join(map(norm, args))}) '
                          f'without the membership guard {recv}.is_grad_worker(...): ranks outside the group would call into it', c)


def root_params(S: SPMD) -> dict[str, set[str]]:
    p = S.prog
    rp: dict[str, set[str]] = {f.qualname: set() for f in p.functions()}
    changed = True
    while changed:
        changed = False
        for f in p.functions():
            for c in p.calls_in(f):
                sinks = []
                for t in p.resolve_call(f, c):
                    pr = prim_of(t)
                    if pr and pr in COLLECTIVES and COLLECTIVES[pr][1]:
                        a = call_arg(c, *COLLECTIVES[pr][1])  # type: ignore[misc]
                        if a is not None:
                            sinks.append(a)
                    elif t.kind == 'func':
                        b = p.bind_args(c, t.ref)  # type: ignore[arg-type]
                        for prm in rp[t.ref.qualname]:  # type: ignore[union-attr]
                            if prm in b:
                                sinks.append(b[prm])
                for a in sinks:
                    if isinstance(a, ast.Name) and a.id in f.params and a.id not in rp[f.qualname]:
                        rp[f.qualname].add(a.id)
                        changed = True
    return rp


def rule_S3(ctx: Ctx, fam: str) -> None:
    """Root-argument uniformity."""
    S = get_spmd(ctx, fam)
    p = ctx.prog
    ctx.rule('S3', 'the root (src/dst) of a rooted collective is uniform inside the group: label-free / per-stage, or '
                   'src_grad_worker(L) on grad_receiver_group(L), or the layer primary rank on its model-parallel group')
    rp = root_params(S)
    for f in S.reach:
        for c in p.calls_in(f):
            if not S.site_prims(f, c):
                continue
            if any(guard_infeasible(S, f, g) for g in S.guards(f, c)):
                continue
            roots: list[ast.expr] = []
            for t in p.resolve_call(f, c):
                pr = prim_of(t)
                if pr and pr in COLLECTIVES and COLLECTIVES[pr][1]:
                    a = call_arg(c, *COLLECTIVES[pr][1])  # type: ignore[misc]
                    if a is not None:
                        roots.append(a)
                elif t.kind == 'func':
                    b = p.bind_args(c, t.ref)  # type: ignore[arg-type]
                    roots += [b[x] for x in rp[t.ref.qualname] if x in b]  # type: ignore[union-attr]
            effs = S.group_effects(f, c)
            # arguments that change the message layout must be uniform too
            for k in c.keywords:
                if k.arg in ('symmetric', 'average', 'async_op', 'op'):
                    lab = S.clabel(f, k.value)
                    if isinstance(k.value, ast.Name) and k.value.id in f.params:
                        continue
                    ctx.check(lab <= {'pipe'}, 'S3', f, f'[{fam}] {k.arg}={norm(k.value)[:40]} is rank-uniform', norm(c)[:150] + f' [{k.arg}]',
                              f'[{fam}] {norm(c.func)}: argument {k.arg}={norm(k.value)} is rank-dependent (label {sorted(lab)}): members of the group would pack / reduce the message differently', c)
            for a in roots:
                if isinstance(a, ast.Name) and a.id in f.params and a.id in rp[f.qualname]:
                    continue  # checked at the callers
                lab = S.clabel(f, a)
                if lab <= {'pipe'}:
                    ctx.ok('S3', f, f'[{fam}] root {norm(a)} label {sorted(lab)}', c)
                    continue
                m = method_call(S, f, a, 'src_grad_worker')
                if m and effs in ({('call', 'grad_receiver_group')}, {('field', 'WorkAssignment.data_parallel_group')}):
                    garg = [method_call(S, f, k.value, 'grad_receiver_group') for k in c.keywords] + [method_call(S, f, x, 'grad_receiver_group') for x in c.args]
                    garg = [g for g in garg if g]
                    if garg and garg[0][0] == m[0] and [norm(x) for x in garg[0][1]] == [norm(x) for x in m[1]]:
                        ctx.ok('S3', f, f'[{fam}] root src_grad_worker(L) on grad_receiver_group(L) (J-SRC1)', c)
                        continue
                if norm(a) == 'self.primary_rank' and effs <= {('field', 'KFACBaseLayer.model_parallel_group')} and _anchor_primary(S):
                    ctx.ok('S3', f, f'[{fam}] root self.primary_rank on the layer model-parallel group (J-SRC2)', c)
                    continue
                ctx.violate('S3', f, norm(c)[:160], f'[{fam}] root argument {norm(a)} of {norm(c.func)} is rank-dependent (label {sorted(lab)}) and matches no '
                            'uniform-root pattern: members of the group would name different roots', c)


SET_RE = re.compile(r'^(?:builtins\.|typing\.)?(?:set|frozenset|AbstractSet|Set|FrozenSet)\[(.*)\]$')
_INT = r'(?:builtins\.)?(?:int|bool)'
DET_ELEM = re.compile(rf'^(?:{_INT}|(?:builtins\.)?frozenset\[{_INT}\]|(?:builtins\.)?tuple\[(?:{_INT}(?:, )?)+(?:\.\.\.)?\]|Tuple\[(?:{_INT}(?:, )?)+\])$')


def set_order_problem(ctx: Ctx, mod: str, it: ast.expr) -> str | None:
    """None if iterating `it` has a process-independent order (A5), else a description."""
    t = ctx.prog.type_str(mod, it)
    if t is None:
        return None
    t = t.rstrip('?')
    m = SET_RE.match(t)
    if not m:
        return None
    if DET_ELEM.match(m.group(1).strip()):
        return None
    return f'{norm(it)} has type {t}: iteration order depends on the per-process hash seed'


def rule_S5(ctx: Ctx, fam: str) -> None:
    S = get_spmd(ctx, fam)
    p = ctx.prog
    ctx.rule('S5', 'loops around collectives iterate rank-uniform iterables in a process-independent order')
    seen = set()
    for f, c, prims in collective_sites(S):
        if any(guard_infeasible(S, f, g) for g in S.guards(f, c)):
            continue
        for lp in flow.enclosing_loops(p, f, c):
            if id(lp) in seen:
                continue
            seen.add(id(lp))
            its = [lp.iter] if isinstance(lp, (ast.For, ast.AsyncFor)) else ([g.iter for g in lp.generators] if hasattr(lp, 'generators') else [])
            for it in its:
                lab = S.clabel(f, it)
                effs = S.group_effects(f, c)
                if not lab <= {'pipe'}:
                    ctx.violate('S5', f, norm(it)[:160], f'[{fam}] loop over rank-dependent iterable {norm(it)} (label {sorted(lab)}) encloses collective {norm(c.func)}', lp)
                    continue
                prob = None
                for sub in ast.walk(it):
                    if isinstance(sub, ast.expr):
                        # sorted(x) re-establishes a total order
                        prob = prob or set_order_problem(ctx, f.module, sub)
                if isinstance(it, ast.Call) and isinstance(it.func, ast.Name) and it.func.id == 'sorted' and not it.keywords:
                    prob = None
                if prob:
                    ctx.violate('S5', f, norm(it)[:160], f'[{fam}] loop enclosing collective {norm(c.func)}: {prob}', lp)
                else:
                    ctx.ok('S5', f, f'[{fam}] loop over {norm(it)[:60]} (type {p.type_str(f.module, it)}) around {norm(c.func)}', lp)


def rule_S8(ctx: Ctx) -> None:
    S = get_spmd(ctx, 'KAISA')
    ctx.rule('S8', 'BaseKFACPreconditioner.state_dict may be called on a subset of ranks: it has no collective effect', floor=1)
    f = ctx.prog.get_func('base_preconditioner.BaseKFACPreconditioner.state_dict')
    mc = S.may_coll[f.qualname]
    ctx.check(not mc, 'S8', f, 'MayCollective(state_dict) = {}', 'state_dict',
              f'BaseKFACPreconditioner.state_dict may issue collectives {sorted(mc)}; calling it on a subset of ranks would stall', f.node)


def enumerate_chains(ctx: Ctx, limit: int = 20000) -> dict:
    """Exhaustive enumeration (thorough tier) of acyclic call chains entry point -> ... -> torch.distributed primitive, per family."""
    out = {}
    for fam, _root in FAMILIES:
        S = get_spmd(ctx, fam)
        p = ctx.prog
        chains = 0
        samples = []
        longest = 0
        entry_count: dict[str, int] = {}

        def dfs(f: Func, path: list[str]) -> None:
            nonlocal chains, longest
            if chains >= limit:
                return
            sites = S.prim_sites.get(f.qualname, [])
            for c, prim in sites:
                chains += 1
                longest = max(longest, len(path))
                entry_count[path[0]] = entry_count.get(path[0], 0) + 1
                if len(samples) < 12:
                    samples.append(' -> '.join(path + [f'dist.{prim}@{p.loc(f, c)}']))
            for _site, g in S.callees(f):
                if g.short in path or not S.may_coll.get(g.qualname):
                    continue
                dfs(g, path + [g.short])
        for r in S.roots:
            if S.may_coll.get(r.qualname):
                dfs(r, [r.short])
        out[fam] = {'chains': chains, 'longest': longest, 'per_entry_point': entry_count, 'samples': samples, 'truncated': chains >= limit}
    return out
