"""C16 — exactly the eligible layers are registered, once each."""
from __future__ import annotations

import ast
import re

from kfv import flow
from kfv.core import AnalysisIncomplete
from kfv.core import Ctx
from kfv.model import Func
from kfv.model import norm
from kfv.rules.spmd_rules import conjuncts

TECHNIQUE = ('guard analysis of the registration statement (exactly the three eligibility conjuncts), structural normal forms of the '
             'helper predicates (leaf test, regex search, all-parameters-trainable, isinstance dispatch), sibling agreement of the '
             'GPT-NeoX variant, who-may-call of hook registration')
EXPLANATION = (
    'The statement that stores a (name, layer) pair is located in both register_modules functions and the set of conditions it '
    'is control-dependent on is compared with the specification: not any_match(name, patterns), not any_match(class name, '
    'patterns), requires_grad(module), and a supported type (helper is not None / class-name dispatch); nothing else.  The helper '
    'predicates are checked in normal form: leaves are modules with no children out of named_modules(); any_match compiles each '
    'pattern without flags and uses search(); requires_grad is all(...) over parameters(); dispatch is isinstance against the two '
    'type tuples with no other early exit; registration is keyed by the module object; hooks are registered only in '
    'BaseKFACPreconditioner.__init__, once each per registered module.  named_modules() semantics on shared instances are torch\'s.')

NOT_DECIDED = 'named_modules() semantics on shared instances (torch)'


def _ret_guards(p, f: Func, r: ast.AST) -> list[tuple[str, bool]]:  # noqa: ANN001
    return [(norm(a), pol) for g in flow.guards(p, f, r) for a, pol in conjuncts(g.test, g.polarity)]


def rule_helpers(ctx: Ctx) -> None:
    p = ctx.prog
    ctx.rule('REG-LEAF', 'candidates = (name, module) of named_modules() whose children() is empty', floor=1)
    ctx.rule('REG-PRED', 'any_match: re.compile(pattern) without flags, any(search(query))', floor=2)
    ctx.rule('REG-ALL', 'requires_grad: all parameters have requires_grad', floor=1)
    ctx.rule('REG-DISPATCH', 'get_module_helper: isinstance against LINEAR_TYPES / CONV2D_TYPES only, else None', floor=3)
    f = p.get_func('layers.register.get_flattened_modules')
    rets = [n for n in p.nodes(f) if isinstance(n, ast.Return) and n.value is not None]
    ok = False
    if len(rets) == 1 and isinstance(rets[0].value, ast.ListComp) and len(rets[0].value.generators) == 1:
        lc = rets[0].value
        g = lc.generators[0]
        root = [a for a in f.params][0]
        tgt = [norm(e) for e in g.target.elts] if isinstance(g.target, ast.Tuple) else []
        if len(tgt) == 2:
            nm, md = tgt
            tests = {re.sub(r'\s+', '', norm(t)) for t in g.ifs}
            leaf = {f'len(list({md}.children()))==0', f'notlist({md}.children())', f'len(list({md}.children()))<1', f'notany({md}.children())',
                    f'next({md}.children(),None)isNone'}
            ok = norm(g.iter) == f'{root}.named_modules()' and norm(lc.elt) == f'({nm}, {md})' and len(tests) == 1 and bool(tests & leaf)
    ctx.check(ok, 'REG-LEAF', f, 'leaves of named_modules()', 'get_flattened_modules',
              f'get_flattened_modules returns {norm(rets[0].value) if rets else None}; specified: the (name, module) pairs of root.named_modules() that have no children', f.node)
    # any_match
    f = p.get_func('layers.register.any_match')
    comp = [n for n in p.nodes(f) if isinstance(n, ast.Call) and norm(n.func) in ('re.compile', 're.search', 're.match', 're.fullmatch')]
    for c in comp:
        okc = norm(c.func) in ('re.compile', 're.search') and (len(c.args) == (1 if norm(c.func) == 're.compile' else 2)) and not c.keywords
        ctx.check(okc, 'REG-PRED', f, f'{norm(c)}', norm(c), f'any_match uses {norm(c)}: patterns must be compiled without flags and applied with search()', c)
    if not comp:
        ctx.violate('REG-PRED', f, 'any_match', 'any_match does not use re.compile / re.search', f.node)
    meths = [n.func.attr for n in p.nodes(f) if isinstance(n, ast.Call) and isinstance(n.func, ast.Attribute) and n.func.attr in ('search', 'match', 'fullmatch', 'findall')
             and norm(n.func.value) not in ('re',)]
    rets = [n for n in p.nodes(f) if isinstance(n, ast.Return) and n.value is not None]
    okm = (meths == ['search'] or (not meths and any(norm(c.func) == 're.search' for c in comp))) and len(rets) == 1 and norm(rets[0].value).startswith('any(') \
        and (f.params[0] in norm(rets[0].value))
    ctx.check(okm, 'REG-PRED', f, 'any(regex.search(query))', 'any_match return', f'any_match returns {norm(rets[0].value) if rets else None} using {meths}: specified any(regex.search(query) ...)', f.node)
    # patterns iterate the patterns parameter
    its = [norm(g.iter) for n in p.nodes(f) if isinstance(n, (ast.ListComp, ast.GeneratorExp)) for g in n.generators]
    ctx.check(f.params[1] in its, 'REG-PRED', f, 'every pattern is tried', 'patterns', f'any_match does not iterate all patterns ({its})', f.node)
    # requires_grad
    f = p.get_func('layers.register.requires_grad')
    rets = [n for n in p.nodes(f) if isinstance(n, ast.Return) and n.value is not None]
    md = f.params[0]
    t = re.sub(r'[\s\[\]]', '', norm(rets[0].value)) if len(rets) == 1 else ''
    m = re.fullmatch(rf'all\(\(?(\w+)\.requires_gradfor\1in{md}\.parameters\(\)\)?\)', t)
    ctx.check(bool(m), 'REG-ALL', f, 'all(p.requires_grad for p in module.parameters())', 'requires_grad',
              f'requires_grad returns {norm(rets[0].value) if rets else None}; specified: all parameters of the module require gradients', f.node)
    # dispatch
    f = p.get_func('layers.register.get_module_helper')
    mod = p.modules[f.module]
    consts = {}
    for st in mod.tree.body:
        if isinstance(st, (ast.Assign, ast.AnnAssign)):
            tg = st.targets[0] if isinstance(st, ast.Assign) else st.target
            if isinstance(tg, ast.Name) and st.value is not None:
                consts[tg.id] = norm(st.value)
    ctx.check(consts.get('LINEAR_TYPES') == '(torch.nn.Linear,)' and consts.get('CONV2D_TYPES') == '(torch.nn.Conv2d,)', 'REG-DISPATCH', f,
              'LINEAR_TYPES = (torch.nn.Linear,), CONV2D_TYPES = (torch.nn.Conv2d,)', 'type tuples',
              f'supported type tuples are LINEAR_TYPES={consts.get("LINEAR_TYPES")}, CONV2D_TYPES={consts.get("CONV2D_TYPES")}', f.node)
    want = {'LinearModuleHelper': 'LINEAR_TYPES', 'Conv2dModuleHelper': 'CONV2D_TYPES'}
    for r in [n for n in p.nodes(f) if isinstance(n, ast.Return)]:
        gs = _ret_guards(p, f, r)
        v = r.value
        cls = norm(v.func) if isinstance(v, ast.Call) else None
        if cls in want:
            pos = [a for a, pol in gs if pol]
            extra = [a for a, pol in gs if a not in (f'isinstance({md_}, {t_})' for md_ in [f.params[0]] for t_ in want.values())]
            ok = f'isinstance({f.params[0]}, {want[cls]})' in pos and not extra and norm(v.args[0]) == f.params[0]
            ctx.check(ok, 'REG-DISPATCH', f, f'{cls} iff isinstance(module, {want[cls]})', norm(r),
                      f'{norm(r)} is reached under {gs}; specified: exactly when isinstance(module, {want[cls]}) (subclasses included), with no other precondition', r)
        else:
            other = [(a, pol) for a, pol in gs if not a.startswith('isinstance(')]
            ctx.check(norm(v) == 'None' and not other, 'REG-DISPATCH', f, f'None only when no supported type matches', norm(r) + str(gs),
                      f'{norm(r)} is reached under {gs}: a module of a supported type (or a subclass) can be rejected', r)


def rule_register(ctx: Ctx, fname: str, gpt: bool) -> None:
    p = ctx.prog
    rid = 'SIB-REG' if gpt else 'REG-GUARD'
    ctx.rule(rid, ('GPT-NeoX ' if gpt else '') + 'register_modules stores a layer exactly under: name not skipped, class name not skipped, all parameters trainable, supported type', floor=1)
    ctx.rule('REG-UNIQ', 'registration is keyed by the module object and stores (qualified name, layer)', floor=1)
    f = p.get_func(fname)
    stores = [n for n in p.nodes(f) if isinstance(n, ast.Assign) and len(n.targets) == 1 and isinstance(n.targets[0], ast.Subscript)
              and isinstance(n.value, ast.Tuple) and len(n.value.elts) == 2]
    if len(stores) != 1:
        raise AnalysisIncomplete(f'{fname}: expected one statement storing (name, layer) into the registry, found {len(stores)}')
    st = stores[0]
    loops = [lp for lp in flow.enclosing_loops(p, f, st) if isinstance(lp, ast.For)]
    if len(loops) != 1 or not isinstance(loops[0].target, ast.Tuple):
        raise AnalysisIncomplete(f'{fname}: registration is not inside a single loop over (name, module) pairs')
    nm, md = [norm(e) for e in loops[0].target.elts]
    it = loops[0].iter
    src = norm(it)
    if isinstance(it, ast.Name):
        d = p.local_defs(f, it.id)
        src = norm(d[0]) if len(d) == 1 else src
    ctx.check(src == f'get_flattened_modules({f.params[0]})', rid, f, 'candidates = get_flattened_modules(model)', 'candidates',
              f'{fname} iterates {src}; specified: the leaves of the model (get_flattened_modules(model))', loops[0])
    ctx.check(norm(st.targets[0].slice) == md and norm(st.value.elts[0]) == nm, 'REG-UNIQ', f, f'registry[{md}] = ({nm}, layer)', norm(st),
              f'{norm(st)}: the registry must be keyed by the module object and record its qualified name', st)
    atoms = [(re.sub(r'\s+', ' ', norm(a)), pol, g.via) for g in flow.guards(p, f, st) for a, pol in conjuncts(g.test, g.polarity)]
    pats = f.params[2] if not gpt else 'skip_layers'
    cls_exprs = {f'{md}.__class__.__name__', f'type({md}).__name__'}
    need = {f'any_match({nm}, {pats})': False, 'CLASS': False, f'requires_grad({md})': True}
    seen = set()
    extra = []
    for a, pol, via in atoms:
        if a == f'any_match({nm}, {pats})' and not pol:
            seen.add('name')
        elif any(a == f'any_match({c}, {pats})' for c in cls_exprs) and not pol:
            seen.add('class')
        elif a == f'requires_grad({md})' and pol:
            seen.add('grad')
        elif not gpt and a in ('module_helper is None',) and not pol:
            seen.add('type')
        elif not gpt and a in ('module_helper is not None',) and pol:
            seen.add('type')
        elif gpt and re.fullmatch(r"module_name == '(ColumnParallelLinear|RowParallelLinear)'\.lower\(\)", a):
            seen.add('type')
        else:
            extra.append(('' if pol else 'not ') + a + f' [{via}]')
    missing = {'name', 'class', 'grad', 'type'} - seen
    ctx.check(not missing and not extra, rid, f, 'registered iff name and class name unskipped, trainable, supported', 'registration guards',
              f'{fname}: a layer is registered under conditions {[x for x in atoms]}; missing eligibility conjunct(s) {sorted(missing)}, unexpected {extra}. '
              'Specified: regex search of every skip pattern in the qualified name and in the class name, all parameters trainable, supported type', st)
    if not gpt:
        # helper comes from get_module_helper(module); layer built from that helper
        d = p.local_defs(f, 'module_helper')
        ctx.check(len(d) == 1 and norm(d[0]) == f'get_module_helper({md})', rid, f, 'type support decided by get_module_helper(module)', 'helper',
                  f'module_helper is {[norm(x) for x in d]}', st)
    else:
        d = p.local_defs(f, 'module_name')
        ctx.check(len(d) == 1 and norm(d[0]) == f'{md}.__class__.__name__.lower()', rid, f, 'dispatch on the lower-cased class name only', 'module_name',
                  f'module_name is {[norm(x) for x in d]}', st)
        # parallelism tag consistent between helper and layer and class
        def kind_of(node: ast.AST) -> str | None:
            gs = [(re.sub(r'\s+', ' ', norm(a)), pol) for g in flow.enclosing_guards(p, f, node) for a, pol in conjuncts(g.test, g.polarity)]
            return 'output' if ("module_name == 'ColumnParallelLinear'.lower()", True) in gs else ('input' if ("module_name == 'RowParallelLinear'.lower()", True) in gs else None)

        for c in [n for n in p.nodes(f) if isinstance(n, ast.Call) and norm(n.func) == 'GPTNeoXKFACEigenLayer']:
            par = {k.arg: k.value for k in c.keywords}
            hp = {}
            if c.args and isinstance(c.args[0], ast.Call):
                hp = {k.arg: k.value for k in c.args[0].keywords}
            lv, hv = par.get('parallelism'), hp.get('parallelism')
            # the tag is either written at the constructor (the constructor is under the class test) or a local
            # assigned a constant under the class test: one case per reaching definition
            cases: list[tuple[str | None, str | None, str | None, ast.AST]] = []
            names = {v.id for v in (lv, hv) if isinstance(v, ast.Name)}
            if not names:
                cases.append((kind_of(c), norm(lv) if lv is not None else None, norm(hv) if hv is not None else None, c))
            elif len(names) == 1:
                (v,) = names
                defs = [n for n in p.nodes(f) if isinstance(n, ast.Assign) and any(isinstance(t, ast.Name) and t.id == v for t in n.targets)]
                for d_ in defs:
                    val = norm(d_.value) if isinstance(d_.value, ast.Constant) else None
                    cases.append((kind_of(d_), val if isinstance(lv, ast.Name) else (norm(lv) if lv is not None else None),
                                  val if isinstance(hv, ast.Name) else (norm(hv) if hv is not None else None), d_))
                if not defs:
                    cases.append((None, None, None, c))
            else:
                cases.append((None, norm(lv), norm(hv), c))
            for kind, lt, ht, at in cases:
                ok = kind is not None and lt == repr(kind) and ht == repr(kind) and norm(par.get('model_parallel_group')) == 'model_parallel_group' if par.get('model_parallel_group') is not None else False
                ctx.check(ok, rid, f, f'{kind}: layer and helper tagged {kind!r}', norm(at)[:80],
                          f'{norm(c)[:100]}: ColumnParallelLinear must be registered as output-parallel and RowParallelLinear as input-parallel, consistently in layer and helper (class test {kind}: layer {lt}, helper {ht})', at)


def rule_hookreg(ctx: Ctx) -> None:
    p = ctx.prog
    ctx.rule('OWN-HOOKREG', 'hooks are registered only in BaseKFACPreconditioner.__init__, one forward-pre and one full-backward hook per registered module', floor=2)
    sites = []
    for f in p.functions():
        for c in p.calls_in(f):
            if isinstance(c.func, ast.Attribute) and re.fullmatch(r'register_\w*hook', c.func.attr):
                sites.append((f, c))
    want = {'register_forward_pre_hook': 'self._save_input', 'register_full_backward_hook': 'self._save_grad_output'}
    got = {}
    for f, c in sites:
        ok = f.short == 'base_preconditioner.BaseKFACPreconditioner.__init__'
        loops = [lp for lp in flow.enclosing_loops(p, f, c) if isinstance(lp, ast.For)]
        ok = ok and len(loops) == 1 and norm(loops[0].iter) in ('self._layers', 'self._layers.keys()', 'layers', 'layers.keys()') and norm(c.func.value) == norm(loops[0].target) \
            and not flow.guards(p, f, c)
        ok = ok and want.get(c.func.attr) == (norm(c.args[0]) if c.args else None)
        got[c.func.attr] = got.get(c.func.attr, 0) + 1
        ctx.check(ok, 'OWN-HOOKREG', f, f'{norm(c)} for every registered module', norm(c),
                  f'{f.short}: {norm(c)} — hooks must be installed once per registered module, in the base constructor, as {want}', c)
    for k in want:
        if got.get(k, 0) != 1:
            ctx.violate('OWN-HOOKREG', 'base_preconditioner.BaseKFACPreconditioner.__init__', k, f'{k} is called at {got.get(k, 0)} site(s); exactly one expected', None)


def run(ctx: Ctx) -> None:
    ctx.assumptions |= {'A3'}
    ctx.do(rule_helpers)
    ctx.do(rule_register, 'layers.register.register_modules', False)
    ctx.do(rule_register, 'gpt_neox.preconditioner.register_modules', True)
    ctx.do(rule_hookreg)
