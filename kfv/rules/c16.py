"""C16 — exactly the eligible layers are registered, once each."""
from __future__ import annotations

import ast
import re

from kfv import flow
from kfv.core import AnalysisIncomplete
from kfv.core import Ctx
from kfv.model import Func
from kfv.model import norm
from kfv.rules.spmd_rules import conjuncts

TECHNIQUE = ('guard analysis of the registration statement (exactly the three eligibility conjuncts), structural normal forms of the '
             'helper predicates (leaf test, regex search, all-parameters-trainable, isinstance dispatch), sibling agreement of the '
             'GPT-NeoX variant, who-may-call of hook registration')
EXPLANATION = (
    'The statement that stores a (name, layer) pair is located in both register_modules functions and the set of conditions it '
    'is control-dependent on is compared with the specification: not any_match(name, patterns), not any_match(class name, '
    'patterns), requires_grad(module), and a supported type (helper is not None / class-name dispatch); nothing else.  The helper '
    'predicates are checked in normal form: leaves are modules with no children out of named_modules(); any_match compiles each '
    'pattern without flags and uses search(); requires_grad is all(...) over parameters(); dispatch is isinstance against the two '
    'type tuples with no other early exit; registration is keyed by the module object; hooks are registered only in '
    'BaseKFACPreconditioner.__init__, once each per registered module.  named_modules() semantics on shared instances are torch\'s.')

NOT_DECIDED = 'named_modules() semantics on shared instances (torch)'


def _ret_guards(p, f: Func, r: ast.AST) -> list[tuple[str, bool]]:  # noqa: ANN001
    return [(norm(a), pol) for g in flow.guards(p, f, r) for a, pol in conjuncts(g.test, g.polarity)]


def rule_helpers(ctx: Ctx) -> None:
    p = ctx.prog
    ctx.rule('REG-LEAF', 'candidates = (name, module) of named_modules() whose children() is empty', floor=1)
    ctx.rule('REG-PRED', 'any_match: re.compile(pattern) without flags, any(search(query))', floor=2)
    ctx.rule('REG-ALL', 'requires_grad: all parameters have requires_grad', floor=1)
    ctx.rule('REG-DISPATCH', 'get_module_helper: isinstance against LINEAR_TYPES / CONV2D_TYPES only, else None', floor=3)
    f = p.get_func('layers.register.get_flattened_modules')
    rets = [n for n in p.nodes(f) if isinstance(n, ast.Return) and n.value is not None]
    ok = False
    if len(rets) == 1 and isinstance(rets[0].value, ast.ListComp) and len(rets[0].value.generators) == 1:
        lc = rets[0].value
        g = lc.generators[0]
        root = [a for a in f.params][0]
        tgt = [norm(e) for e in g.target.elts] if isinstance(g.target, ast.Tuple) else []
        if len(tgt) == 2:
            nm, md = tgt
            tests = {re.sub(r'\s+', '', norm(t)) for t in g.ifs}
            leaf = {f'len(list({md}.children()))==0', f'notlist({md}.children())', f'len(list({md}.children()))<1',
                    f'next({md}.children(),None)isNone'}
            ok = norm(g.iter) == f'{root}.named_modules()' and norm(lc.elt) == f'({nm}, {md})' and len(tests) == 1 and bool(tests & leaf)
    ctx.check(ok, 'REG-LEAF', f, 'leaves of named_modules()', 'get_flattened_modules',
              f'get_flattened_modules returns {norm(rets[0].value) if rets else None}; specified: the (name, module) pairs of root.named_modules() that have no children', f.node)
    # any_match
    f = p.get_func('layers.register.any_match')
    comp = [n for n in p.nodes(f) if isinstance(n, ast.Call) and norm(n.func) in ('re.compile', 're.search', 're.match', 're.fullmatch')]
    for c in comp:
        okc = norm(c.func) in ('re.compile', 're.search') and (len(c.args) == (1 if norm(c.func) == 're.compile' else 2)) and not c.keywords
        ctx.check(okc, 'REG-PRED', f, f'{norm(c)}', norm(c), f'any_match uses {norm(c)}: patterns must be compiled without flags and applied with search()', c)
    if not comp:
        ctx.violate('REG-PRED', f, 'any_match', 'any_match does not use re.compile / re.search', f.node)
    meths = [n.func.attr for n in p.nodes(f) if isinstance(n, ast.Call) and isinstance(n.func, ast.Attribute) and n.func.attr in ('search', 'match', 'fullmatch', 'findall')
             and norm(n.func.value) not in ('re',)]
    rets = [n for n in p.nodes(f) if isinstance(n, ast.Return) and n.value is not None]
    okm = (meths == ['search'] or (not meths and any(norm(c.func) == 're.search' for c in comp))) and len(rets) == 1 and norm(rets[0].value).startswith('any(') \
        and (f.params[0] in norm(rets[0].value))
    ctx.check(okm, 'REG-PRED', f, 'any(regex.search(query))', 'any_match return', f'any_match returns {norm(rets[0].value) if rets else None} using {meths}: specified any(regex.search(query) ...)', f.node)
    # patterns iterate the patterns parameter
    its = [norm(g.iter) for n in p.nodes(f) if isinstance(n, (ast.ListComp, ast.GeneratorExp)) for g in n.generators]
    ctx.check(f.params[1] in its, 'REG-PRED', f, 'every pattern is tried', 'patterns', f'any_match does not iterate all patterns ({its})', f.node)
    # requires_grad
    f = p.get_func('layers.register.requires_grad')
    rets = [n for n in p.nodes(f) if isinstance(n, ast.Return) and n.value is not None]
    md = f.params[0]
    t = re.sub(r'[\s\[\]]', '', norm(rets[0].value)) if len(rets) == 1 else ''
    m = re.fullmatch(rf'all\(\(?(\w+)\.requires_gradfor\1in{md}\.parameters\(\)\)?\)', t)
    ctx.check(bool(m), 'REG-ALL', f, 'all(p.requires_grad for p in module.parameters())', 'requires_grad',
              f'requires_grad returns {norm(rets[0].value) if rets else None}; specified: all parameters of the module require gradients', f.node)
    # dispatch
    f = p.get_func('layers.register.get_module_helper')
    mod = p.modules[f.module]
    consts = {}
    for st in mod.tree.body:
        if isinstance(st, (ast.Assign, ast.AnnAssign)):
            tg = st.targets[0] if isinstance(st, ast.Assign) else st.target
            if isinstance(tg, ast.Name) and st.value is not None:
                consts[tg.id] = norm(st.value)
    ctx.check(consts.get('LINEAR_TYPES') == '(torch.nn.Linear,)' and consts.get('CONV2D_TYPES') == '(torch.nn.Conv2d,)', 'REG-DISPATCH', f,
              'LINEAR_TYPES = (torch.nn.Linear,), CONV2D_TYPES = (torch.nn.Conv2d,)', 'type tuples',
              f'supported type tuples are LINEAR_TYPES={consts.get("LINEAR_TYPES")}, CONV2D_TYPES={consts.get("CONV2D_TYPES")}', f.node)
    want = {'LinearModuleHelper': 'LINEAR_TYPES', 'Conv2dModuleHelper': 'CONV2D_TYPES'}
    for r in [n for n in p.nodes(f) if isinstance(n, ast.Return)]:
        gs = _ret_guards(p, f, r)
        v = r.value
        cls = norm(v.func) if isinstance(v, ast.Call) else None
        if cls in want:
            pos = [a for a, pol in gs if pol]
            extra = [a for a, pol in gs if a not in (f'isinstance({md_}, {t_})' for md_ in [f.params[0]] for t_ in want.values())]
            ok = f'isinstance({f.params[0]}, {want[cls]})' in pos and not extra and norm(v.args[0]) == f.params[0]
            ctx.check(ok, 'REG-DISPATCH', f, f'{cls} iff isinstance(module, {want[cls]})', norm(r),
                      f'{norm(r)} is reached under {gs}; specified: exactly when isinstance(module, {want[cls]}) (subclasses included), with no other precondition', r)
        else:
            other = [(a, pol) for a, pol in gs if not a.startswith('isinstance(')]
            ctx.check(norm(v) == 'None' and not other, 'REG-DISPATCH', f, f'None only when no supported type matches', norm(r) + str(gs),
                      f'{norm(r)} is reached under {gs}: a module of a supported type (or a subclass) can be rejected', r)


def rule_register(ctx: Ctx, fname: str, gpt: bool) -> None:
    p = ctx.prog
    rid = 'SIB-REG' if gpt else 'REG-GUARD'
    ctx.rule(rid, ('GPT-NeoX ' if gpt else '') + 'register_modules stores a layer exactly under: name not skipped, class name not skipped, all parameters trainable, supported type', floor=1)
    ctx.rule('REG-UNIQ', 'registration is keyed by the module object and stores (qualified name, layer)', floor=1)
    f = p.get_func(fname)
    stores = [n for n in p.nodes(f) if isinstance(n, ast.Assign) and len(n.targets) == 1 and isinstance(n.targets[0], ast.Subscript)
              and isinstance(n.value, ast.Tuple) and len(n.value.elts) == 2]
    if len(stores) != 1:
        raise AnalysisIncomplete(f'{fname}: expected one statement storing (name, layer) into the registry, found {len(stores)}')
    st = stores[0]
    loops = [lp for lp in flow.enclosing_loops(p, f, st) if isinstance(lp, ast.For)]
    if len(loops) != 1 or not isinstance(loops[0].target, ast.Tuple):
        raise AnalysisIncomplete(f'{fname}: registration is not inside a single loop over (name, module) pairs')
    nm, md = [norm(e) for e in loops[0].target.elts]
    it = loops[0].iter
    src = norm(it)
    if isinstance(it, ast.Name):
        d = p.local_defs(f, it.id)
        src = norm(d[0]) if len(d) == 1 else src
    ctx.check(src == f'get_flattened_modules({f.params[0]})', rid, f, 'candidates = get_flattened_modules(model)', 'candidates',
              f'{fname} iterates {src}; specified: the leaves of the model (get_flattened_modules(model))', loops[0])
    ctx.check(norm(st.targets[0].slice) == md and norm(st.value.elts[0]) == nm, 'REG-UNIQ', f, f'registry[{md}] = ({nm}, layer)', norm(st),
              f'{norm(st)}: the registry must be keyed by the module object and record its qualified name', st)
    atoms4 = [(re.sub(r'\s+', ' ', norm(a)), pol, g.via, a) for g in flow.guards(p, f, st) for a, pol in conjuncts(g.test, g.polarity)]
    atoms = [(a, pol, via) for a, pol, via, _n in atoms4]
    type_vars = _type_vars(p, f, md) if gpt else set()
    pats = f.params[2] if not gpt else 'skip_layers'
    cls_exprs = {f'{md}.__class__.__name__', f'type({md}).__name__'}
    # a local that holds exactly the class name (single definition) stands for it
    cls_exprs |= {n.targets[0].id for n in p.nodes(f) if isinstance(n, ast.Assign) and len(n.targets) == 1 and isinstance(n.targets[0], ast.Name)
                  and norm(n.value) in (f'{md}.__class__.__name__', f'type({md}).__name__') and len(p.local_defs(f, n.targets[0].id)) == 1}
    need = {f'any_match({nm}, {pats})': False, 'CLASS': False, f'requires_grad({md})': True}
    seen = set()
    extra = []
    for a, pol, via, a_node in atoms4:
        if a == f'any_match({nm}, {pats})' and not pol:
            seen.add('name')
        elif any(a == f'any_match({c}, {pats})' for c in cls_exprs) and not pol:
            seen.add('class')
        elif a == f'requires_grad({md})' and pol:
            seen.add('grad')
        elif not gpt and a in ('module_helper is None',) and not pol:
            seen.add('type')
        elif not gpt and a in ('module_helper is not None',) and pol:
            seen.add('type')
        elif gpt and _only_about(p, f, a_node, type_vars):
            pass          # part of the type dispatch: decided by case evaluation below
        else:
            extra.append(('' if pol else 'not ') + a + f' [{via}]')
    if not gpt:
        missing = {'name', 'class', 'grad', 'type'} - seen
        ctx.check(not missing and not extra, rid, f, 'registered iff name and class name unskipped, trainable, supported', 'registration guards',
                  f'{fname}: a layer is registered under conditions {[x for x in atoms]}; missing eligibility conjunct(s) {sorted(missing)}, unexpected {extra}. '
                  'Specified: regex search of every skip pattern in the qualified name and in the class name, all parameters trainable, supported type', st)
        # helper comes from get_module_helper(module); layer built from that helper
        d = p.local_defs(f, 'module_helper')
        ctx.check(len(d) == 1 and norm(d[0]) == f'get_module_helper({md})', rid, f, 'type support decided by get_module_helper(module)', 'helper',
                  f'module_helper is {[norm(x) for x in d]}', st)
    else:
        # the type dispatch, however it is written (if/elif chain, tag variable, table lookup, guard clause), is decided
        # by evaluating the loop body once per case of the lower-cased class name
        from kfv import peval
        consts = peval.module_constants(p.modules[f.module].tree)
        body = loops[0].body
        cls_lower = f'{md}.__class__.__name__.lower()'
        tv_defs = [n for n in p.nodes(f) if isinstance(n, ast.Assign) and len(n.targets) == 1 and isinstance(n.targets[0], ast.Name) and norm(n.value) in (cls_lower, f'type({md}).__name__.lower()')]
        tv_defs = [n for n in tv_defs if True]
        # locals holding the (not yet lower-cased) class name: `cn = module.__class__.__name__` ... `cn.lower()`
        raw_names = {n.targets[0].id for n in p.nodes(f) if isinstance(n, ast.Assign) and len(n.targets) == 1 and isinstance(n.targets[0], ast.Name)
                     and norm(n.value) in (f'{md}.__class__.__name__', f'type({md}).__name__') and len(p.local_defs(f, n.targets[0].id)) == 1}
        lowered = {cls_lower, f'type({md}).__name__.lower()'} | {f'{r}.lower()' for r in raw_names}
        inline_uses = [n for n in p.nodes(f) if isinstance(n, ast.Call) and norm(n) in lowered]
        ctx.check(bool(tv_defs) or bool(inline_uses), rid, f, 'dispatch on the lower-cased class name only', 'module_name',
                  f'{fname}: the supported-type decision does not use {cls_lower}', st)
        names = {n.targets[0].id for n in tv_defs}

        class _Sub(ast.NodeTransformer):
            def __init__(self, val: str) -> None:
                self.val = val

            def visit_Call(self, n: ast.Call) -> ast.AST:  # noqa: N802
                if norm(n) in lowered:
                    return ast.copy_location(ast.Constant(value=self.val), n)
                self.generic_visit(n)
                return n
        import copy as _copy
        results = {}
        for case, val, want in (('ColumnParallelLinear', 'columnparallellinear', 'output'), ('RowParallelLinear', 'rowparallellinear', 'input'), ('any other class', 'linear', None)):
            body_c = [_Sub(val).visit(_copy.deepcopy(x)) for x in body]
            store_c = [n for x in body_c for n in ast.walk(x) if isinstance(n, ast.Assign) and len(n.targets) == 1 and isinstance(n.targets[0], ast.Subscript)
                       and isinstance(n.value, ast.Tuple) and len(n.value.elts) == 2]
            outs = peval.run_block(body_c, {}, consts, lambda c: norm(c.func) in ('GPTNeoXKFACEigenLayer', 'GPTNeoXLinearModuleHelper'),
                                   lambda t: None, {id(x) for x in store_c})      # eligibility tests are unknown: both branches
            reg = [o for o in outs if o.marks]
            if want is None:
                ctx.check(not reg, rid, f, f'{case}: not registered', f'case other',
                          f'{fname}: a module whose class is neither ColumnParallelLinear nor RowParallelLinear reaches the registration (unsupported type registered)', st)
                continue
            okc = bool(reg)
            got = []
            for o in reg:
                tags = {}
                for c, env in o.calls:
                    kw = {k.arg: peval.ev(k.value, env, consts) for k in c.keywords if k.arg}
                    tags[norm(c.func)] = kw.get('parallelism', peval.UNKNOWN)
                    if norm(c.func) == 'GPTNeoXKFACEigenLayer':
                        mpg = [k for k in c.keywords if k.arg == 'model_parallel_group']
                        okc = okc and bool(mpg) and norm(mpg[0].value) == 'model_parallel_group'
                got.append(tags)
                okc = okc and tags.get('GPTNeoXKFACEigenLayer') == want and tags.get('GPTNeoXLinearModuleHelper') == want
            ctx.check(okc, rid, f, f'{case}: layer and helper tagged {want!r}', f'case {case}',
                      f'{fname}: for class {case} the registration builds {[{k: peval.text(v) for k, v in t.items()} for t in got] if got else "nothing"}; specified: layer and helper both with parallelism={want!r} '
                      '(ColumnParallelLinear is output-parallel, RowParallelLinear input-parallel) and the given model-parallel group', st)
            results[case] = okc
        if all(results.get(c_) for c_ in ('ColumnParallelLinear', 'RowParallelLinear')):
            seen.add('type')
        missing = {'name', 'class', 'grad', 'type'} - seen
        ctx.check(not missing and not extra, rid, f, 'registered iff name and class name unskipped, trainable, supported', 'registration guards',
                  f'{fname}: a layer is registered under conditions {[x for x in atoms]}; missing eligibility conjunct(s) {sorted(missing)}, unexpected {extra}. '
                  'Specified: regex search of every skip pattern in the qualified name and in the class name, all parameters trainable, supported type', st)


def _type_vars(p, f, md: str) -> set[str]:  # noqa: ANN001
    """Locals computed only from the module's class name (transitively)."""
    out: set[str] = set()
    changed = True
    base = (f'{md}.__class__.__name__', f'type({md}).__name__')
    while changed:
        changed = False
        for n in p.nodes(f):
            if isinstance(n, ast.Assign) and len(n.targets) == 1 and isinstance(n.targets[0], ast.Name) and n.targets[0].id not in out:
                names = {x.id for x in ast.walk(n.value) if isinstance(x, ast.Name) and isinstance(x.ctx, ast.Load)}
                txt = norm(n.value)
                if any(b_ in txt for b_ in base) or (names & out):
                    rest = names - out - {md}
                    # other names must be module-level constants / builtins (not locals of f)
                    if not any(p.local_defs(f, r) or r in f.params for r in rest):
                        out.add(n.targets[0].id)
                        changed = True
    return out


def _only_about(p, f, a: ast.expr, type_vars: set[str]) -> bool:  # noqa: ANN001
    names = {x.id for x in ast.walk(a) if isinstance(x, ast.Name) and isinstance(x.ctx, ast.Load)}
    local = {n for n in names if p.local_defs(f, n) or n in f.params}
    return bool(local) and local <= type_vars


def rule_hookreg(ctx: Ctx) -> None:
    p = ctx.prog
    ctx.rule('OWN-HOOKREG', 'hooks are registered only in BaseKFACPreconditioner.__init__, one forward-pre and one full-backward hook per registered module', floor=2)
    sites = []
    for f in p.functions():
        for c in p.calls_in(f):
            if isinstance(c.func, ast.Attribute) and re.fullmatch(r'register_\w*hook', c.func.attr):
                sites.append((f, c))
    want = {'register_forward_pre_hook': 'self._save_input', 'register_full_backward_hook': 'self._save_grad_output'}
    got = {}
    for f, c in sites:
        ok = f.short == 'base_preconditioner.BaseKFACPreconditioner.__init__'
        loops = [lp for lp in flow.enclosing_loops(p, f, c) if isinstance(lp, ast.For)]
        ok = ok and len(loops) == 1 and norm(loops[0].iter) in ('self._layers', 'self._layers.keys()', 'layers', 'layers.keys()') and norm(c.func.value) == norm(loops[0].target) \
            and not flow.guards(p, f, c)
        ok = ok and want.get(c.func.attr) == (norm(c.args[0]) if c.args else None)
        got[c.func.attr] = got.get(c.func.attr, 0) + 1
        ctx.check(ok, 'OWN-HOOKREG', f, f'{norm(c)} for every registered module', norm(c),
                  f'{f.short}: {norm(c)} — hooks must be installed once per registered module, in the base constructor, as {want}', c)
    for k in want:
        if got.get(k, 0) != 1:
            ctx.violate('OWN-HOOKREG', 'base_preconditioner.BaseKFACPreconditioner.__init__', k, f'{k} is called at {got.get(k, 0)} site(s); exactly one expected', None)


def run(ctx: Ctx) -> None:
    ctx.assumptions |= {'A3'}
    ctx.do(rule_helpers)
    ctx.do(rule_register, 'layers.register.register_modules', False)
    ctx.do(rule_register, 'gpt_neox.preconditioner.register_modules', True)
    ctx.do(rule_hookreg)
