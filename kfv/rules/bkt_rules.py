"""TS-BKT — typestate of pending (bucketed) factor reductions: nothing waits on a future whose bucket has not been
communicated, and a step leaves nothing pending."""
from __future__ import annotations

import ast

from kfv import flow
from kfv.core import AnalysisIncomplete
from kfv.core import Ctx
from kfv.model import Func
from kfv.model import norm
from kfv.rules import precond_rules as R

LAYER = R.LAYER
TDC = 'kfac.distributed.TorchDistributedCommunicator'


def bucket_slots(ctx: Ctx) -> set[str]:
    """Future slots that can hold a future of the *bucketed* allreduce."""
    p = ctx.prog
    p.family = None
    out = set()
    for c in p.subclasses(LAYER):
        for m in c.methods.values():
            for n in p.nodes(m):
                if isinstance(n, ast.Assign) and len(n.targets) == 1 and isinstance(n.targets[0], ast.Attribute) and isinstance(n.targets[0].value, ast.Name) \
                        and n.targets[0].value.id == 'self' and isinstance(n.value, ast.Call):
                    ts = p.resolve_call(m, n.value)
                    if any(t.kind == 'func' and t.ref.qualname == f'{TDC}.allreduce_bucketed' for t in ts):
                        out.add(n.targets[0].attr)
    return out


def method_seq(ctx: Ctx, f: Func, slots: set[str], depth: int = 0) -> list[tuple[str, str]]:
    """Ordered (kind, slot) events of a layer method: wait = read of a bucket slot through its accessor, enq = bucketed reduction stored into it."""
    p = ctx.prog
    if depth > 5:
        return []
    out: list[tuple[str, str]] = []

    def expr_events(e: ast.AST) -> None:
        for n in _ordered(e):
            if isinstance(n, ast.Attribute) and isinstance(n.ctx, ast.Load) and isinstance(n.value, ast.Name) and n.value.id == 'self' and n.attr in slots:
                out.append(('wait', n.attr))
            elif isinstance(n, ast.Call) and isinstance(n.func, ast.Attribute) and isinstance(n.func.value, ast.Name) and n.func.value.id == 'self':
                g = p.lookup_method(f.cls, n.func.attr) if f.cls else None
                if g is not None and g is not f:
                    out.extend(method_seq(ctx, g, slots, depth + 1))
            elif isinstance(n, ast.Call) and isinstance(n.func, ast.Attribute) and isinstance(n.func.value, ast.Call) and norm(n.func.value.func) == 'super':
                for c in p.mro(f.cls)[1:] if f.cls else []:
                    if n.func.attr in c.methods:
                        out.extend(method_seq(ctx, c.methods[n.func.attr], slots, depth + 1))
                        break
            elif isinstance(n, ast.Call):
                ts = p.resolve_call(f, n)
                if any(t.kind == 'func' and t.ref.qualname == f'{TDC}.flush_allreduce_buckets' for t in ts):
                    out.append(('flush', ''))
    for st in _stmts(f.body):
        if isinstance(st, ast.Assign) and len(st.targets) == 1 and isinstance(st.targets[0], ast.Attribute) and isinstance(st.targets[0].value, ast.Name) and st.targets[0].value.id == 'self':
            expr_events(st.value)
            if st.targets[0].attr in slots and isinstance(st.value, ast.Call):
                ts = p.resolve_call(f, st.value)
                if any(t.kind == 'func' and t.ref.qualname == f'{TDC}.allreduce_bucketed' for t in ts):
                    out.append(('enq', st.targets[0].attr))
        else:
            for fld in ('value', 'test', 'iter', 'exc'):
                v = getattr(st, fld, None)
                if isinstance(v, ast.AST):
                    expr_events(v)
            if isinstance(st, ast.AugAssign):
                expr_events(st.target)
    return out


def _stmts(body: list[ast.stmt]) -> list[ast.stmt]:
    out = []
    for st in body:
        out.append(st)
        for fld in ('body', 'orelse', 'finalbody'):
            b = getattr(st, fld, None)
            if isinstance(b, list) and not isinstance(st, (ast.FunctionDef, ast.ClassDef)):
                out += _stmts(b)
    return out


def _ordered(e: ast.AST) -> list[ast.AST]:
    out: list[ast.AST] = []

    def rec(n: ast.AST) -> None:
        if isinstance(n, (ast.FunctionDef, ast.Lambda)):
            return
        for c in ast.iter_child_nodes(n):
            rec(c)
        out.append(n)
    rec(e)
    return out


def rule_ts_bkt(ctx: Ctx) -> None:
    p = ctx.prog
    p.family = None
    ctx.rule('TS-BKT', 'pending-bucket typestate: every wait on a factor future is preceded by a flush of the buckets it may sit in; step() leaves no bucket pending; '
                       'memory_usage() flushes before it reads', floor=3)
    slots = bucket_slots(ctx)
    if not slots:
        raise AnalysisIncomplete('no future slot receives the result of allreduce_bucketed')
    # summaries per method name: union over the KAISA layer classes (GPT layer adds no other slots)
    seqs: dict[str, list] = {}
    for c in p.subclasses(LAYER):
        if c.module.startswith('kfac.gpt_neox'):
            continue    # the GPT-NeoX layer re-dispatches to the base reductions under mutually exclusive branches (same events)
        for name in list(c.methods) + list(c.getters):
            g = c.methods.get(name) or c.getters.get(name)
            sq = method_seq(ctx, g, slots)
            if sq:
                cur = seqs.setdefault(name, [])
                if len(sq) > len(cur):
                    seqs[name] = sq
    ctx.extra['bucket_slots'] = sorted(slots)
    ctx.extra['layer_method_events'] = {k: v for k, v in sorted(seqs.items())}
    errors: list[tuple[ast.AST, str]] = []

    class CB(flow.DefaultCB):
        def __init__(self, f: Func, hook: bool) -> None:
            self.f = f
            self.hook = hook

        def apply(self, s, events, node):  # noqa: ANN001
            any_, cur, later = s
            for kind, slot in events:
                if kind == 'wait' and (slot in any_ or slot in cur):
                    errors.append((node, f'{norm(node)[:70]} waits on the future of `{slot}` while its bucket may not have been communicated (no flush since the reduction was enqueued)'))
                elif kind == 'enq':
                    cur = cur | {slot}
                elif kind == 'flush':
                    any_, cur, later = frozenset(), frozenset(), frozenset()
            return (any_, cur, later)

        def expr(self, s, e, st):  # noqa: ANN001
            if s is None or e is None:
                return s
            if isinstance(st, (ast.For, ast.AsyncFor)) and e is st.iter:
                s = (s[0] | s[1], frozenset(), s[2])
            for c in flow.calls_in_order(e):
                if isinstance(c.func, ast.Attribute):
                    ts = p.resolve_call(self.f, c)
                    if any(t.kind == 'func' and t.ref.qualname == f'{TDC}.flush_allreduce_buckets' for t in ts):
                        s = self.apply(s, [('flush', '')], c)
                        continue
                    recv = p.receiver_classes(self.f, c.func.value)
                    if any(rc in p.classes and p.is_subclass(rc, LAYER) for rc in recv):
                        s = self.apply(s, seqs.get(c.func.attr, []), c)
            for n in ast.walk(e):
                if isinstance(n, ast.Attribute) and isinstance(n.ctx, ast.Load) and n.attr in slots:
                    recv = p.receiver_classes(self.f, n.value)
                    if any(rc in p.classes and p.is_subclass(rc, LAYER) for rc in recv):
                        s = self.apply(s, [('wait', n.attr)], n)
            return s

        def assume(self, s, test, pol):  # noqa: ANN001
            v = _flag_value(test, self.hook)
            if v is not None and v != pol:
                return None
            return s

        def join(self, a, b):  # noqa: ANN001
            return (a[0] | b[0], a[1] | b[1], a[2] | b[2])

        def loop_enter(self, s, loop):  # noqa: ANN001
            return (s[0], frozenset(), s[2] | s[1])

        def loop_exit(self, s, loop):  # noqa: ANN001
            return (s[0] | s[1] | s[2], frozenset(), frozenset())
    for fname, entries in ((f'{R.BP}.step', [(True, frozenset(slots)), (False, frozenset())]),
                           (f'{R.BP}.memory_usage', [(True, frozenset(slots))]),
                           (f'{R.BP}.state_dict', [(True, frozenset())]),
                           (f'{R.BP}.load_state_dict', [(True, frozenset())])):
        f = p.get_func(fname)
        for hook, pending in entries:
            n0 = len(errors)
            cb = CB(f, hook)
            final, exits = flow.Walker(cb).run(f, (pending, frozenset(), frozenset()))
            tag = f'{fname.rsplit(".", 1)[1]} [update_factors_in_hook={hook}, entry pending={sorted(pending)}]'
            for node, msg in errors[n0:]:
                ctx.violate('TS-BKT', f, norm(node)[:100], f'{tag}: {msg}: the wait never returns (bucketed allreduce not yet issued)', node)
            if fname.endswith('.step'):
                for s, r in exits:
                    left = sorted(s[0] | s[1] | s[2])
                    ctx.check(not left, 'TS-BKT', f, f'{tag}: nothing pending at exit', f'step exit hook={hook} line {getattr(r, "lineno", "end")}',
                              f'{tag}: a path through step() returns with factor reductions {left} still sitting in an unflushed bucket: the next reader of the factor (next hook, state_dict) waits forever', r)
            if len(errors) == n0:
                ctx.ok('TS-BKT', f, f'{tag}: no wait on a possibly unflushed bucket', f.node)


def _flag_value(test: ast.expr, hook: bool) -> bool | None:
    if isinstance(test, ast.UnaryOp) and isinstance(test.op, ast.Not):
        v = _flag_value(test.operand, hook)
        return None if v is None else (not v)
    if isinstance(test, ast.BoolOp):
        vs = [_flag_value(v, hook) for v in test.values]
        if isinstance(test.op, ast.And):
            if any(v is False for v in vs):
                return False
            return True if all(v is True for v in vs) else None
        if any(v is True for v in vs):
            return True
        return False if all(v is False for v in vs) else None
    if norm(test) == 'self._update_factors_in_hook':
        return hook
    return None
