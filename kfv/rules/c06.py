"""C06 — KAISA work assignment is well-formed and identical on every rank."""
from __future__ import annotations

from kfv.core import Ctx
from kfv.rules import assign_rules as A
from kfv.rules import coh_rules as C
from kfv.rules import spmd_rules as S

TECHNIQUE = ('rank-label dataflow over KAISAAssignment (uniformity of the inverse-worker table and of group creation), hash-order lint on '
             'mypy set element types, structural grid rules (column/row records, partition normal forms), float-integrality lint (tolerant test, rounding conversion, constant evaluation of the isclose tolerances against the rounding-error bound of the product), role types of the greedy loops; provenance of the rank / world size the assignment is built for')
EXPLANATION = (
    'Identical derivation on every rank is decided by the rank-label analysis: the inverse-worker table, the gradient-worker '
    'records, the broadcast flags and every argument/guard of process-group creation carry the empty label, and no order is '
    'taken from a hash-salted collection.  Well-formedness is decided structurally: worker group = the column containing an '
    'inverse worker of the layer, receiver group = the row containing the local rank, source = their intersection, '
    'is_grad_worker = membership in the same column record, the partition functions have the specified range normal forms, '
    'the flags are the specified comparisons, and the worker count is derived by tolerant rounding.  That columns/rows '
    'partition [0, W) and intersect in one element is integer arithmetic over all sizes and is not decided. The assignment is constructed with get_rank() / get_world_size() of the default group (RANK-ARG).')

NOT_DECIDED = 'that columns/rows partition [0,W) into equal parts and intersect in exactly one element (integer arithmetic over all sizes)'


def run(ctx: Ctx) -> None:
    ctx.do(A.rule_rank_arg, 'KAISA')
    ctx.do(A.rule_det_unif, 'KAISA')
    ctx.do(A.rule_det_hash, ('kfac.assignment',))
    ctx.do(A.rule_det_pure, f'{A.KA}.greedy_assignment')
    ctx.do(A.rule_coh_grid)
    ctx.do(C.rule_aff_flags)
    ctx.do(A.rule_flt_int)
    ctx.do(A.rule_greedy, 'KAISA')
    only = {f'{A.KA}.__init__', 'preconditioner.KFACPreconditioner.__init__'}
    ctx.do(S.rule_S1_S6, 'KAISA', only=only, s4_only=True)
    ctx.do(S.rule_S5, 'KAISA')
