"""C17 — greedy work assignment is complete, group-confined, balanced and deterministic."""
from __future__ import annotations

from kfv.core import Ctx
from kfv.rules import assign_rules as A

TECHNIQUE = ('role-type analysis of the greedy loops (load table index space, index-of-minimum selections, elements of the '
             'selected group, costs), staleness (def-use vs. update) analysis, sort-direction normal form, purity and hash-order lint on mypy types')
EXPLANATION = (
    'greedy_assignment is typed with repository-specific roles: the load table is indexed by rank; a list built by '
    'iterating a group holds that group\'s loads; X.index(min(X)) is an index into the group X was built from; G[idx] is a '
    'rank of G.  Every store into the result must be a rank of the selected element of worker_groups, the selected group '
    'and worker must be arg-min of current loads (recomputed after every update), the load of the stored worker must grow '
    'by the cost placed, layers and factors are visited in decreasing cost, co-located factors share one choice, and the '
    'function reads nothing but its arguments.  The balance bound itself is an arithmetic consequence and is not decided.')

NOT_DECIDED = 'the balance bound (arithmetic consequence of the decided greedy form)'


def run(ctx: Ctx) -> None:
    ctx.do(A.rule_det_pure, f'{A.KA}.greedy_assignment')
    ctx.do(A.rule_det_hash, ('kfac.assignment',))
    ctx.do(A.rule_greedy, 'KAISA')
    ctx.do(A.rule_coh_grid)
    ctx.do(A.rule_greedy, 'GPT')
