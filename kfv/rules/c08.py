"""C08 — bucketed allreduce is equivalent to per-tensor allreduce."""
from __future__ import annotations

from kfv.core import Ctx
from kfv.rules import coh_rules as C
from kfv.rules import dist_rules as D

NEEDS_TYPES = False
TECHNIQUE = ('typestate of the bucket binding in allreduce_bucketed, normal form of the overflow test, injectivity rule on the bucket key, '
             'pairing of tensor/future lists, sibling agreement of the post-processing callbacks, loop-exit analysis of flush; identity of the stored tensor in add_tensor; configuration forwarding of allreduce_method')
EXPLANATION = (
    'kfac/distributed.py is analysed structurally: the key of the open-bucket table must determine the communicator (derived from '
    'the ranks of the group, the bucket built for that group); the binding holding the bucket follows the automaton '
    'open -add*-> communicated (no add after communicate; a full bucket is communicated and replaced before the add); the overflow '
    'test is size + incoming > cap in polynomial normal form and precedes the add; tensors and futures are appended pairwise and '
    'resolved by one zip over flatten/unflatten; the bucketed callback equals the unbucketed one; flush visits every entry with no '
    'early exit and resets it; single-member groups return first.  Mixed-dtype buckets are reported by BKT-DTYPE (known finding F8). '
    'Value equality and torch\'s flatten/unflatten are not decided. add_tensor stores the tensor it was given (no dtype conversion); the bucketing choice reaches every layer (CFG-FWD).')

NOT_DECIDED = 'value equality; unflatten(flatten(x)) = x (torch)'


def run(ctx: Ctx) -> None:
    ctx.assumptions -= {'A6'}
    ctx.do(D.rule_key_inj)
    ctx.do(D.rule_bkt_dtype)
    ctx.do(D.rule_bucket_life)
    ctx.do(D.rule_pair_tf)
    ctx.do(D.rule_sib_cb)
    ctx.do(D.rule_ts_flush)
    ctx.do(D.rule_dom_valid)
    ctx.do(C.rule_cfg_fwd)
    from kfv.rules import dist_rules as _DR
    ctx.do(_DR.rule_contig)
