"""C09 — checkpoints round-trip and resuming is equivalent to never stopping."""
from __future__ import annotations

from kfv.core import Ctx
from kfv.rules import memo_rules as MEMO
from kfv.rules import c19 as C19
from kfv.rules import role_rules as RO
from kfv.rules import tensor_rules as TR
from kfv.rules import coh_rules as C
from kfv.rules import precond_rules as R
from kfv.rules import spmd_rules as S

TECHNIQUE = ('writer/reader key-table agreement of state_dict/load_state_dict (base and layer), guard and order analysis of '
             'load_state_dict (count check, name matching, restore-before-recompute by symbolic hyper-parameter state), '
             'SPMD membership rule on the recompute branch, alias rule on factor slots; statelessness of the scheduler update (new = current * factor); cache-coherence rule')
EXPLANATION = (
    'state_dict() and load_state_dict() are reduced to tables key -> (field, condition) and compared: every key saved is '
    'restored into the field it was saved from, hyper-parameters exactly when they are not functions, the layer states '
    'through the awaiting accessors under the layer\'s own name.  A differing layer count must raise before anything is '
    'loaded.  A symbolic run of load_state_dict shows that the second-order recomputation sees the restored counter and '
    'damping; the collective-matching rules S1/S2 are applied to the recompute branch; factor slots are rebound, never '
    'mutated in place (state dicts hand out aliases).  Bit-equality of a continued run is not decided. LambdaParamScheduler multiplies the current (restored) value, so a restored state continues where it stopped; cached state is invalidated by load_state_dict (MEMO-*).')

NOT_DECIDED = 'bit-equality of a continued run'


def run(ctx: Ctx) -> None:
    ctx.do(C.rule_tab_sd)
    ctx.do(R.rule_damparg, [f'{R.BP}.load_state_dict'])
    only = {f'{R.BP}.load_state_dict', f'{R.BP}.state_dict'}
    ctx.do(S.rule_S1_S6, 'KAISA', only=only)
    ctx.do(S.rule_S2, 'KAISA')
    ctx.do(S.rule_S8)
    ctx.do(C.rule_ts_fut)
    ctx.do(TR.rule_alias_input)
    ctx.do(RO.rule_roles)
    ctx.do(C19.rule_scheduler)
    ctx.do(MEMO.rule_memo)
