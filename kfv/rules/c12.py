"""C12 — GPT-NeoX assignment is consistent across the 3-D topology."""
from __future__ import annotations

from kfv.core import Ctx
from kfv.rules import assign_rules as A
from kfv.rules import spmd_rules as S

TECHNIQUE = ('rank-label dataflow over GPTNeoXAssignment ({pipe}-uniformity of the inverse-worker table, world-uniform group creation), '
             'role typing of rank lists (DP/MP of self / of the inverse worker) and of the greedy loop, reuse-table check of the stage peer group; provenance of the local rank; every exit of the role accessors returns the element of the specified intersection')
EXPLANATION = (
    'All ranks of a stage agree because the inverse-worker table carries at most the label {pipe}; process groups are created '
    'by all ranks with world-uniform arguments in a deterministic order (rule S4/S5; the grid-size tests are justified by J4). '
    'The greedy loop is role-typed: the load table is indexed by position in the stage peer list, the stored worker is '
    'peers[index of minimum load], loads grow by the cost placed, order is by decreasing (cost, name).  The query methods are '
    'intersections of the specified rank lists: factor_worker in DP(inv) & MP(self), src_grad_worker in DP(self) & MP(inv), '
    'is_grad_worker tests inv in MP(self).  That each intersection has exactly one element is topology arithmetic and not decided. The assignment is built for get_rank() of the default group; group creation is never under per-stage control; no early return of the role accessors bypasses the DP/MP intersection.')

NOT_DECIDED = 'cardinality 1 of the rank-list intersections (topology arithmetic)'


def run(ctx: Ctx) -> None:
    ctx.do(A.rule_rank_arg, 'GPT')
    ctx.assumptions |= {'A2', 'A5'}
    ctx.do(A.rule_det_unif, 'GPT')
    ctx.do(A.rule_det_hash, ('kfac.gpt_neox.assignment', 'kfac.gpt_neox.mpu'))
    ctx.do(A.rule_greedy, 'GPT')
    ctx.do(A.rule_role_grp)
    only = {f'{A.GA}.__init__'}
    ctx.do(S.rule_S1_S6, 'GPT', only=only, s4_only=True)
    ctx.do(S.rule_S5, 'GPT')
