"""C19 — hyper-parameter schedulers apply multiplicative factors deterministically."""
from __future__ import annotations

import ast

from kfv import flow
from kfv import symexec
from kfv.core import AnalysisError
from kfv.core import AnalysisIncomplete
from kfv.core import Ctx
from kfv.rules import memo_rules as MEMO
from kfv.model import norm
from kfv.rules.spmd_rules import conjuncts
from kfv.terms import Normalizer
from kfv.terms import Poly

NEEDS_TYPES = False
TECHNIQUE = ('per-parameter block analysis of LambdaParamScheduler (sibling agreement over the scheduled parameters), '
             'symbolic evaluation of each block to a polynomial normal form (new = old * factor, int() for intervals), '
             'guard analysis of the constructor refusals, normal form of the exponential-decay schedule')
EXPLANATION = (
    'For every *_lambda parameter of LambdaParamScheduler the check locates its block in step() and its refusal in '
    '__init__, evaluates the block symbolically and compares with the specified term: the factor is the parameter\'s '
    'own function applied to (step if step is not None else preconditioner.steps), the only store goes to the same '
    'parameter\'s backing field of the preconditioner with value old*factor, wrapped in int() exactly for the '
    'parameters whose preconditioner property is declared int.  The six blocks must agree up to the parameter name. '
    'exp_decay_factor_averaging is normalised to min(1 - 1/s, cap) with s = 1 at step 0, negative steps and cap <= 0 '
    'raising.  Monotonicity follows from the decided form and is not separately decided.')

NOT_DECIDED = 'monotonicity as a theorem (follows from the decided form)'


def _hp_names(ctx: Ctx) -> tuple[list[str], set[str]]:
    """Hyper-parameters = properties of BaseKFACPreconditioner of the callable-or-constant form; int-typed subset."""
    c = ctx.prog.get_class('base_preconditioner.BaseKFACPreconditioner')
    names, ints = [], set()
    for n, g in c.getters.items():
        txt = ' '.join(norm(st) for st in g.body)
        if f'callable(self._{n})' in txt:
            names.append(n)
            if norm(g.node.returns) == 'int':  # type: ignore[attr-defined]
                ints.add(n)
    return names, ints


def _is_not_none_test(t: ast.expr) -> str | None:
    """`self._X_lambda is not None` -> 'X'."""
    if isinstance(t, ast.Compare) and len(t.ops) == 1 and isinstance(t.ops[0], ast.IsNot) and isinstance(t.comparators[0], ast.Constant) \
            and t.comparators[0].value is None and isinstance(t.left, ast.Attribute) and isinstance(t.left.value, ast.Name) \
            and t.left.value.id == 'self' and t.left.attr.startswith('_') and t.left.attr.endswith('_lambda'):
        return t.left.attr[1:-len('_lambda')]
    return None


def rule_scheduler(ctx: Ctx) -> None:
    p = ctx.prog
    names, ints = _hp_names(ctx)
    if len(names) < 6:
        raise AnalysisError(f'only {len(names)} callable-or-constant hyper-parameter properties found in BaseKFACPreconditioner')
    init = p.get_func('scheduler.LambdaParamScheduler.__init__')
    step = p.get_func('scheduler.LambdaParamScheduler.step')
    lam_params = [a for a in init.params if a.endswith('_lambda')]
    ctx.rule('SIB-SCHED', 'one block per scheduled parameter; function, target and assertion belong to the same parameter', floor=6)
    ctx.rule('AFF-SCHED', 'new value = old value * factor, int(...) exactly for the int-typed (interval) parameters', floor=6)
    ctx.rule('STEP-PREC', 'the factor function is evaluated at `step if step is not None else preconditioner.steps`', floor=6)
    ctx.rule('SIB-REFUSE', 'the constructor refuses a *_lambda for a parameter that is already callable', floor=6)

    # every scheduled name is a hyper-parameter
    for lp in lam_params:
        n = lp[:-len('_lambda')]
        ctx.check(n in names, 'SIB-SCHED', init, f'{lp} schedules hyper-parameter {n}', lp, f'{lp} does not correspond to a hyper-parameter of the preconditioner', init.node)

    # constructor wiring self._X_lambda = X_lambda, self._preconditioner = preconditioner
    wires = {}
    for n in p.nodes(init):
        if isinstance(n, ast.Assign) and len(n.targets) == 1 and isinstance(n.targets[0], ast.Attribute) and isinstance(n.targets[0].value, ast.Name) and n.targets[0].value.id == 'self':
            wires[n.targets[0].attr] = (norm(n.value), n)
    for lp in lam_params:
        got = wires.get('_' + lp)
        ctx.check(bool(got) and got[0] == lp, 'SIB-SCHED', init, f'self._{lp} = {lp}', f'self._{lp}',
                  f'self._{lp} is initialised from {got[0] if got else "nothing"}, not from the parameter {lp}', got[1] if got else init.node)

    # refusals
    raises = [n for n in p.nodes(init) if isinstance(n, ast.Raise)]
    refused = {}
    for r in raises:
        atoms = []
        for g in flow.enclosing_guards(p, init, r):
            atoms += conjuncts(g.test, g.polarity)
        lam = [x for x in (_is_not_none_test(a) for a, pol in atoms if pol) if x]
        call = [norm(a.args[0]) for a, pol in atoms if pol and isinstance(a, ast.Call) and norm(a.func) == 'callable' and a.args]
        if len(lam) == 1 and len(call) == 1 and len(atoms) == 2:
            refused[lam[0]] = (call[0], r)
    for lp in lam_params:
        n = lp[:-len('_lambda')]
        got = refused.get(n)
        ctx.check(bool(got) and got[0] == f'self._preconditioner._{n}', 'SIB-REFUSE', init, f'{lp} refused when preconditioner._{n} is callable', lp,
                  f'no refusal of {lp} when the preconditioner\'s {n} is already a function (found test on: {got[0] if got else "none"})', got[1] if got else init.node)

    # step blocks
    sparam = [a for a in step.params if a != 'self']
    if len(sparam) != 1:
        raise AnalysisIncomplete(f'LambdaParamScheduler.step has parameters {sparam}; expected exactly one step override')
    sp = sparam[0]
    want_arg = Normalizer().poly(ast.parse(f'{sp} if {sp} is not None else self._preconditioner.steps', mode='eval').body).canon()
    blocks = {}
    for st in p.nodes(step):
        if isinstance(st, ast.If) and not st.orelse and _is_not_none_test(st.test):
            blocks[_is_not_none_test(st.test)] = st
    # state at the entry of every block, from a symbolic run of the whole function (prologue included)
    entry: dict[str, symexec.Sym] = {}

    def track0(t: ast.AST):  # noqa: ANN202
        if isinstance(t, ast.Name):
            return t.id
        tx = norm(t)
        return tx if tx.startswith('self._preconditioner.') else None

    def assume0(s_, test, pol):  # noqa: ANN001, ANN202
        nm = _is_not_none_test(test)
        if nm and pol and nm not in entry:
            entry[nm] = s_
        return s_
    cb0 = symexec.SymCB(lambda c: None, track0, None, assume0)
    init_env0 = {f'self._preconditioner._{x}': Poly.atom(f'old_{x}') for x in names}
    init_env0[sp] = Poly.atom(sp)
    symexec.run(step, cb0, init_env0)
    # every block runs unconditionally on every call of step()
    for nme, blk in blocks.items():
        gs = flow.guards(p, step, blk)
        ctx.check(not gs, 'SIB-SCHED', step, f'block {nme} runs on every scheduler step', f'block {nme} guards',
                  f'the block applying {nme}_lambda is skipped when {[g.text() for g in gs]}: every scheduler step must multiply every scheduled parameter', blk)
    # no store to preconditioner fields outside the blocks
    for n_ in p.nodes(step):
        if isinstance(n_, (ast.Assign, ast.AugAssign)):
            tg = n_.targets[0] if isinstance(n_, ast.Assign) else n_.target
            if norm(tg).startswith('self._preconditioner.') and not any(b.lineno <= n_.lineno <= b.end_lineno for b in blocks.values()):
                ctx.violate('SIB-SCHED', step, norm(n_)[:100], f'{norm(n_)[:90]} changes a preconditioner parameter outside a per-parameter block', n_)
    phi = f'phi(self._preconditioner.steps|{sp})'
    accepted_args = {want_arg, phi, f'ite({sp} is not None,{phi},self._preconditioner.steps)'}
    for lp in lam_params:
        n = lp[:-len('_lambda')]
        blk = blocks.get(n)
        if blk is None:
            ctx.violate('SIB-SCHED', step, lp, f'step() has no block applying {lp}', step.node)
            continue
        stores: list[tuple[str, Poly, ast.AST]] = []

        def classify(c: ast.Call):  # noqa: ANN202
            if isinstance(c.func, ast.Attribute) and isinstance(c.func.value, ast.Name) and c.func.value.id == 'self' and c.func.attr.endswith('_lambda'):
                return ('lam', c.func.attr)
            return None

        def track(t: ast.AST):  # noqa: ANN202
            if isinstance(t, ast.Name):
                return t.id
            tx = norm(t)
            if tx.startswith('self._preconditioner.'):
                return tx
            return None

        def on_store(s, st_, k, v, cb):  # noqa: ANN001, ANN202
            if k.startswith('self._preconditioner.'):
                stores.append((k, v, st_))
            return s
        cb = symexec.SymCB(classify, track, on_store)
        w = flow.Walker(cb)
        init_env = {f'self._preconditioner._{x}': Poly.atom(f'old_{x}') for x in names}
        s0 = symexec.Sym(tuple(sorted(init_env.items())), ())
        if n in entry:
            e0 = dict(entry[n].env)
            e0.update(init_env)   # earlier blocks changed other parameters; each block is judged on its own old value
            s0 = symexec.Sym(tuple(sorted(e0.items())), ())
        ex = w.block(blk.body, s0)
        s = ex.fall
        if s is None or ex.returns:
            raise AnalysisIncomplete(f'step block of {lp} does not fall through')
        lams = [e for e in s.log if e[0] == 'lam']
        ok = len(lams) == 1 and lams[0][1] == f'_{lp}'
        ctx.check(ok, 'SIB-SCHED', step, f'block {n}: factor from self._{lp}', f'block {n}',
                  f'block of {n} computes its factor with {[e[1] for e in lams]} instead of exactly self._{lp}', blk)
        # argument of the lambda
        for c in [c for c in p.nodes(step) if isinstance(c, ast.Call) and blk.lineno <= c.lineno <= blk.end_lineno and classify(c)]:
            arg = cb.value(s0, c.args[0]).canon() if len(c.args) == 1 and not c.keywords else '?'
            ctx.check(arg in accepted_args, 'STEP-PREC', step, f'block {n}: factor evaluated at explicit-or-preconditioner step', norm(c),
                      f'block of {n} evaluates its factor function at {norm(c.args[0]) if c.args else "()"} instead of `{sp} if {sp} is not None else self._preconditioner.steps`', c)
        # stores
        mine = [x for x in stores if x[0] == f'self._preconditioner._{n}']
        other = [x for x in stores if x[0] != f'self._preconditioner._{n}']
        for k, v, st_ in other:
            ctx.violate('SIB-SCHED', step, norm(st_), f'block of {n} writes {k}: an unscheduled / different parameter changes', st_)
        if len(mine) != 1 or len(lams) != 1:
            ctx.violate('AFF-SCHED', step, f'block {n}', f'block of {n} stores {len(mine)} time(s) into preconditioner._{n} (exactly one expected)', blk)
            continue
        prod = Poly.atom(f'old_{n}') * Poly.atom(lams[0][2])
        want = Poly.atom(f'int({prod.canon()})') if n in ints else prod
        got = mine[0][1]
        ctx.check(got == want, 'AFF-SCHED', step, f'block {n}: new = {"int(" if n in ints else ""}old*factor{")" if n in ints else ""}', norm(mine[0][2]),
                  f'block of {n} stores {got.canon()} but the specified value is {want.canon()}', mine[0][2])
    for n in blocks:
        if n + '_lambda' not in lam_params:
            ctx.violate('SIB-SCHED', step, n, f'step() has a block for {n} without a constructor parameter', blocks[n])



def rule_expdecay(ctx: Ctx) -> None:
    p = ctx.prog
    ctx.rule('AFF-EXPDECAY', 'exp_decay_factor_averaging(cap)(k) = min(1 - 1/max(k,1), cap); k < 0 and cap <= 0 raise', floor=4)
    ed = p.get_func('hyperparams.exp_decay_factor_averaging')
    inner = [f for f in p.funcs.values() if f.parent is ed]
    if len(inner) != 1:
        raise AnalysisIncomplete('exp_decay_factor_averaging: expected exactly one inner schedule function')
    g = inner[0]
    capname = [a for a in ed.params][0]
    kname = g.params[0]
    # outer: cap <= 0 raises
    ok = False
    for r in [n for n in p.nodes(ed) if isinstance(n, ast.Raise)]:
        atoms = [a for gd in flow.enclosing_guards(p, ed, r) for a in conjuncts(gd.test, gd.polarity)]
        if len(atoms) == 1 and atoms[0][1] and _cmp_is(atoms[0][0], capname, '<=', 0):
            ok = True
    ctx.check(ok, 'AFF-EXPDECAY', ed, 'cap <= 0 raises', 'cap check', f'exp_decay_factor_averaging does not reject {capname} <= 0 exactly', ed.node)
    ok = False
    for r in [n for n in p.nodes(g) if isinstance(n, ast.Raise)]:
        atoms = [a for gd in flow.guards(p, g, r) for a in conjuncts(gd.test, gd.polarity)]
        if len(atoms) == 1 and atoms[0][1] and _cmp_is(atoms[0][0], kname, '<', 0):
            ok = True
    ctx.check(ok, 'AFF-EXPDECAY', g, 'negative step raises', 'step check', 'the schedule does not reject exactly the negative steps', g.node)
    # returned value by symbolic evaluation, once per case of the step domain (k = 0, k >= 1); tests and
    # min/max/conditional expressions are decided by the case facts, so every way of writing max(k, 1) agrees
    from kfv.terms import Facts
    cases = (('k = 0', {kname: Poly.const(0)}, Facts({}), Poly.const(0)),
             ('k >= 1', {kname: Poly.atom('k')}, Facts({'k': 1}), Poly.const(1) - Poly.atom('k').inverse()))
    for case, init, facts, expect in cases:
        cb = symexec.SymCB(lambda c: None, None, None, None, facts)
        final, exits = symexec.run(g, cb, dict(init))
        rets = [(s, r) for s, r in exits if isinstance(r, ast.Return)]
        if not rets:
            raise AnalysisIncomplete(f'schedule function has no return in case {case}')
        want = f'min({",".join(sorted([capname, expect.canon()]))})'
        for s, r in rets:
            txt = cb.value(s, r.value).canon()
            ctx.check(txt == want, 'AFF-EXPDECAY', g, f'case {case}: returns {want}', f'{case}: {norm(r)}',
                      f'for {case} the schedule returns {txt}; specified: min(1 - 1/max(k,1), {capname}) = {want}', r)


def run(ctx: Ctx) -> None:
    ctx.assumptions -= {'A6'}
    ctx.do(rule_scheduler)
    ctx.do(rule_expdecay)
    ctx.do(MEMO.rule_memo)


def _cmp_is(t: ast.expr, name: str, op: str, const: int) -> bool:
    ops = {'<': ast.Lt, '<=': ast.LtE, '==': ast.Eq, '>': ast.Gt, '>=': ast.GtE}
    mirror = {'<': '>', '<=': '>=', '==': '==', '>': '<', '>=': '<='}
    if not (isinstance(t, ast.Compare) and len(t.ops) == 1):
        return False
    l, r = t.left, t.comparators[0]
    def isn(x): return isinstance(x, ast.Name) and x.id == name  # noqa: E704, ANN001, ANN202
    def isc(x): return isinstance(x, ast.Constant) and isinstance(x.value, (int, float)) and not isinstance(x.value, bool) and x.value == const  # noqa: E704, ANN001, ANN202
    if isn(l) and isc(r) and isinstance(t.ops[0], ops[op]):
        return True
    if isc(l) and isn(r) and isinstance(t.ops[0], ops[mirror[op]]):
        return True
    return False
