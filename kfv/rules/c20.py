"""C20 — tracing is transparent and its statistics are exact."""
from __future__ import annotations

import ast

from kfv import symexec
from kfv.core import AnalysisError
from kfv.core import Ctx
from kfv.model import Func
from kfv.model import dotted
from kfv.model import norm
from kfv.terms import Poly

NEEDS_TYPES = False
TECHNIQUE = ('path-insensitive symbolic evaluation of the timing wrapper over all its branches (exactly-once call, '
             'exactly-one sample per path, sample = clock difference in term normal form), def-use agreement of '
             'sum/len window in get_trace, table reset in clear_trace; who-may-mutate rule on the sample table; no rebinding of query parameters inside the per-function loop')
EXPLANATION = (
    'kfac/tracing.py is analysed structurally.  The wrapper returned by trace() is evaluated symbolically on every '
    'path (branches joined; logs that differ between paths are a violation): it must call the decorated function '
    'exactly once with (*args, **kwargs), outside any handler that swallows exceptions, return exactly that value, '
    'and record exactly one sample under func.__name__ whose value is clock_after - clock_before for one clock '
    'function, the first read before and the second after the call.  get_trace must sum and divide over the same '
    '(windowed) list, windowing by the last max_history entries; clear_trace must empty the table that the other '
    'two use.  Wall-clock values themselves are not decided. Only the wrapper appends and only clear_trace removes samples (T7); get_trace never rebinds its parameters.')
CLOCKS = {'time.time', 'time.perf_counter', 'time.monotonic', 'time.process_time', 'time.perf_counter_ns',
          'time.time_ns', 'time.monotonic_ns', 'timeit.default_timer'}

NOT_DECIDED = 'wall-clock values'


def _table_names(ctx: Ctx) -> set[str]:
    mod = ctx.prog.modules.get('kfac.tracing')
    if mod is None:
        raise AnalysisError('module kfac.tracing not found')
    out = set()
    for st in mod.tree.body:
        tgt = None
        if isinstance(st, ast.AnnAssign) and isinstance(st.target, ast.Name):
            tgt, val = st.target.id, st.value
        elif isinstance(st, ast.Assign) and len(st.targets) == 1 and isinstance(st.targets[0], ast.Name):
            tgt, val = st.targets[0].id, st.value
        if tgt and (isinstance(val, ast.Dict) or (isinstance(val, ast.Call) and norm(val.func).split('.')[-1] in ('dict', 'defaultdict', 'OrderedDict'))):
            out.add(tgt)
    return out


def find_wrapper(ctx: Ctx) -> tuple[Func, Func, str]:
    """(decorator function, wrapper function, name of the decorated-function parameter)."""
    p = ctx.prog
    trace = p.get_func('tracing.trace')
    cands = []
    for f in p.funcs.values():
        g = f
        chain = []
        while g is not None:
            chain.append(g)
            g = g.parent
        if trace in chain and f is not trace and f.kind in ('nested', 'lambda'):
            cands.append(f)
    for w in cands:
        deco = w.parent
        if deco is None or deco is w:
            continue
        for prm in deco.params:
            for c in p.calls_in(w):
                if isinstance(c.func, ast.Name) and c.func.id == prm:
                    return deco, w, prm
    raise AnalysisError('tracing.trace: no wrapper calling the decorated function found')


def run(ctx: Ctx) -> None:
    p = ctx.prog
    ctx.assumptions -= {'A6'}
    tables = _table_names(ctx)
    if not tables:
        raise AnalysisError('kfac.tracing: no module-level trace table (dict) found')
    deco, w, fparam = find_wrapper(ctx)
    mod = p.modules['kfac.tracing']
    wargs = w.node.args  # type: ignore[attr-defined]
    ctx.rule('T1', 'the wrapper calls func(*args, **kwargs) exactly once on every path and returns that value', floor=2)
    ctx.rule('T2', 'the call is not inside a handler that swallows exceptions', floor=1)
    ctx.rule('T3', 'exactly one sample is recorded under func.__name__ on every normal path', floor=1)
    ctx.rule('T4', 'the sample is clock_after - clock_before with one clock function, read before and after the call', floor=1)
    ctx.rule('T5', 'get_trace sums and divides over the same (windowed) list of samples', floor=2)
    ctx.rule('T6', 'clear_trace empties the trace table', floor=1)

    fcalls = [c for c in p.calls_in(w) if isinstance(c.func, ast.Name) and c.func.id == fparam]

    # --- T1 argument forwarding
    for c in fcalls:
        star = [a for a in c.args if isinstance(a, ast.Starred)]
        dstar = [k for k in c.keywords if k.arg is None]
        ok = (wargs.vararg is not None and wargs.kwarg is not None and len(c.args) == 1 and len(star) == 1
              and isinstance(star[0].value, ast.Name) and star[0].value.id == wargs.vararg.arg
              and len(c.keywords) == 1 and len(dstar) == 1 and isinstance(dstar[0].value, ast.Name) and dstar[0].value.id == wargs.kwarg.arg
              and not wargs.args and not wargs.kwonlyargs and not wargs.posonlyargs)
        ctx.check(ok, 'T1', w, f'forwards (*{wargs.vararg.arg if wargs.vararg else "?"}, **{wargs.kwarg.arg if wargs.kwarg else "?"}) unchanged',
                  norm(c), f'the wrapper does not forward its arguments unchanged: {norm(c)} in def {w.name}({norm(wargs)})', c)

    # --- T2 swallowing handlers
    for c in fcalls:
        n: ast.AST | None = c
        ok = True
        while n is not None and n is not w.node:
            par = mod.parents.get(id(n))
            if isinstance(par, ast.Try) and any(n is s for s in par.body) and par.handlers:
                for h in par.handlers:
                    last = h.body[-1] if h.body else None
                    if not (isinstance(last, ast.Raise) and last.exc is None):
                        ok = False
            n = par
        ctx.check(ok, 'T2', w, 'call of the traced function is not wrapped by a swallowing handler', norm(c),
                  'the traced function is called inside try/except whose handler does not re-raise: exceptions would be swallowed', c)

    # --- symbolic evaluation of the wrapper
    def classify(c: ast.Call) -> tuple | None:
        if isinstance(c.func, ast.Name) and c.func.id == fparam:
            return ('call', fparam)
        d = dotted(c.func)
        if d:
            full = p.resolve_name(mod, d)
            if full in CLOCKS:
                return ('clock', full)
        # table[key].append(x) / table.setdefault(key, []).append(x)
        if isinstance(c.func, ast.Attribute) and c.func.attr == 'append' and len(c.args) == 1:
            base = c.func.value
            key = None
            if isinstance(base, ast.Subscript) and isinstance(base.value, ast.Name) and base.value.id in tables:
                key = base.slice
            elif isinstance(base, ast.Call) and isinstance(base.func, ast.Attribute) and base.func.attr == 'setdefault' \
                    and isinstance(base.func.value, ast.Name) and base.func.value.id in tables and base.args:
                key = base.args[0]
            if key is not None:
                return ('record', norm(key) + '|' + 'ARG')
        return None

    def classify_base(c: ast.Call) -> tuple | None:
        ev = classify(c)
        return None if ev and ev[0] == 'record' else ev

    records: list[tuple[str, Poly, ast.AST]] = []

    class CB(symexec.SymCB):
        def expr(self, s, e, st):  # noqa: ANN001
            s = super().expr(s, e, st)
            for c in symexec.flow.calls_in_order(e):
                ev = classify(c)
                if ev and ev[0] == 'record':
                    val = self.value(s, c.args[0])
                    key = ev[1].split('|')[0]
                    s = s.emit(('sample', key, '', val.canon()))
                    records.append((key, val, c))
                    # table.setdefault(key, DEFAULT).append(x): on the first call of a name DEFAULT's elements are samples too
                    base = c.func.value
                    if isinstance(base, ast.Call) and len(base.args) >= 2:
                        dflt = base.args[1]
                        if isinstance(dflt, (ast.List, ast.Tuple)):
                            for el in dflt.elts:
                                dv = self.value(s, el)
                                s = s.emit(('sample', key, '', dv.canon()))
                                records.append((key, dv, c))
                        elif not (isinstance(dflt, ast.Call) and norm(dflt) in ('list()', '[]')):
                            s = s.emit(('overwrite', key, '', norm(dflt)))
            return s

        def stmt(self, s, st):  # noqa: ANN001
            if isinstance(st, ast.Assign) and len(st.targets) == 1 and isinstance(st.targets[0], ast.Subscript) \
                    and isinstance(st.targets[0].value, ast.Name) and st.targets[0].value.id in tables:
                key = norm(st.targets[0].slice)
                if isinstance(st.value, (ast.List, ast.Tuple)):
                    for el in st.value.elts:
                        val = self.value(s, el)
                        s = s.emit(('sample', key, '', val.canon()))
                        records.append((key, val, st))
                else:
                    s = s.emit(('overwrite', key, '', norm(st.value)))
                return s
            return super().stmt(s, st)

    cb = CB(classify_base)
    final, exits = symexec.run(w, cb)
    if final is None:
        raise AnalysisError('tracing wrapper has no normal exit')
    # per-exit logs
    for s, ret in exits:
        log = s.log
        ncall = sum(1 for e in log if e[0] == 'call')
        nsample = [e for e in log if e[0] == 'sample']
        nover = [e for e in log if e[0] == 'overwrite']
        where = f'exit at line {getattr(ret, "lineno", "end")}'
        ctx.check(ncall == 1 and not s.conflict, 'T1', w, f'exactly one call of {fparam} on the path(s) to {where}', f'calls={ncall}',
                  f'the traced function is called {ncall} time(s) on a path to {where}' + (f'; paths disagree: {s.conflict}' if s.conflict else ''), ret)
        # returned value
        if isinstance(ret, ast.Return) and ret.value is not None:
            rv = cb.value(s, ret.value)
            callatoms = [e[2] for e in log if e[0] == 'call']
            ok = len(callatoms) == 1 and rv == Poly.atom(callatoms[0])
            ctx.check(ok, 'T1', w, 'returns exactly the value of the traced call', norm(ret),
                      f'the wrapper returns {norm(ret.value)} = {rv.canon()}, not the value returned by the traced function', ret)
        else:
            ctx.violate('T1', w, 'return', 'the wrapper has a normal exit that does not return the traced function\'s value', ret)
        ok3 = len(nsample) == 1 and not nover and not s.conflict
        ctx.check(ok3, 'T3', w, f'one sample recorded ({nsample[0][1] if nsample else "-"})', f'samples={len(nsample)} overwrites={len(nover)}',
                  f'{len(nsample)} sample(s) appended and {len(nover)} table overwrite(s) on a path to {where}; exactly one sample per completed call is required'
                  + (f'; paths disagree: {s.conflict}' if s.conflict else ''), ret)
        for e in nsample:
            ctx.check(e[1] == f'{fparam}.__name__', 'T3', w, 'sample stored under func.__name__', f'key {e[1]}',
                      f'the sample is stored under key {e[1]} instead of {fparam}.__name__', ret)
        # T4 sample value
        clocks = [e for e in log if e[0] == 'clock']
        order = [e[0] for e in log if e[0] in ('clock', 'call')]
        for e in nsample:
            ok4 = False
            why = f'sample value {e[3]}'
            for i, c1 in enumerate(clocks):
                for c2 in clocks[i + 1:]:
                    if c1[1] == c2[1] and e[3] == (Poly.atom(c2[2]) - Poly.atom(c1[2])).canon():
                        # call must sit between the two reads
                        names = [x[2] for x in log if x[0] in ('clock', 'call')]
                        ci = names.index(c1[2])
                        cj = names.index(c2[2])
                        callidx = [k for k, x in enumerate([y for y in log if y[0] in ('clock', 'call')]) if x[0] == 'call']
                        if callidx and ci < callidx[0] < cj:
                            ok4 = True
            ctx.check(ok4, 'T4', w, f'sample = clock_after - clock_before ({order})', why,
                      f'the recorded sample {e[3]} is not (clock read after the call) - (clock read before the call) of one clock function; events: {[x[:3] for x in log]}', ret)

    # --- T5 get_trace
    gt = p.get_func('tracing.get_trace')
    # the per-function statistic may live in a helper that get_trace calls once per traced function: the sum / count /
    # window obligations are then checked there, with the helper's parameter that receives max_history
    sf, mh = gt, 'max_history'
    if not any(isinstance(c.func, ast.Name) and c.func.id == 'sum' for c in p.calls_in(gt)):
        for c in p.calls_in(gt):
            for t in p.resolve_call(gt, c):
                if t.kind == 'func' and t.ref.module == gt.module and any(isinstance(c2.func, ast.Name) and c2.func.id == 'sum' for c2 in p.calls_in(t.ref)):
                    sf = t.ref
                    names = [a_ for a_ in sf.params]
                    for i_, a_ in enumerate(c.args):
                        if norm(a_) == 'max_history' and i_ < len(names):
                            mh = names[i_]
                    for k_ in c.keywords:
                        if norm(k_.value) == 'max_history' and k_.arg:
                            mh = k_.arg
    sums = [c for c in p.calls_in(sf) if isinstance(c.func, ast.Name) and c.func.id == 'sum' and c.args]
    lens = [c for c in p.calls_in(sf) if isinstance(c.func, ast.Name) and c.func.id == 'len' and c.args]
    gmod = p.modules[gt.module]
    for sc in sums:
        par = gmod.parents.get(id(sc))
        ctx.ok('T5', sf, f'sum over {norm(sc.args[0])}', sc)
        # divisions in the same loop
        for n in p.nodes(sf):
            div = None
            if isinstance(n, ast.AugAssign) and isinstance(n.op, ast.Div):
                div = n.value
            elif isinstance(n, ast.BinOp) and isinstance(n.op, ast.Div):
                div = n.right
            if div is None:
                continue
            if isinstance(div, ast.Call) and isinstance(div.func, ast.Name) and div.func.id == 'len' and div.args:
                same = norm(div.args[0]) == norm(sc.args[0]) and isinstance(sc.args[0], ast.Name)
                # no rebinding of the list between sum() and len()
                if same:
                    nm = sc.args[0].id  # type: ignore[union-attr]
                    rebinds = [a for a in p.nodes(sf) if isinstance(a, (ast.Assign, ast.AugAssign)) and any(isinstance(t, ast.Name) and t.id == nm for t in (a.targets if isinstance(a, ast.Assign) else [a.target]))
                               and sc.lineno <= a.lineno <= div.lineno and a.lineno != sc.lineno]
                    same = not rebinds
                if same:
                    # the count is taken in the same iteration as the sum: a division placed after the per-function
                    # loop reads the list of the last function only
                    from kfv import flow as _flow
                    l_sum = [id(x) for x in _flow.enclosing_loops(p, sf, sc)]
                    l_div = [id(x) for x in _flow.enclosing_loops(p, sf, n)]
                    same = l_sum == l_div
                ctx.check(same, 'T5', sf, f'mean divides by len({norm(div.args[0])}) of the summed list', norm(n),
                          f'the mean divides sum({norm(sc.args[0])}) by len({norm(div.args[0])}): sum and count are taken over different lists', n)
            else:
                ctx.violate('T5', sf, norm(n), f'the mean divides by {norm(div)}, not by the number of summed samples', n)
    if not sums:
        ctx.violate('T5', sf, 'get_trace', 'get_trace does not sum the samples', gt.node)
    # window slice
    for n in p.nodes(sf):
        if isinstance(n, ast.Subscript) and isinstance(n.slice, ast.Slice) and isinstance(n.ctx, ast.Load):
            sl = n.slice
            ok = (sl.upper is None and sl.step is None and isinstance(sl.lower, ast.UnaryOp) and isinstance(sl.lower.op, ast.USub)
                  and norm(sl.lower.operand) == mh)
            ctx.check(ok, 'T5', sf, 'window = last max_history samples', norm(n),
                      f'window slice {norm(n)} does not select the last max_history samples', n)
    # windowed list must be the one summed: the slice result is assigned to the summed name
    for n in p.nodes(sf):
        if isinstance(n, ast.Assign) and isinstance(n.value, ast.Subscript) and isinstance(n.value.slice, ast.Slice):
            tgt = n.targets[0]
            ok = bool(sums) and isinstance(tgt, ast.Name) and all(norm(sc.args[0]) == tgt.id for sc in sums) and norm(n.value.value) == tgt.id
            ctx.check(ok, 'T5', sf, 'the windowed list is the list that is summed', norm(n),
                      f'the window {norm(n)} is not applied to the list that is summed', n)
    if not any(isinstance(n, ast.Subscript) and isinstance(n.slice, ast.Slice) for n in p.nodes(sf)):
        ctx.violate('T5', sf, 'get_trace', 'max_history is not honoured: no window slice in get_trace', gt.node)
    # the iterated table is the one written by the wrapper
    iter_tabs = {n.value.id for n in p.nodes(gt) if isinstance(n, ast.Attribute) and n.attr == 'items' and isinstance(n.value, ast.Name)}
    ctx.check(bool(iter_tabs & tables), 'T5', gt, f'get_trace reads table {sorted(iter_tabs & tables)}', 'table',
              f'get_trace does not iterate the trace table {sorted(tables)}', gt.node)

    # the query parameters are per-call constants: rebinding one inside the per-function loop carries state from one
    # traced function to the next
    for n in p.nodes(gt):
        if isinstance(n, (ast.Assign, ast.AugAssign, ast.AnnAssign, ast.For, ast.NamedExpr)):
            tg = n.targets if isinstance(n, ast.Assign) else [n.target]
            for t in tg:
                for x in ast.walk(t):
                    if isinstance(x, ast.Name) and x.id in gt.params:
                        ctx.violate('T5', gt, norm(n)[:80] if not isinstance(n, ast.For) else f'for {norm(n.target)}',
                                    f'get_trace rebinds its parameter {x.id} ({norm(n)[:70] if not isinstance(n, ast.For) else "loop target"}): the value computed for one traced function is used for the next', n)
    ctx.ok('T5', gt, f'parameters {gt.params} are never rebound', gt.node)

    # --- T7 the sample table is written only by the wrapper (append) and emptied only by clear_trace
    ctx.rule('T7', 'recorded samples are only appended by the timing wrapper and only removed by clear_trace: no other function mutates the table or a sample list', floor=1)
    MUT = {'append', 'extend', 'insert', 'pop', 'remove', 'clear', 'sort', 'reverse', 'popitem', 'update', 'setdefault', '__setitem__', '__delitem__'}
    n_funcs = 0
    for f in p.functions():
        if f is w or f.short == 'tracing.clear_trace':
            continue
        # names that may denote the table or one of its sample lists
        alias: set[str] = set()
        uses_table = any(isinstance(n, ast.Name) and n.id in tables for n in p.nodes(f)) and f.module == gt.module
        if not uses_table:
            continue
        n_funcs += 1
        changed = True
        while changed:
            changed = False
            for n in p.nodes(f):
                src = tgt = None
                if isinstance(n, ast.For):
                    src, tgt = n.iter, n.target
                elif isinstance(n, ast.Assign) and len(n.targets) == 1:
                    src, tgt = n.value, n.targets[0]
                elif isinstance(n, ast.comprehension):
                    src, tgt = n.iter, n.target
                if src is None:
                    continue
                # a slice / list() / sum() of a sample list is a copy, not an alias
                root = src
                while isinstance(root, (ast.Attribute, ast.Call, ast.Subscript)):
                    if isinstance(root, ast.Subscript) and isinstance(root.slice, ast.Slice):
                        root = None
                        break
                    if isinstance(root, ast.Call):
                        if isinstance(root.func, ast.Attribute) and root.func.attr in ('values', 'items', 'get'):
                            root = root.func.value
                            continue
                        root = None
                        break
                    root = root.value
                if isinstance(root, ast.Name) and (root.id in tables or root.id in alias):
                    for x in ast.walk(tgt):
                        if isinstance(x, ast.Name) and x.id not in alias and x.id not in tables:
                            alias.add(x.id)
                            changed = True
        names = alias | tables
        for n in p.nodes(f):
            bad = None
            if isinstance(n, ast.Call) and isinstance(n.func, ast.Attribute) and n.func.attr in MUT:
                r = n.func.value
                while isinstance(r, (ast.Subscript, ast.Attribute)):
                    r = r.value
                if isinstance(r, ast.Name) and r.id in names:
                    bad = f'{norm(n)[:70]}'
            if isinstance(n, (ast.Delete, ast.Assign, ast.AugAssign)):
                tg = n.targets if isinstance(n, (ast.Delete, ast.Assign)) else [n.target]
                for t in tg:
                    if isinstance(t, ast.Subscript):
                        r = t.value
                        while isinstance(r, (ast.Subscript, ast.Attribute)):
                            r = r.value
                        if isinstance(r, ast.Name) and r.id in names:
                            bad = norm(n)[:70]
                    if isinstance(t, ast.Name) and t.id in tables and any(isinstance(g_, ast.Global) and t.id in g_.names for g_ in p.nodes(f)):
                        bad = norm(n)[:70]
            if bad:
                ctx.violate('T7', f, bad, f'{f.short}: {bad} changes the recorded samples outside the timing wrapper / clear_trace: later queries no longer cover every completed call', n)
    ctx.ok('T7', 'kfac.tracing', f'{n_funcs} other function(s) use the sample table read-only', None)

    # log_trace reports what get_trace computes for the same query
    lt = p.get_func('tracing.log_trace')
    gcalls = [c for c in p.calls_in(lt) if norm(c.func).split('.')[-1] == 'get_trace']
    ctx.check(len(gcalls) == 1, 'T5', lt, 'log_trace reports get_trace(...)', 'log_trace source', f'log_trace calls get_trace {len(gcalls)} time(s)', lt.node)
    for c in gcalls:
        bound = {}
        for i, a_ in enumerate(c.args):
            if i < len(gt.params):
                bound[gt.params[i]] = norm(a_)
        for k in c.keywords:
            if k.arg:
                bound[k.arg] = norm(k.value)
        for prm in gt.params:
            ctx.check(prm in lt.params and bound.get(prm) == prm, 'T5', lt, f'log_trace forwards {prm}', f'log_trace {prm}',
                      f'log_trace calls {norm(c)}: its argument {prm!r} is not forwarded to get_trace, so the logged statistic ignores it', c)

    # --- T6 clear_trace
    ct = p.get_func('tracing.clear_trace')
    cleared = set()
    for n in p.nodes(ct):
        if isinstance(n, ast.Call) and isinstance(n.func, ast.Attribute) and n.func.attr == 'clear' and isinstance(n.func.value, ast.Name):
            cleared.add(n.func.value.id)
        if isinstance(n, ast.Assign) and isinstance(n.targets[0], ast.Name) and isinstance(n.value, (ast.Dict,)) and not n.value.keys:
            if any(isinstance(g, ast.Global) and n.targets[0].id in g.names for g in p.nodes(ct)):
                cleared.add(n.targets[0].id)
    written = {k for k in tables if any(isinstance(n, ast.Name) and n.id == k for n in p.nodes(w))}
    guarded = [n for n in p.nodes(ct) if isinstance(n, (ast.If, ast.For, ast.While, ast.Return)) and not (isinstance(n, ast.Return) and n.value is None and n is ct.body[-1])]
    ctx.check(written <= cleared and bool(written) and not guarded, 'T6', ct, f'clears {sorted(cleared)} unconditionally', 'clear_trace',
              f'clear_trace does not unconditionally empty the table(s) {sorted(written)} written by the wrapper (cleared: {sorted(cleared)})', ct.node)
