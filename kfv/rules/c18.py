"""C18 — GPT-NeoX checkpoints gather and restore every layer factor."""
from __future__ import annotations

import ast
import re

from kfv import flow
from kfv.core import AnalysisIncomplete
from kfv.core import Ctx
from kfv.rules import memo_rules as MEMO
from kfv.model import norm
from kfv.rules import precond_rules as R
from kfv.rules import spmd_rules as S
from kfv.rules.spmd_rules import conjuncts

GP = 'gpt_neox.preconditioner.GPTNeoXKFACPreconditioner'
TECHNIQUE = ('SPMD guard rules (rank-label dataflow incl. file-system observations) over the four checkpoint methods of the GPT-NeoX family, '
             'guard analysis of the save / load statements, path-table agreement, gather-merge structure, barrier dominance; cache-coherence rule (dirty-flag skips must be raised by load_state_dict)')
EXPLANATION = (
    'kfac/gpt_neox/preconditioner.py cannot run here; it is analysed statically.  Every collective in state_dict / load_state_dict / '
    'save_factors_to_dir / load_factors_from_dir must be control-dependent only on rank-uniform conditions (file-system checks count as '
    'rank-local), so all ranks take part in the same collectives.  A layer is contributed / written exactly by its inverse worker, '
    'loaded exactly by the rank that gathers its factors (factor_worker(name) == get_rank(), matched by layer name), the second-order '
    'data recomputed there with the current damping when requested, files are written to and read from the same join(dir, name), every '
    'gathered partition is merged into the returned state, the hyper-parameters go through the base class, and the in-memory load ends '
    'in a barrier on every path that could have diverged.  Equality of saved and held tensors as values is not decided. A skip-guarded recomputation must be re-armed by every writer of the factors, load_state_dict included (MEMO-INVAL).')

NOT_DECIDED = 'equality of saved and held tensors as values'


def _atoms(p, f, n):  # noqa: ANN001, ANN202
    return [(re.sub(r'\s+', '', norm(a)), pol, g.via) for g in flow.guards(p, f, n) for a, pol in conjuncts(g.test, g.polarity)]


def rule_ckpt(ctx: Ctx) -> None:
    p = ctx.prog
    p.family = None
    ctx.rule('COH-SAVEGUARD', 'a layer is contributed to the gathered state / written to its file exactly by its inverse worker', floor=2)
    ctx.rule('COH-LOADGUARD', 'a layer is loaded exactly on the rank that gathers its factors, matched by name; second-order data recomputed there under compute_inverses with the current damping', floor=4)
    ctx.rule('TAB-PATH', 'per-layer files are written to and read from the same join(factor_checkpoint_dir, name)', floor=2)
    ctx.rule('TAB-GATHER', 'every gathered partition is merged into state_dict["layers"]; scalar state goes through the base class', floor=4)
    ctx.rule('DOM-BARRIER', 'the in-memory load ends in a barrier on every exit after ranks may have diverged; the directory is created before the save barrier', floor=2)
    sd = p.get_func(f'{GP}.state_dict')
    ld = p.get_func(f'{GP}.load_state_dict')
    sv = p.get_func(f'{GP}.save_factors_to_dir')
    lf = p.get_func(f'{GP}.load_factors_from_dir')
    inv_guard = {"get_rank()==self._assignment.inv_worker(name,'A')", "self._assignment.inv_worker(name,'A')==get_rank()"}
    fw_guard = {"cast(GPTNeoXAssignment,self._assignment).factor_worker(name,'A')==get_rank()", "get_rank()==cast(GPTNeoXAssignment,self._assignment).factor_worker(name,'A')",
                "self._assignment.factor_worker(name,'A')==get_rank()", "get_rank()==self._assignment.factor_worker(name,'A')"}
    # ---- mode dispatch: with a checkpoint directory the factors go through the directory, whatever else the state holds
    ctx.rule('COH-MODE', 'state_dict / load_state_dict use the directory mode exactly when factor_checkpoint_dir is set (and factors are wanted), independent of the state contents', floor=2)
    for f, callee, allowed in ((sd, 'save_factors_to_dir', {'include_factors'}), (ld, 'load_factors_from_dir', set())):
        cs = [c for c in p.calls_in(f) if isinstance(c.func, ast.Attribute) and c.func.attr == callee]
        if len(cs) != 1:
            ctx.violate('COH-MODE', f, callee, f'{f.name} calls {callee} {len(cs)} time(s); exactly one call under `factor_checkpoint_dir is not None` expected', f.node)
            continue
        ats = [(re.sub(r'\s+', '', norm(a_)), pol) for g_ in flow.guards(p, f, cs[0]) for a_, pol in conjuncts(g_.test, g_.polarity)]
        dir_ok = ('self.factor_checkpoint_dirisnotNone', True) in ats or ('self.factor_checkpoint_dirisNone', False) in ats
        extra = [(a_, pol) for a_, pol in ats if 'factor_checkpoint_dir' not in a_ and not (a_ in allowed and pol) and not (a_.startswith('not') and a_[3:] in allowed and not pol)]
        ctx.check(dir_ok and not extra, 'COH-MODE', f, f'{f.name}: {callee}() exactly when a checkpoint directory is configured', callee,
                  f'{f.name} reaches {callee}() under {ats}: with a checkpoint directory the per-layer files are the only copy of the factors, '
                  f'so the call must depend on factor_checkpoint_dir alone (extra conditions: {extra})', cs[0])
    # ---- save side
    # the contribution of this rank: the local list handed to all_gather_object (whatever it is called)
    gat = [n for n in p.nodes(sd) if isinstance(n, ast.Call) and norm(n.func).endswith('all_gather_object')]
    contrib = gat[0].args[1].id if len(gat) == 1 and len(gat[0].args) >= 2 and isinstance(gat[0].args[1], ast.Name) else 'partition'
    cinit = [n for n in p.nodes(sd) if isinstance(n, ast.Assign) and norm(n.targets[0]) == contrib]
    apps = [n for n in p.nodes(sd) if isinstance(n, ast.Call) and isinstance(n.func, ast.Attribute) and n.func.attr == 'append' and norm(n.func.value) == contrib]
    other_writes = [n for n in p.nodes(sd) if (isinstance(n, ast.Call) and isinstance(n.func, ast.Attribute) and norm(n.func.value) == contrib and n.func.attr in ('extend', 'insert', 'pop', 'remove', 'clear', 'sort', 'reverse'))
                    or (isinstance(n, (ast.Assign, ast.AugAssign, ast.Delete)) and any(isinstance(t, ast.Subscript) and norm(t.value) == contrib for t in (n.targets if not isinstance(n, ast.AugAssign) else [n.target])))
                    or (isinstance(n, ast.AugAssign) and norm(n.target) == contrib)]
    ctx.check(len(cinit) == 1 and norm(cinit[0].value) in ('[]', 'list()') and not other_writes, 'COH-SAVEGUARD', sd, f'state_dict: the contribution {contrib} starts empty and only grows by append', contrib,
              f'state_dict: the list handed to all_gather_object ({contrib}) is initialised by {[norm(n.value)[:60] for n in cinit]} and also changed by {[norm(n)[:60] for n in other_writes]}; it must start empty and receive only the inverse worker\'s appends',
              cinit[0] if cinit else sd.node)
    for a in apps:
        at = _atoms(p, sd, a)
        ok = any(x in inv_guard and pol for x, pol, via in at) and re.sub(r'\s+', '', norm(a.args[0])) == '(name,layer_state_dict)'
        ctx.check(ok, 'COH-SAVEGUARD', sd, 'state_dict: (name, layer state) contributed by the inverse worker', norm(a),
                  f'state_dict: {norm(a)} under {[(x, pol) for x, pol, v in at]}; a layer\'s factors must be contributed exactly by its inverse worker under its own name', a)
    if not apps:
        ctx.violate('COH-SAVEGUARD', sd, 'partition.append', 'state_dict never contributes layer states to the gathered partition', sd.node)
    saves = [n for n in p.nodes(sv) if isinstance(n, ast.Call) and norm(n.func) == 'torch.save']
    for c in saves:
        at = _atoms(p, sv, c)
        ok = any(x in inv_guard and pol for x, pol, via in at)
        ctx.check(ok, 'COH-SAVEGUARD', sv, 'save_factors_to_dir: file written by the inverse worker', norm(c),
                  f'save_factors_to_dir: {norm(c)} under {[(x, pol) for x, pol, v in at]}; each layer file must be written exactly by the layer\'s inverse worker', c)
    if not saves:
        ctx.violate('COH-SAVEGUARD', sv, 'torch.save', 'save_factors_to_dir never writes a file', sv.node)
    # ---- load side
    for f, label in ((ld, 'load_state_dict'), (lf, 'load_factors_from_dir')):
        loads = [(c, m) for c, m in R.layer_calls(ctx, f) if m == 'load_state_dict']
        for c, _m in loads:
            at = _atoms(p, f, c)
            pos = {x for x, pol, via in at if pol}
            okw = bool(pos & fw_guard)
            okn = label != 'load_state_dict' or 'found_name==name' in pos or 'name==found_name' in pos
            if label == 'load_state_dict':
                # the saved entry is *searched* by name: every saved entry is compared with every registered layer (nested
                # loops) — pairing the two sequences position by position (zip) only filters the pairs that happen to align
                lps = [lp for lp in flow.enclosing_loops(p, f, c) if isinstance(lp, ast.For)]
                zipped = [lp for lp in lps if any(isinstance(x, ast.Call) and isinstance(x.func, ast.Name) and x.func.id == 'zip' for x in ast.walk(lp.iter))]
                over_saved = any('.items()' in norm(lp.iter) and 'self._layers' not in norm(lp.iter) for lp in lps)
                over_reg = any('self._layers' in norm(lp.iter) for lp in lps)
                # or looked up by the layer's name in the saved dict (`layers[name]`, `layers.get(name)`)
                by_key = over_reg and any((isinstance(x, ast.Subscript) and isinstance(x.value, ast.Name) and 'layer' in x.value.id and isinstance(x.slice, ast.Name) and 'name' in x.slice.id)
                                          or (isinstance(x, ast.Call) and isinstance(x.func, ast.Attribute) and x.func.attr == 'get' and isinstance(x.func.value, ast.Name)
                                              and 'layer' in x.func.value.id and len(x.args) >= 1 and isinstance(x.args[0], ast.Name) and 'name' in x.args[0].id) for x in p.nodes(f))
                over_saved = over_saved or by_key
                ctx.check(not zipped and over_saved and over_reg, 'COH-LOADGUARD', f, 'load_state_dict: every saved entry is compared with every registered layer', norm(c) + ' search',
                          f'load_state_dict: {norm(c)[:80]} is reached from loops over {[norm(lp.iter)[:60] for lp in lps]}; the saved entry of a layer must be found by '
                          'searching all saved entries for the layer name (saved order is gather order, not registration order), not by pairing positions', c)
            ctx.check(okw and okn, 'COH-LOADGUARD', f, f'{label}: layer loaded on factor_worker(name) == get_rank(), matched by name', norm(c),
                      f'{label}: {norm(c)} under {sorted(pos)}; factors must be restored exactly on the rank that gathers and inverts the layer (factor_worker(name, "A") == get_rank()), for the entry with the same layer name', c)
        if not loads:
            ctx.violate('COH-LOADGUARD', f, label, f'{label} never restores a layer', f.node)
        comps = [(c, m) for c, m in R.layer_calls(ctx, f) if m in ('compute_a_inv', 'compute_g_inv')]
        for c, m in comps:
            at = _atoms(p, f, c)
            pos = {x for x, pol, via in at if pol}
            d = [k.value for k in c.keywords if k.arg == 'damping'] or c.args[:1]
            ok = 'compute_inverses' in pos and bool(pos & fw_guard) and bool(d) and norm(d[0]) == 'self.damping'
            ctx.check(ok, 'COH-LOADGUARD', f, f'{label}: {m} under compute_inverses on the loading rank with self.damping', norm(c),
                      f'{label}: {norm(c)} under {sorted(pos)}; second-order data must be recomputed on the loading rank exactly when compute_inverses, with the current damping', c)
        ctx.check({m for _c, m in comps} == {'compute_a_inv', 'compute_g_inv'}, 'COH-LOADGUARD', f, f'{label}: both factors are re-inverted', f'{label} both', f'{label} recomputes {sorted({m for _c, m in comps})}', f.node)
    # ---- paths: the file written for a layer is the file read for it (through locals, if any)
    import copy as _copy

    def resolved(f, e: ast.expr, depth: int = 0) -> str:  # noqa: ANN001
        class R(ast.NodeTransformer):
            def visit_Name(self, n: ast.Name) -> ast.AST:  # noqa: N802
                ds = p.local_defs(f, n.id)
                if isinstance(n.ctx, ast.Load) and len(ds) == 1 and depth < 4 and n.id not in f.params:
                    return ast.parse(resolved(f, ds[0], depth + 1), mode='eval').body
                return n
        return re.sub(r'\s+', '', norm(R().visit(_copy.deepcopy(e))))
    want = 'os.path.join(self.factor_checkpoint_dir,name)'
    save_calls = [c for c in p.calls_in(sv) if norm(c.func) == 'torch.save']
    load_calls = [c for c in p.calls_in(lf) if norm(c.func) == 'torch.load']
    ps = [resolved(sv, c.args[1]) if len(c.args) >= 2 else None for c in save_calls]
    pl = [resolved(lf, c.args[0]) if c.args else None for c in load_calls]
    ctx.check(ps == [want], 'TAB-PATH', sv, f'save path {ps}', 'save path', f'save_factors_to_dir writes to {ps}; specified {want} (one file per layer, named by the layer)', sv.node)
    ctx.check(pl == [want], 'TAB-PATH', lf, f'load path {pl}', 'load path', f'load_factors_from_dir reads {pl}; specified {want}', lf.node)
    objs = [resolved(sv, c.args[0]) for c in save_calls if c.args]
    ctx.check(len(objs) == 1 and objs[0] in ('layer.state_dict()', 'layer_state_dict'), 'TAB-PATH', lf, 'torch.save(layer.state_dict(), path) / torch.load(path)', 'save/load calls',
              f'files are written with {objs} and read by {[norm(c) for c in load_calls]}', lf.node)
    # ---- gather / merge
    txt = [re.sub(r'\s+', '', norm(st)) for st in sd.body]
    ok1 = any(t == 'state_dict=super().state_dict(include_factors=False)' for t in txt)
    ctx.check(ok1, 'TAB-GATHER', sd, 'scalar state from the base class', 'base state', 'state_dict does not start from super().state_dict(include_factors=False)', sd.node)
    gathers = [n for n in p.nodes(sd) if isinstance(n, ast.Call) and norm(n.func).endswith('all_gather_object')]
    okg = len(gathers) == 1 and len(gathers[0].args) >= 2 and isinstance(gathers[0].args[1], ast.Name) and gathers[0].args[1].id == contrib and bool(apps)
    ctx.check(okg, 'TAB-GATHER', sd, 'all ranks gather every partition', 'all_gather_object', f'state_dict gathers with {[norm(g)[:80] for g in gathers]}', sd.node)
    recv = norm(gathers[0].args[0]) if gathers and gathers[0].args else 'partitions'
    size = [n.value for n in p.nodes(sd) if isinstance(n, ast.Assign) and norm(n.targets[0]) == recv]

    def slots(e: ast.expr) -> str | None:
        """Number of slots of a receive list written as [None for _ in range(W)], [None] * W or W * [None]."""
        if isinstance(e, ast.ListComp) and len(e.generators) == 1 and not e.generators[0].ifs and norm(e.elt) == 'None' \
                and isinstance(e.generators[0].iter, ast.Call) and norm(e.generators[0].iter.func) == 'range' and len(e.generators[0].iter.args) == 1:
            return re.sub(r'\s+', '', norm(e.generators[0].iter.args[0]))
        if isinstance(e, ast.BinOp) and isinstance(e.op, ast.Mult):
            for a_, b_ in ((e.left, e.right), (e.right, e.left)):
                if isinstance(a_, ast.List) and len(a_.elts) == 1 and norm(a_.elts[0]) == 'None':
                    return re.sub(r'\s+', '', norm(b_))
        return None
    got_slots = [slots(v) for v in size]
    ctx.check(got_slots == ['get_world_size()'], 'TAB-GATHER', sd, 'one slot per rank of the world', 'partitions',
              f'the receive list is {[norm(v) for v in size]}; one slot per rank of the gathering group (the world) is required', sd.node)

    base_g = {g.text() for g in flow.guards(p, sd, gathers[0])} if gathers else set()

    def extra_guards(node: ast.AST) -> list[str]:
        return [g.text() for g in flow.guards(p, sd, node) if g.text() not in base_g]

    def merged(e: ast.expr, depth: int = 0) -> bool:
        """e denotes {k: v for every (k, v) of every element of the receive list}, without a filter."""
        if depth > 3:
            return False
        if isinstance(e, ast.DictComp) and len(e.generators) == 2 and not any(g.ifs for g in e.generators):
            g1, g2 = e.generators
            return norm(g1.iter) == recv and norm(g2.iter) == norm(g1.target) and isinstance(g2.target, ast.Tuple) and len(g2.target.elts) == 2 \
                and norm(e.key) == norm(g2.target.elts[0]) and norm(e.value) == norm(g2.target.elts[1])
        if isinstance(e, ast.Name):
            inits = [n for n in p.nodes(sd) if isinstance(n, ast.Assign) and norm(n.targets[0]) == e.id]
            if len(inits) == 1 and merged(inits[0].value, depth + 1):
                return True
            if len(inits) != 1 or norm(inits[0].value) not in ('{}', 'dict()'):
                return False
            for lp in [n for n in p.nodes(sd) if isinstance(n, ast.For) and norm(n.iter) == recv and not extra_guards(n)]:
                for st_ in ast.walk(lp):
                    if isinstance(st_, ast.Assign) and isinstance(st_.targets[0], ast.Subscript) and norm(st_.targets[0].value) == e.id:
                        inner = [x for x in flow.enclosing_loops(p, sd, st_) if isinstance(x, ast.For)]
                        gs = extra_guards(st_)
                        if len(inner) == 2 and not gs and norm(inner[-1].iter if inner[-1] is not lp else inner[0].iter) == norm(lp.target):
                            il = inner[-1] if inner[-1] is not lp else inner[0]
                            if isinstance(il.target, ast.Tuple) and len(il.target.elts) == 2 and norm(st_.targets[0].slice) == norm(il.target.elts[0]) and norm(st_.value) == norm(il.target.elts[1]):
                                return True
                    if isinstance(st_, ast.Call) and isinstance(st_.func, ast.Attribute) and st_.func.attr == 'update' and norm(st_.func.value) == e.id and len(st_.args) == 1 \
                            and norm(st_.args[0]) in (norm(lp.target), f'dict({norm(lp.target)})') and not extra_guards(st_):
                        return True
        return False
    stores = [n for n in p.nodes(sd) if isinstance(n, ast.Assign) and re.sub(r'\s+', '', norm(n.targets[0])) == "state_dict['layers']"]
    okm = len(stores) == 1 and merged(stores[0].value) and not extra_guards(stores[0])
    ctx.check(okm, 'TAB-GATHER', sd, 'every entry of every partition merged into state_dict["layers"]', 'merge',
              'state_dict does not merge every (name, state) of every gathered partition into the returned "layers"', stores[0] if stores else sd.node)
    ltxt = [re.sub(r'\s+', '', norm(st)) for st in ld.body]
    ctx.check(any(t == 'super().load_state_dict(state_dict,compute_inverses=False)' for t in ltxt) and any(t == "layers=state_dict.pop('layers',None)" for t in ltxt), 'TAB-GATHER', ld,
              'scalar state restored by the base class, layers handled here', 'base load', 'load_state_dict does not pop "layers" and delegate the scalar state to the base class', ld.node)
    # ---- barriers
    last = ld.body[-1]
    okb = isinstance(last, ast.Expr) and re.sub(r'\s+', '', norm(last)) == 'torch.distributed.barrier()'
    early = [n for n in p.nodes(ld) if isinstance(n, ast.Return)]
    loop_start = min((n.lineno for n in p.nodes(ld) if isinstance(n, ast.For)), default=10 ** 9)
    ctx.check(okb and all(r.lineno < loop_start for r in early), 'DOM-BARRIER', ld, 'load_state_dict ends in an unconditional barrier; early returns precede the per-layer work', 'load barrier',
              'load_state_dict does not end in torch.distributed.barrier() after the per-layer loading (ranks load different layers and would leave at different times)', last)
    mk = [n for n in p.nodes(sv) if isinstance(n, ast.Call) and norm(n.func) == 'os.makedirs']
    bars = [n for n in p.nodes(sv) if isinstance(n, ast.Call) and norm(n.func).endswith('distributed.barrier')]
    okd = bool(mk) and bool(bars) and mk[0].lineno < bars[0].lineno and all(bars[0].lineno < c.lineno for c in saves) and not flow.guards(p, sv, bars[0])
    ctx.check(okd, 'DOM-BARRIER', sv, 'directory created, then an unconditional barrier, then the files are written', 'save barrier',
              'save_factors_to_dir: the directory must exist on all ranks before any file is written (makedirs, then an unconditional barrier, then torch.save)', sv.node)


def run(ctx: Ctx) -> None:
    ctx.assumptions |= {'A2'}
    only = {f'{GP}.{m}' for m in ('state_dict', 'load_state_dict', 'save_factors_to_dir', 'load_factors_from_dir', '__init__')}
    ctx.do(S.rule_S1_S6, 'GPT', only=only)
    ctx.do(S.rule_S5, 'GPT')
    ctx.do(rule_ckpt)
    ctx.do(R.rule_damparg, [f'{GP}.load_state_dict', f'{GP}.load_factors_from_dir'])
    ctx.do(MEMO.rule_memo)
