"""C07 — KL clipping bounds the update and only rescales it."""
from __future__ import annotations

import ast

from kfv import defflags
from kfv.core import Ctx
from kfv.rules import memo_rules as MEMO
from kfv.model import norm
from kfv.rules import coh_rules as C
from kfv.rules import precond_rules as R
from kfv.rules import tensor_rules as TR

TECHNIQUE = ('normal form of the clip formula and of the per-layer inner-product terms per bias valuation; definite-assignment with flag '
             'partitioning and per-iteration scoping (stale loop-carried reads); None-safety (belief contradiction) of kl_clip; phase order; '
             'alias analysis of the gradient between preconditioning and write-back; cache-coherence rule; checkpoint key-table agreement for the clip hyper-parameters')
EXPLANATION = (
    '_compute_grad_scale is reduced to normal form: an accumulator starting at 0, one term <V_w, D_w>*lr^2 per layer plus <V_b, D_b>*lr^2 '
    'exactly for layers with bias (V split as all-but-last / last column, viewed with the parameter shapes), result '
    'min(1, sqrt(kl_clip/|S|)), 1.0 for S == 0; no local of the loop body is read without having been assigned in the same iteration '
    '(flag-partitioned definite assignment).  step() computes one scale after all preconditioning and before every write-back, None '
    'exactly when kl_clip is None, which the constructor must accept; update_grad multiplies exactly when a scale is given.  Between '
    'preconditioned_grad and update_grad nothing may write into storage aliased with a module gradient (abstract interpretation with '
    'alias labels, KAISA and GPT-NeoX layers).  That nu is numerically equal on all ranks and the bound as an inequality on values are not decided. Cached derivatives of lr / kl_clip must be invalidated by every writer (MEMO-*); kl_clip and lr are restored exactly when present in the state (TAB-SD); a receive buffer of broadcast_grad never aliases the module gradient.')

NOT_DECIDED = 'that nu is numerically equal on all ranks; the bound as an inequality on values'


def rule_def_flags(ctx: Ctx, funcs: list[str]) -> None:
    p = ctx.prog
    ctx.rule('DEF-FLAGS', 'every local that is read has been assigned on the same path / in the same loop iteration (flag-partitioned definite assignment)', floor=len(funcs))
    for fn in funcs:
        f = p.get_func(fn)
        cb = defflags.run(p, f)
        seen = set()
        for node, name, where, flags in cb.reports:
            if id(node) in seen:
                continue
            seen.add(id(node))
            fl = ', '.join(f'{"" if v else "not "}{a}' for a, v in sorted(flags) if 'is None' not in a or v)
            ctx.violate('DEF-FLAGS', f, f'{name} in {where}', f'{f.short}: `{name}` is read in `{where}` on a path ({fl}) where it was not assigned '
                        '(in a loop: only a value left over from an earlier iteration is visible)', node)
        if not seen:
            ctx.ok('DEF-FLAGS', f, f'{f.short}: all reads definitely assigned under every flag valuation', f.node)


def run(ctx: Ctx) -> None:
    ctx.do(R.rule_aff_clip)
    ctx.do(R.rule_null_kl)
    ctx.do(rule_def_flags, [f'{R.BP}._compute_grad_scale', 'gpt_neox.layer.GPTNeoXKFACEigenLayer.preconditioned_grad'])
    ctx.do(C.rule_dom_phase)
    ctx.do(TR.rule_own_writeback)
    ctx.do(TR.rule_alias_grad)
    ctx.do(TR.rule_gpt_layer)
    ctx.do(TR.rule_clip_shard)
    ctx.do(MEMO.rule_memo)
    ctx.do(C.rule_tab_sd)
