"""C03 — all ranks issue matching collectives and no rank ever stalls."""
from __future__ import annotations

from kfv.core import Ctx
from kfv.rules import assign_rules as AS
from kfv.rules import coh_rules as CO
from kfv.rules import role_rules as RO
from kfv.rules import dist_rules as D
from kfv.rules import tensor_rules as TR
from kfv.rules import bkt_rules as B
from kfv.rules import spmd_rules as R

TECHNIQUE = ('SPMD collective-matching analysis: resolved call graph (mypy-typed class-hierarchy analysis), '
             'rank-label dataflow with implicit flows, control-dependence guards of every call site with a '
             'collective effect, justification table, typestate of pending allreduce buckets')
EXPLANATION = (
    'Every call site in kfac/ that may (transitively) issue a torch.distributed collective is enumerated from the '
    'resolved call graph, for the KAISA family and the GPT-NeoX family separately.  For each site the analysis '
    'computes the conditions it is control-dependent on (enclosing tests, early returns/breaks; raise exits ignored), '
    'labels them with {rank, pipe} by a fixed-point dataflow from get_rank()/local_rank/get_coord().pipe through '
    'assignments, fields, calls and implicit flows, and demands that every rank-labelled condition is covered by a '
    'structural justification (membership predicate of the very group communicated on; MP-uniform predicate; '
    'primary-rank early return before a DP-group reduction; functions of the group itself).  Roots, group-creation '
    'arguments, loop iterables and iteration order around collectives are checked the same way.  This decides a '
    'necessary condition of the property for all world sizes, strategies, intervals and interleavings at once; it does '
    'not decide runtime sizes, shapes as numbers, or backend progress.')

NOT_DECIDED = 'runtime sizes and roots as numbers; backend progress; hooks re-entered without an intervening step'


def run(ctx: Ctx) -> None:
    ctx.assumptions |= {'A2', 'A3', 'A5'}
    ctx.do(R.rule_inventory)
    for fam, _ in R.FAMILIES:
        ctx.do(R.rule_S1_S6, fam)
        ctx.do(R.rule_S2, fam)
        ctx.do(R.rule_S3, fam)
        ctx.do(R.rule_S5, fam)
    ctx.do(R.rule_S8)
    ctx.do(B.rule_ts_bkt)
    ctx.do(TR.rule_tt_comm)
    ctx.do(D.rule_dom_valid)
    ctx.do(D.rule_rank_space)
    ctx.do(RO.rule_roles)
    ctx.do(CO.rule_coh_src)
    ctx.do(AS.rule_role_grp)
    from kfv.rules import dist_rules as _DR
    ctx.do(_DR.rule_contig)
