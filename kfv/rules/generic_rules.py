"""Rules that are not tied to one construct of the package: defects of the *language use* that break whatever the
function was for.  They are reported under a property only for functions in that property's anchor files."""
from __future__ import annotations

import ast
import json
import os

from kfv.core import Ctx
from kfv.model import norm

ONE_SHOT = {'reversed', 'iter', 'map', 'filter', 'zip', 'enumerate'}


def _anchor_files(prop: str) -> set[str]:
    here = os.path.dirname(os.path.dirname(os.path.dirname(os.path.abspath(__file__))))
    out: set[str] = set()
    try:
        for line in open(os.path.join(here, 'properties.jsonl')):
            d = json.loads(line)
            if d.get('id') == prop:
                for a in d.get('anchors', []):
                    t = a if isinstance(a, str) else json.dumps(a)
                    for w in t.replace('"', ' ').replace(',', ' ').replace(':', ' ').split():
                        if w.endswith('.py'):
                            out.add(w.split('kfac/', 1)[-1] if 'kfac/' in w else w)
    except OSError:
        pass
    return out


def rule_iter_once(ctx: Ctx) -> None:
    """ITER-ONCE: a local bound to a one-shot iterator (reversed / iter / map / filter / zip / enumerate / a generator
    expression) is consumed at most once: a second loop or comprehension over it sees nothing."""
    p = ctx.prog
    ctx.rule('ITER-ONCE', 'a local that holds a one-shot iterator is iterated at most once', floor=0)
    files = _anchor_files(ctx.prop)
    n = 0
    for f in p.functions():
        rel = p.modules[f.module].path.split('kfac/', 1)[-1]
        if files and rel not in files:
            continue
        for st in p.nodes(f):
            if not (isinstance(st, ast.Assign) and len(st.targets) == 1 and isinstance(st.targets[0], ast.Name)):
                continue
            v = st.value
            one_shot = isinstance(v, ast.GeneratorExp) or (isinstance(v, ast.Call) and isinstance(v.func, ast.Name) and v.func.id in ONE_SHOT)
            if not one_shot:
                continue
            name = st.targets[0].id
            if sum(1 for x in p.nodes(f) if isinstance(x, ast.Name) and x.id == name and isinstance(x.ctx, ast.Store)) != 1:
                continue
            n += 1
            consumers = [x for x in p.nodes(f) if (isinstance(x, ast.For) and isinstance(x.iter, ast.Name) and x.iter.id == name)
                         or (isinstance(x, ast.comprehension) and isinstance(x.iter, ast.Name) and x.iter.id == name)]
            consumers += [x for x in p.nodes(f) if isinstance(x, ast.Call) and isinstance(x.func, ast.Name) and x.func.id in ('list', 'tuple', 'sorted', 'sum', 'any', 'all', 'min', 'max', 'set', 'dict')
                          and len(x.args) >= 1 and isinstance(x.args[0], ast.Name) and x.args[0].id == name]
            ctx.check(len(consumers) <= 1, 'ITER-ONCE', f, f'{f.short}: one-shot iterator {name} consumed once', f'{f.short} {name}',
                      f'{f.short}: `{name} = {norm(v)[:60]}` is a one-shot iterator but is consumed {len(consumers)} times; every consumer after the first sees an empty sequence',
                      consumers[1] if len(consumers) > 1 else st)
    ctx.ok('ITER-ONCE', 'kfac', f'{n} locals holding one-shot iterators scanned', None)
