"""MEMO — lazily computed instance state must be keyed by, or invalidated with, everything it is derived from.

A *memo site* is an assignment `self.X = rhs` (or `self.D[key] = rhs`) that a method performs only when the cache is
empty (`self.X is None`, `key not in self.D`) and whose value it reads afterwards.  The value stays valid only while
its inputs keep their values, so

  MEMO-KEY     a parameter of the method that flows into rhs must be part of the emptiness test / the key
               (a per-call argument such as `damping` can change between calls), and
  MEMO-INVAL   every other method of the class hierarchy that assigns a field rhs reads must clear the cache
               under no stronger guard than the assignment.

Accumulators (`if self.B is None: self.B = x else: self.B = self.B + x`) are not memo sites: the slot is also
assigned when it is not empty.
"""
from __future__ import annotations

import ast

from kfv import flow
from kfv.core import AnalysisError
from kfv.core import Ctx
from kfv.model import Func
from kfv.model import Program
from kfv.model import norm
from kfv.rules.spmd_rules import conjuncts


def _self_attr(e: ast.AST) -> str | None:
    if isinstance(e, ast.Attribute) and isinstance(e.value, ast.Name) and e.value.id == 'self':
        return e.attr
    return None


def _empty_tests(slot: str, key: str | None, alias: str | None = None) -> set[tuple[str, bool]]:
    if key is not None and alias is not None:
        return {(f'{key} not in {alias}', True), (f'{key} in {alias}', False), (f'{key} not in self.{slot}', True), (f'{key} in self.{slot}', False)}
    if key is None:
        return {(f'self.{slot} is None', True), (f'self.{slot} is not None', False), (f"not hasattr(self, '{slot}')", True),
                (f"hasattr(self, '{slot}')", False)}
    return {(f'{key} not in self.{slot}', True), (f'{key} in self.{slot}', False)}


def _atoms(p: Program, f: Func, n: ast.AST) -> list[tuple[str, bool, ast.expr]]:
    out = []
    for g in flow.guards(p, f, n):
        for a, pol in conjuncts(g.test, g.polarity):
            out.append((norm(a), pol, g.test))
    return out


def _is_reset(v: ast.expr) -> bool:
    """None, an empty container, or a tuple of empty containers and generation stamps (plain field reads)."""
    if isinstance(v, ast.Constant) and v.value is None:
        return True
    if isinstance(v, (ast.Dict, ast.List, ast.Set)) and not (v.keys if isinstance(v, ast.Dict) else v.elts):
        return True
    if isinstance(v, ast.Call) and norm(v.func) in ('dict', 'list', 'set') and not v.args and not v.keywords:
        return True
    if isinstance(v, ast.Tuple):
        return all(_is_reset(x) or isinstance(x, ast.Constant) or (isinstance(x, ast.Attribute) and _self_attr(x) is not None)
                   or (isinstance(x, ast.UnaryOp) and isinstance(x.operand, ast.Constant)) for x in v.elts) and any(_is_reset(x) for x in v.elts)
    return False


def _root_self_attr(e: ast.expr) -> str | None:
    while isinstance(e, (ast.Subscript, ast.Attribute)):
        a = _self_attr(e)
        if a is not None:
            return a
        e = e.value
    return None


def memo_sites(p: Program, f: Func) -> list[dict]:
    assigns: dict[str, list] = {}
    for n in p.nodes(f):
        tgs = n.targets if isinstance(n, ast.Assign) else ([n.target] if isinstance(n, (ast.AugAssign, ast.AnnAssign)) else [])
        for t in tgs:
            a = _self_attr(t)
            if a is not None:
                if isinstance(n, ast.Assign) and _is_reset(n.value):
                    continue      # clearing the cache (possibly stamped with a generation) is not a second producer
                assigns.setdefault(a, []).append((n, None, None))
            elif isinstance(t, ast.Subscript) and _self_attr(t.value) is not None:
                assigns.setdefault(_self_attr(t.value), []).append((n, norm(t.slice), None))
            elif isinstance(t, ast.Subscript) and isinstance(t.value, ast.Name):
                # a local alias of a container held by self: resolved = self._cache[1]; resolved[k] = ...
                ds = p.local_defs(f, t.value.id)
                roots = {_root_self_attr(d) for d in ds}
                if len(ds) == 1 and None not in roots:
                    assigns.setdefault(roots.pop(), []).append((n, norm(t.slice), t.value.id))
    out = []
    for slot, lst in assigns.items():
        memo = []
        for n, key, alias in lst:
            if not isinstance(n, ast.Assign):
                memo = []
                break
            ats = _atoms(p, f, n)
            tests = _empty_tests(slot, key, alias)
            hit = [a for a in ats if (a[0], a[1]) in tests]
            # a disjunctive emptiness test (`self.X is None or self._k != arg`) is found through the whole test text
            if not hit:
                for g in flow.guards(p, f, n):
                    if g.polarity and isinstance(g.test, ast.BoolOp) and isinstance(g.test.op, ast.Or) and \
                            any((norm(v), True) in tests for v in g.test.values):
                        hit = [(norm(g.test), True, g.test)]
            if not hit:
                memo = []
                break
            memo.append((n, key, hit[0][2], alias))
        if not memo:
            continue
        # the cached value is read in this method (otherwise it is plain lazy construction of a sub-object)
        reads = [x for x in p.nodes(f) if isinstance(x, ast.Attribute) and isinstance(x.ctx, ast.Load) and _self_attr(x) == slot]
        reads += [x for _n, _k, _t, al in memo if al for x in p.nodes(f) if isinstance(x, ast.Name) and x.id == al and isinstance(x.ctx, ast.Load)]
        if not reads:
            continue
        for n, key, test, alias in memo:
            if isinstance(n.value, ast.Constant):
                continue
            out.append({'func': f, 'slot': slot, 'key': key, 'node': n, 'test': test, 'alias': alias})
    return out


def _slice_inputs(p: Program, f: Func, e: ast.expr, seen: set[str] | None = None) -> tuple[set[str], set[str]]:
    """(parameters, self fields) the value of e is derived from, through local definitions (flow-insensitive)."""
    seen = set() if seen is None else seen
    params: set[str] = set()
    fields: set[str] = set()
    for n in ast.walk(e):
        if isinstance(n, ast.Attribute) and isinstance(n.ctx, ast.Load):
            a = _self_attr(n)
            if a is not None:
                fields.add(a)
        if isinstance(n, ast.Name) and isinstance(n.ctx, ast.Load) and n.id != 'self':
            if n.id in seen:
                continue
            seen.add(n.id)
            defs = p.local_defs(f, n.id)
            if n.id in f.params and n.id != 'self':
                params.add(n.id)
            for d in defs:
                ps, fs = _slice_inputs(p, f, d, seen)
                params |= ps
                fields |= fs
    return params, fields


def _backing(p: Program, cls: str, name: str) -> set[str]:
    """Field names a read of self.<name> observes: the name itself, or the fields its property getter reads."""
    out = {name}
    for c in p.mro(cls) + p.subclasses(cls):
        g = c.getters.get(name)
        if g is not None:
            for n in p.nodes(g):
                a = _self_attr(n)
                if a is not None and isinstance(n.ctx, ast.Load):  # type: ignore[attr-defined]
                    out.add(a)
    return out


def _writers(p: Program, cls: str, fields: set[str]) -> list[tuple[Func, ast.AST, str]]:
    out = []
    seen = set()
    for c in p.mro(cls) + p.subclasses(cls):
        for m in list(c.methods.values()) + list(c.setters.values()):
            if m.qualname in seen or m.name == '__init__':
                continue
            seen.add(m.qualname)
            for n in p.nodes(m):
                tgs = n.targets if isinstance(n, ast.Assign) else ([n.target] if isinstance(n, (ast.AugAssign, ast.AnnAssign)) else [])
                for t in tgs:
                    for x in ([t] if not isinstance(t, (ast.Tuple, ast.List)) else list(t.elts)):
                        a = _self_attr(x)
                        if a is not None and a in fields:
                            out.append((m, n, a))
    return out


def _external_writers(p: Program, cls: str, fields: set[str]) -> list[tuple[Func, ast.AST, str, str]]:
    """Stores `<obj>.<field> = ...` from outside the class hierarchy (obj is not `self`): (function, node, field, obj text)."""
    mine = {c.fullname for c in p.mro(cls) + p.subclasses(cls)}
    out = []
    for g in p.functions():
        if g.cls in mine:
            continue
        for n in p.nodes(g):
            tgs = n.targets if isinstance(n, ast.Assign) else ([n.target] if isinstance(n, (ast.AugAssign, ast.AnnAssign)) else [])
            for t in tgs:
                if isinstance(t, ast.Attribute) and t.attr in fields and t.attr.startswith('_') and not (isinstance(t.value, ast.Name) and t.value.id == 'self'):
                    out.append((g, n, t.attr, norm(t.value)))
    return out


def _setter_fields(p: Program, cls: str, name: str) -> set[str]:
    """Assigning self.<name> through a property setter writes these fields."""
    out = set()
    for c in p.mro(cls) + p.subclasses(cls):
        s_ = c.setters.get(name)
        if s_ is not None:
            for n in p.nodes(s_):
                if isinstance(n, ast.Attribute) and isinstance(n.ctx, ast.Store):
                    a = _self_attr(n)
                    if a:
                        out.add(a)
    return out


def _clears(p: Program, m: Func, slot: str, keyed: bool) -> list[ast.AST]:
    out = []
    for n in p.nodes(m):
        if isinstance(n, ast.Assign):
            for t in n.targets:
                if _self_attr(t) == slot and (norm(n.value) in ('None', '{}', 'dict()') or keyed):
                    out.append(n)
        if isinstance(n, ast.Call) and isinstance(n.func, ast.Attribute) and n.func.attr in ('clear', 'pop', 'popitem') and _self_attr(n.func.value) == slot:
            out.append(n)
        if isinstance(n, ast.Delete):
            for t in n.targets:
                if _self_attr(t) == slot or (isinstance(t, ast.Subscript) and _self_attr(t.value) == slot):
                    out.append(n)
    return out


_FIXTURE = '''
class L:
    def __init__(self):
        self._c = None
        self._d = None
    def set_d(self, v):
        self._d = v
    def use(self, damping):
        if self._c is None:
            self._c = self._d + damping
        return self._c
'''


def selfcheck() -> None:
    """The detector must find the memo site of a built-in positive example on every run (the tree has none)."""
    import os
    import tempfile
    d = tempfile.mkdtemp(prefix='kfv_memo_')
    try:
        os.makedirs(os.path.join(d, 'kfac'))
        open(os.path.join(d, 'kfac', '__init__.py'), 'w').write('')
        open(os.path.join(d, 'kfac', 'fx.py'), 'w').write(_FIXTURE)
        p = Program(d, use_mypy=False)
        f = p.get_func('fx.L.use')
        s = memo_sites(p, f)
        if len(s) != 1 or s[0]['slot'] != '_c':
            raise AnalysisError('MEMO self-check: the memo site of the built-in example was not found')
        ps, fs = _slice_inputs(p, f, s[0]['node'].value)
        if ps != {'damping'} or fs != {'_d'}:
            raise AnalysisError(f'MEMO self-check: inputs of the built-in example are {ps}, {fs}')
        if [m.name for m, _n, _a in _writers(p, f.cls, {'_d'})] != ['set_d']:
            raise AnalysisError('MEMO self-check: writer of the input field not found')
    finally:
        import shutil
        shutil.rmtree(d, ignore_errors=True)


def rule_skip_key(ctx: Ctx) -> None:
    """MEMO-KEY, early-return form: `if self.S is not None and <still valid>: return` in a method that later assigns
    self.S from a per-call argument.  The validity test has to compare that argument (or a field stamped with it)."""
    p = ctx.prog
    ctx.rule('MEMO-KEY', 'a lazily cached value derived from a per-call argument is keyed by that argument', floor=0)
    n_meth = 0
    for f in p.functions():
        if f.cls is None or f.parent is not None or f.name == '__init__':
            continue
        n_meth += 1
        params = [x for x in f.params if x != 'self']
        if not params:
            continue
        rets = [n for n in p.nodes(f) if isinstance(n, ast.Return) and (n.value is None or isinstance(n.value, ast.Constant))]
        if not rets:
            continue
        # producers: self.S = expr with a parameter among the inputs of expr
        prods: dict[str, list[tuple[ast.Assign, set[str]]]] = {}
        stamped: dict[str, set[str]] = {}
        for n in p.nodes(f):
            if isinstance(n, ast.Assign):
                for t in n.targets:
                    a = _self_attr(t)
                    if a is not None and not _is_reset(n.value):
                        ps, _fs = _slice_inputs(p, f, n.value)
                        ps &= set(params)
                        if ps:
                            prods.setdefault(a, []).append((n, ps))
                            stamped.setdefault(a, set()).update(ps)
        if not prods:
            continue
        for r in rets:
            atoms = []
            for g in flow.guards(p, f, r):
                atoms += conjuncts(g.test, g.polarity)
            present = set()
            for a, pol in atoms:
                if isinstance(a, ast.Compare) and len(a.ops) == 1 and isinstance(a.comparators[0], ast.Constant) and a.comparators[0].value is None:
                    s_ = _self_attr(a.left)
                    if s_ is not None and ((isinstance(a.ops[0], ast.IsNot) and pol) or (isinstance(a.ops[0], ast.Is) and not pol)):
                        present.add(s_)
            names = {x.id for a, _pol in atoms for x in ast.walk(a) if isinstance(x, ast.Name)}
            gfields = {_self_attr(x) for a, _pol in atoms for x in ast.walk(a) if _self_attr(x) is not None}
            for slot in sorted(present & set(prods)):
                for n, ps in prods[slot]:
                    if n.lineno <= r.lineno:
                        continue
                    for prm in sorted(ps):
                        keyed = prm in names or any(prm in stamped.get(fl, set()) for fl in gfields if fl != slot)
                        ctx.check(keyed, 'MEMO-KEY', f, f'early return keeps self.{slot}; recomputation depends on {prm}', f'self.{slot} <- {prm} (early return)',
                                  f'{f.short}: returns early at line {r.lineno} while self.{slot} is present (guard: {[("" if pol else "not ") + norm(a) for a, pol in atoms]}) '
                                  f'although self.{slot} is computed from the argument {prm!r}, which the guard does not compare: '
                                  f'a call with a different {prm} keeps the value computed for an earlier one', r)
    ctx.ok('MEMO-KEY', 'kfac', f'{n_meth} methods scanned for early-return validity tests', None)


def rule_memo(ctx: Ctx) -> None:
    p = ctx.prog
    ctx.do(rule_dirty)
    ctx.do(rule_skip_key)
    ctx.do(rule_frozen)
    ctx.rule('MEMO-KEY', 'a lazily cached value derived from a per-call argument is keyed by that argument', floor=0)
    ctx.rule('MEMO-INVAL', 'a lazily cached value is cleared wherever a field it is derived from is assigned', floor=0)
    selfcheck()
    n_funcs = 0
    n_sites = 0
    for f in p.functions():
        if f.cls is None or f.parent is not None:
            continue
        n_funcs += 1
        for site in memo_sites(p, f):
            n_sites += 1
            slot, key, node, test = site['slot'], site['key'], site['node'], site['test']
            params, fields = _slice_inputs(p, f, node.value)
            fields.discard(slot)
            ttxt = norm(test) + ' ' + (key or '')
            keyparams, _kf = _slice_inputs(p, f, ast.parse(key, mode='eval').body) if key else (set(), set())
            for prm in sorted(params):
                keyed = prm in keyparams or any(isinstance(x, ast.Name) and x.id == prm for x in ast.walk(test))
                ctx.check(keyed, 'MEMO-KEY', f, f'self.{slot} cached per {prm}', f'self.{slot} <- {prm}',
                          f'{f.short}: self.{slot} is computed once (while {norm(test)}) from the argument {prm!r} and reused by later calls: '
                          f'a call with a different {prm} gets the value of an earlier one', node)
            watched: set[str] = set()
            for fl in fields:
                watched |= _backing(p, f.cls, fl)
            # generation stamps: fields compared in the guard of a reset of the cache in this method key the cache
            for rn in p.nodes(f):
                if isinstance(rn, ast.Assign) and any(_self_attr(t) == slot for t in rn.targets) and _is_reset(rn.value):
                    for g_ in flow.guards(p, f, rn):
                        for x in ast.walk(g_.test):
                            a_ = _self_attr(x)
                            if a_ is not None and a_ != slot:
                                watched -= _backing(p, f.cls, a_)
            # fields written through a property setter
            alias_of = {w: w for w in watched}
            for c in p.mro(f.cls) + p.subclasses(f.cls):
                for nm in c.setters:
                    if _setter_fields(p, f.cls, nm) & watched:
                        alias_of[nm] = nm
            by_func: dict[str, list] = {}
            for m, n, a in _writers(p, f.cls, set(alias_of)):
                by_func.setdefault(m.qualname, []).append((m, n, a))
            for g, n, a, obj in _external_writers(p, f.cls, watched):
                cl = [x for x in p.nodes(g) if isinstance(x, ast.Assign) and any(isinstance(t, ast.Attribute) and t.attr == slot and norm(t.value) == obj for t in x.targets)]
                wg = {(x[0], x[1]) for x in _atoms(p, g, n)}
                ok = any({(x[0], x[1]) for x in _atoms(p, g, c_)} <= wg for c_ in cl)
                ctx.check(ok, 'MEMO-INVAL', g, f'{g.short} assigns {obj}.{a} and clears {obj}.{slot}', f'self.{slot} vs {g.short}:{a}',
                          f'{g.short} assigns {obj}.{a} directly, which the cached self.{slot} ({f.short}) is derived from, without clearing {obj}.{slot}: '
                          f'{f.name} keeps returning the value computed from the old {a}', n)
            for q, ws in sorted(by_func.items()):
                m = ws[0][0]
                if m is f and all(_self_attr(t) == slot for _m, n, _a in ws for t in getattr(n, 'targets', [])):
                    continue
                # property setters are writers only through their callers (the callers are checked)
                if any(m is s_ for c in p.mro(f.cls) + p.subclasses(f.cls) for s_ in c.setters.values()):
                    continue
                clears = _clears(p, m, slot, key is not None)
                for _m, n, a in ws:
                    wg = {(x[0], x[1]) for x in _atoms(p, m, n)}
                    ok = any({(x[0], x[1]) for x in _atoms(p, m, c_)} <= wg for c_ in clears)
                    ctx.check(ok, 'MEMO-INVAL', m, f'{m.short} assigns {a} and clears self.{slot}', f'self.{slot} vs {m.short}:{a}',
                              f'{m.short} assigns self.{a}, which the cached self.{slot} ({f.short}) is derived from, without clearing the cache: '
                              f'later calls of {f.name} keep using the value computed from the old {a}', n)
    ctx.ok('MEMO-KEY', 'kfac', f'{n_funcs} methods scanned, {n_sites} lazily cached value(s); built-in positive example found', None)
    ctx.ok('MEMO-INVAL', 'kfac', f'{n_funcs} methods scanned, {n_sites} lazily cached value(s)', None)


def _flag_fields(p: Program, cls: str) -> set[str]:
    """Fields of the hierarchy that only ever hold True / False."""
    vals: dict[str, set[str]] = {}
    for c in p.mro(cls) + p.subclasses(cls):
        for m in c.methods.values():
            for n in p.nodes(m):
                if isinstance(n, ast.Assign):
                    for t in n.targets:
                        a = _self_attr(t)
                        if a is not None:
                            vals.setdefault(a, set()).add(norm(n.value) if isinstance(n.value, ast.Constant) else '?')
                elif isinstance(n, ast.AugAssign) and _self_attr(n.target):
                    vals.setdefault(_self_attr(n.target), set()).add('?')
    return {k for k, v in vals.items() if v and v <= {'True', 'False'} and 'True' in v and 'False' in v}


def rule_dirty(ctx: Ctx) -> None:
    """Dirty-flag form of the same obligation: `if not self.F ...: return` skips a recomputation; everything the
    skipped part reads must raise the flag when it changes, and arguments it reads must be part of the test."""
    p = ctx.prog
    n_skips = 0
    for f in p.functions():
        if f.cls is None or f.parent is not None or f.name == '__init__':
            continue
        flags = None
        for i, st in enumerate(f.body):
            if not (isinstance(st, ast.If) and not st.orelse and len(st.body) == 1 and isinstance(st.body[0], ast.Return)
                    and (st.body[0].value is None or norm(st.body[0].value) == 'None')):
                continue
            if flags is None:
                flags = _flag_fields(p, f.cls)
            used = [a for a, pol in conjuncts(st.test, True) if isinstance(a, ast.Attribute) and _self_attr(a) in flags and not pol]
            if not used:
                continue
            F = _self_attr(used[0])
            n_skips += 1
            rest = f.body[i + 1:]
            params: set[str] = set()
            fields: set[str] = set()
            written_here: set[str] = set()
            for r in rest:
                for n in ast.walk(r):
                    if isinstance(n, ast.Name) and isinstance(n.ctx, ast.Load) and n.id in f.params and n.id != 'self':
                        params.add(n.id)
                    a = _self_attr(n)
                    if a is not None:
                        if isinstance(n.ctx, ast.Load):  # type: ignore[attr-defined]
                            fields.add(a)
                        else:
                            written_here.add(a)
            test_names = {x.id for x in ast.walk(st.test) if isinstance(x, ast.Name)}
            for prm in sorted(params - test_names):
                ctx.violate('MEMO-KEY', f, f'skip in {f.name} ignores {prm}',
                            f'{f.short}: the early return under `{norm(st.test)}` skips a computation that depends on the argument {prm!r}: '
                            f'a call with a different {prm} keeps the result computed for an earlier value', st)
            watched: set[str] = set()
            for fl in fields - {F} - written_here:
                watched |= _backing(p, f.cls, fl)
            watched -= {F}
            names = set(watched)
            for c in p.mro(f.cls) + p.subclasses(f.cls):
                for nm in c.setters:
                    if _setter_fields(p, f.cls, nm) & watched:
                        names.add(nm)
            by_func: dict[str, list] = {}
            for m, n, a in _writers(p, f.cls, names):
                if m is f or any(m is s_ for c in p.mro(f.cls) + p.subclasses(f.cls) for s_ in c.setters.values()):
                    continue
                by_func.setdefault(m.qualname, []).append((m, n, a))
            for _q, ws in sorted(by_func.items()):
                m = ws[0][0]
                raises = [x for x in p.nodes(m) if isinstance(x, ast.Assign) and any(_self_attr(t) == F for t in x.targets) and norm(x.value) == 'True']
                for _m, n, a in ws:
                    v = getattr(n, 'value', None)
                    # a communication on the slot itself continues the update that raised the flag
                    if isinstance(v, ast.Call) and any(_self_attr(x) in _backing(p, f.cls, a) | {a} for arg in list(v.args) + [k.value for k in v.keywords] for x in ast.walk(arg)) \
                            and any(k in norm(v.func).lower() for k in ('reduce', 'broadcast', 'gather')):
                        continue
                    wg = {(x[0], x[1]) for x in _atoms(p, m, n)}
                    ok = any({(x[0], x[1]) for x in _atoms(p, m, r_)} <= wg for r_ in raises)
                    ctx.check(ok, 'MEMO-INVAL', m, f'{m.short} assigns {a} and raises self.{F}', f'self.{F} vs {m.short}:{a}',
                              f'{m.short} assigns self.{a}, which the computation skipped under `{norm(st.test)}` in {f.short} reads, without setting self.{F} = True: '
                              f'the stale result is kept', n)
    ctx.ok('MEMO-INVAL', 'kfac', f'{n_skips} flag-guarded skip(s) of a recomputation', None)


INIT_CTORS = {'zeros_like', 'zeros', 'ones_like', 'ones', 'full', 'full_like', 'eye', 'new_zeros', 'new_ones', 'new_full', 'arange', 'tensor'}
SINK_ARG0 = {'reduce_scatter', 'reduce_scatter_tensor', 'all_gather_into_tensor', 'broadcast', 'all_reduce', 'recv', 'irecv', 'reduce', 'scatter'}
INPLACE_M = {'copy_', 'add_', 'sub_', 'mul_', 'div_', 'zero_', 'fill_', 'addcmul_', 'addcdiv_', 'clamp_', 'neg_', 'sqrt_', 'set_', 'resize_', 'transpose_', 't_'}


def _module_containers(p: Program) -> set[str]:
    out = set()
    for m in p.modules.values():
        for st in m.tree.body:
            tg = st.targets[0] if isinstance(st, ast.Assign) and len(st.targets) == 1 else (st.target if isinstance(st, ast.AnnAssign) else None)
            v = getattr(st, 'value', None)
            if isinstance(tg, ast.Name) and v is not None and (isinstance(v, (ast.Dict, ast.List)) or (isinstance(v, ast.Call) and norm(v.func).split('.')[-1] in ('dict', 'list', 'defaultdict', 'OrderedDict'))):
                out.add(tg.id)
    return out


def rule_frozen(ctx: Ctx) -> None:
    """MEMO-FROZEN: a tensor (or list of tensors) with meaningful content (zeros, ones, eye ...) that is kept in a container
    which outlives the call is shared by every later call: nothing may write into it in place."""
    p = ctx.prog
    ctx.rule('MEMO-FROZEN', 'content-initialised tensors kept in a persistent container (module-level or instance cache) are never written in place', floor=0)
    globs = _module_containers(p)
    n_f = n_store = 0
    for f in p.functions():
        if f.parent is not None:
            continue
        n_f += 1
        nodes = p.nodes(f)
        # values stored into a persistent container
        cached: dict[str, ast.AST] = {}
        for n in nodes:
            if isinstance(n, ast.Assign) and len(n.targets) == 1 and isinstance(n.targets[0], ast.Subscript):
                base = n.targets[0].value
                persistent = (isinstance(base, ast.Name) and base.id in globs and not p.local_defs(f, base.id) and base.id not in f.params) or \
                             (isinstance(base, ast.Attribute) and norm(base).startswith('self.') and not isinstance(n.targets[0].slice, ast.Slice))
                if persistent and isinstance(n.value, ast.Name):
                    cached[n.value.id] = n
                    n_store += 1
        if not cached:
            continue
        for v, store in cached.items():
            # is the cached value content-initialised?
            init = False
            for d in p.local_defs(f, v):
                for c in ast.walk(d):
                    if isinstance(c, ast.Call) and norm(c.func).split('.')[-1] in INIT_CTORS:
                        init = True
            if not init:
                continue
            alias = {v}
            changed = True
            while changed:
                changed = False
                for n in nodes:
                    if isinstance(n, ast.Assign) and len(n.targets) == 1 and isinstance(n.targets[0], ast.Name) and n.targets[0].id not in alias:
                        src = n.value
                        while isinstance(src, ast.Subscript):
                            src = src.value
                        if isinstance(src, ast.Name) and src.id in alias:
                            alias.add(n.targets[0].id)
                            changed = True
            for n in nodes:
                hit = None
                if isinstance(n, ast.Call):
                    fn = norm(n.func).split('.')[-1]
                    a0 = n.args[0] if n.args else None
                    root = a0
                    while isinstance(root, ast.Subscript):
                        root = root.value
                    if fn in SINK_ARG0 and isinstance(root, ast.Name) and root.id in alias and ('dist' in norm(n.func) or 'distributed' in norm(n.func)):
                        hit = f'{norm(n)[:80]} receives into it'
                    if isinstance(n.func, ast.Attribute) and n.func.attr in INPLACE_M:
                        r2 = n.func.value
                        while isinstance(r2, ast.Subscript):
                            r2 = r2.value
                        if isinstance(r2, ast.Name) and r2.id in alias:
                            hit = f'{norm(n)[:80]} modifies it in place'
                    for k in n.keywords:
                        if k.arg == 'out' and isinstance(k.value, ast.Name) and k.value.id in alias:
                            hit = f'{norm(n)[:80]} writes its result into it'
                if isinstance(n, ast.AugAssign):
                    r3 = n.target
                    while isinstance(r3, ast.Subscript):
                        r3 = r3.value
                    if isinstance(r3, ast.Name) and r3.id in alias and isinstance(n.target, ast.Subscript):
                        hit = f'{norm(n)[:80]} updates it in place'
                if hit:
                    ctx.violate('MEMO-FROZEN', f, f'{v} cached in {norm(store.targets[0].value)}',
                                f'{f.short}: {v} is created with initial content and kept in {norm(store.targets[0].value)} for later calls, but {hit}: '
                                'the next call that takes it from the cache no longer finds the initial content', n)
    ctx.ok('MEMO-FROZEN', 'kfac', f'{n_f} functions scanned, {n_store} store(s) of a local into a persistent container', None)
