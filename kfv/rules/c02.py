"""C02 — distributed work placement is semantically transparent."""
from __future__ import annotations

from kfv.core import Ctx
from kfv.rules import role_rules as RO
from kfv.rules import tensor_rules as TR
from kfv.rules import coh_rules as C

TECHNIQUE = ('typestate shape of the future slots and of every communication result, coherence of root/group/factor arguments at the '
             'call sites of step()/hooks/load_state_dict, phase order by statement dominance, averaging divisor, strategy enum mapping; alias rules on the gradient slot (in-place sinks incl. out= and receive buffers, pooled storage)')
EXPLANATION = (
    'Necessary structural conditions of placement transparency are decided on every path: results of asynchronous '
    'communication are only reachable through awaiting accessors and are stored into the slot they communicate; factor '
    'reductions are averaged over the group communicated on; inverses are computed on the assigned rank and broadcast from '
    'it inside the layer\'s gradient-worker group, gradients from the rank\'s source inside its receiver group; the phases of '
    'a step run in the specified order; the strategy enum maps to the specified fractions.  Equality of gradients across '
    'configurations as values is not decided. The gradient slot never aliases the module gradient or a pooled buffer other layers can obtain, and the receive placeholder of broadcast_grad matches the source\'s dtype and sizes.')

NOT_DECIDED = 'equality of gradients across configurations as values; grid arithmetic'


def run(ctx: Ctx) -> None:
    ctx.do(C.rule_ts_fut)
    ctx.do(TR.rule_tt_comm)
    ctx.do(TR.rule_alias_input)
    ctx.do(C.rule_aff_avg)
    ctx.do(C.rule_coh_src)
    ctx.do(C.rule_dom_phase)
    ctx.do(C.rule_enum_strat)
    ctx.do(C.rule_enum_compute)
    ctx.do(RO.rule_roles)
    ctx.do(TR.rule_alias_grad)
    from kfv.rules import dist_rules as _DR
    ctx.do(_DR.rule_contig)
