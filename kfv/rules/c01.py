"""C01 — the preconditioned gradient solves the damped Kronecker-factored system."""
from __future__ import annotations

from kfv.core import Ctx
from kfv.rules import memo_rules as MEMO
from kfv.rules import coh_rules as C
from kfv.rules import precond_rules as R
from kfv.rules import tensor_rules as TR

TECHNIQUE = ('abstract interpretation of the layer algebra over named index spaces, physical units, dtype tokens and qualifiers '
             '(sym / orth / nonneg / damped), one run per configuration-flag valuation; symbolic hyper-parameter state at the call sites; cache-coherence rule (lazily cached state keyed by its arguments and cleared by every writer of its inputs); alias analysis of the factor slots against in-place sinks; polynomial normal form of the clip scale')
EXPLANATION = (
    'compute_a_inv, compute_g_inv and preconditioned_grad of both layer classes are evaluated abstractly for every valuation of '
    '(eigen / eigen+pre-divided / inverse): tensors carry named index spaces (the eigen-index space of a factor differs from the '
    'factor\'s own space, so a missing transpose or swapped outer product is a type error even for square layers), a unit '
    '(gradient, spectrum of A, spectrum of G) and a dtype token.  Decided: every product type-checks, the result lives over (G, A) '
    'with unit gradient/(lamG*lamA) and the gradient\'s own dtype; the damping parameter is added exactly at the specified site '
    '(eigen: to the (eG,eA) product of clamped spectra; inverse: damping*I to each factor before inv); both eigen paths agree; '
    'update_grad writes scale*grad back once and clears the slot; every second-order call receives the current damping property.  '
    'Not decided: numerical accuracy / conditioning-scaled tolerance, torch\'s eigh/inv, dimensionally consistent scalar slips. Lazily cached state (MEMO-KEY / MEMO-INVAL, incl. dirty-flag skips) must be keyed by per-call arguments such as damping and cleared wherever a field it derives from is assigned; the receive placeholder of the gradient broadcast must have the dtype and sizes of the source\'s slot.')

NOT_DECIDED = 'numerical accuracy / conditioning-scaled tolerance; torch eigh/inv; dimensionally consistent scalar slips'


def run(ctx: Ctx) -> None:
    ctx.do(TR.rule_tt_solve)
    ctx.do(TR.rule_own_writeback)
    ctx.do(TR.rule_tt_comm)
    ctx.do(R.rule_damparg, [f'{R.BP}.step', f'{R.BP}.load_state_dict'])
    ctx.do(C.rule_enum_compute)
    ctx.do(MEMO.rule_memo)
    # the system solved is the one of the *current* running factors: second-order code may read the factors, never
    # update them in place (damping added through an alias would accumulate in the stored factor)
    ctx.do(TR.rule_alias_input)
    # nu: the global clip scale the written-back gradient is multiplied with
    ctx.do(R.rule_aff_clip)
    from kfv.rules import dist_rules as _DR
    ctx.do(_DR.rule_contig)
