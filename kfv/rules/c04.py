"""C04 — Kronecker factors are decayed running averages of batch second moments."""
from __future__ import annotations

from kfv.core import Ctx
from kfv.rules import coh_rules as C
from kfv.rules import precond_rules as R
from kfv.rules import tensor_rules as TR
from kfv.rules.c10 import rule_num_prescale

TECHNIQUE = ('polynomial normal forms of the running-average / accumulation updates by symbolic evaluation per branch valuation; abstract '
             'interpretation of get_cov / bias column / conv normalisation over named index spaces with size coefficients and units; '
             'guard analysis of the hooks (training mode, factor interval); alias rule on factor slots; configuration-forwarding rule for the layer options')
EXPLANATION = (
    'update_a_factor / update_g_factor are evaluated symbolically for every valuation of (batch present, count > 1, factor present): the '
    'stored value must be alpha*old + (1-alpha)*new as a polynomial, the first old value the identity, the batch divided by the count '
    'exactly when count > 1 and cleared; save_layer_* accumulate (moment, 1) / (batch + moment, count + 1); reset_batch clears all four. '
    'get_cov types to a symmetric Gram matrix a^T a over the feature space with coefficient 1/rows; the bias column is constant 1 and '
    'last; convolution moments carry 1/(OH*OW) per factor taken from the right axes; the loss scale is divided out once; inputs are cast '
    'to the factor dtype first; hook effects are dominated by the training-mode test and the factor gate; reductions are averaged over '
    'the group communicated on.  Positive semi-definiteness beyond the Gram form and floating-point symmetry are not decided. Factor slots are rebound, never mutated in place; every base-layer option (factor_dtype, grad_scaler, ...) reaches every layer type unconditionally (CFG-FWD).')

NOT_DECIDED = 'semi-definiteness beyond the Gram form; floating-point symmetry; the cross-rank mean as a value'


def run(ctx: Ctx) -> None:
    ctx.do(TR.rule_alt_paths)
    ctx.do(TR.rule_aff_factor)
    ctx.do(TR.rule_tt_cov)
    ctx.do(TR.rule_layout)
    ctx.do(R.rule_gates)
    ctx.do(C.rule_aff_avg)
    ctx.do(C.rule_excl_hook)
    ctx.do(rule_num_prescale)
    ctx.do(TR.rule_alias_input)
    ctx.do(C.rule_cfg_fwd)
