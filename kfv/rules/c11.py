"""C11 — model-parallel sharding is transparent to GPT-NeoX preconditioning."""
from __future__ import annotations

from kfv.core import Ctx
from kfv.rules import memo_rules as MEMO
from kfv.rules import coh_rules as C
from kfv.rules import assign_rules as A
from kfv.rules import spmd_rules as S
from kfv.rules import tensor_rules as TR
from kfv.rules.c07 import rule_def_flags

TECHNIQUE = ('abstract interpretation of GPTNeoXKFACEigenLayer over named index spaces with shard / gathered axes and alias labels, one run per '
             'valuation of (parallelism, bias, mp > 1, primary); flag-partitioned definite assignment; SPMD guard rules for the GPT family; '
             'sibling agreement of the dual reductions; averaging divisor of the factor reduction')
EXPLANATION = (
    'kfac/gpt_neox cannot run here (no DeepSpeed); it is analysed statically.  preconditioned_grad is evaluated for all 12 consistent '
    'valuations of (input|output parallel) x (bias) x (mp>1) x (primary): the gathered gradient must have the unsharded layer\'s index '
    'spaces so that the eigen algebra type-checks, gather and split use the same dimension, scatter buffers match the chunks, every rank '
    'ends with exactly its shard, no collective writes into storage aliased with a module gradient, every local read is assigned in '
    'every valuation, gathers/broadcasts name the layer\'s primary rank.  The helper advertises unsharded factor shapes; the gathered '
    'tensor (primary only) feeds the moments; the two factor reductions are mirror images; rank-dependent guards of collectives are '
    'justified (J2/J3) and stage-confined.  Known finding F10: the clip scale is computed from local shards only.  Equality with the '
    'unsharded computation as values is not decided. The factor reduction is averaged over the group communicated on (AFF-AVG).')

NOT_DECIDED = 'equality with the unsharded computation as values'


def run(ctx: Ctx) -> None:
    ctx.do(TR.rule_gpt_layer)
    ctx.do(TR.rule_gpt_helper)
    ctx.do(rule_def_flags, ['gpt_neox.layer.GPTNeoXKFACEigenLayer.preconditioned_grad', 'gpt_neox.layer.GPTNeoXKFACEigenLayer.save_layer_input',
                            'gpt_neox.layer.GPTNeoXKFACEigenLayer.save_layer_grad_output', 'gpt_neox.mpu.gather_from_model_parallel_region',
                            'gpt_neox.mpu.split_tensor_along_dim'])
    only = {f'gpt_neox.layer.GPTNeoXKFACEigenLayer.{m}' for m in ('preconditioned_grad', 'reduce_a_factor', 'reduce_g_factor', 'save_layer_input', 'save_layer_grad_output')} \
        | {'gpt_neox.mpu.gather_from_model_parallel_region', 'base_preconditioner.BaseKFACPreconditioner.step', 'base_preconditioner.BaseKFACPreconditioner._save_input',
           'base_preconditioner.BaseKFACPreconditioner._save_grad_output'}
    ctx.do(S.rule_S1_S6, 'GPT', only=only)
    ctx.do(S.rule_S3, 'GPT')
    ctx.do(A.rule_role_grp)
    ctx.do(TR.rule_clip_shard)
    ctx.do(C.rule_aff_avg)
    ctx.do(MEMO.rule_memo)
