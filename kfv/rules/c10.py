"""C10 — a step touches nothing but the gradients of registered layers."""
from __future__ import annotations

import ast
import re

from kfv import flow
from kfv.core import Ctx
from kfv.rules import memo_rules as MEMO
from kfv.model import norm
from kfv.rules import c16
from kfv.rules import precond_rules as R
from kfv.rules import tensor_rules as TR
from kfv.rules.spmd_rules import conjuncts

TECHNIQUE = ('who-may-write analysis of parameter attributes, alias analysis (abstract interpretation with storage labels) of hook inputs, '
             'module gradients and factor slots against in-place sinks, decorator / return-value / guard analysis of the hooks, dtype and shape typing of the write-back; cache-coherence rule')
EXPLANATION = (
    'Stores to .grad of a torch module occur only in ModuleHelper.set_grad, reached only from KFACBaseLayer.update_grad over the '
    'registered layers; nothing stores to .data / .weight / .bias / requires_grad.  The tensors autograd hands to the hooks carry an '
    'alias label through views and .to(); any in-place sink (methods ending in _, augmented assignment, subscript store, collective '
    'outputs) reached with such a label is reported — the clone in save_layer_input is what makes the in-place transposes of the patch '
    'extraction legal.  step and both hooks run under torch.no_grad(), the hooks return None on every path and do nothing unless '
    'module.training; the written-back gradient has the gradient\'s dtype, each parameter\'s own shape, and is contiguous; hooks are '
    'installed once per registered module.  The 1/rows normalisation is applied before the contraction so the unnormalised Gram sum is '
    'never materialised in the factor dtype.  Finiteness as a numerical fact and device placement are not decided. Lazily cached state is keyed / invalidated (MEMO-*).')

NOT_DECIDED = 'finiteness as a numerical fact; device placement'


def rule_param_write(ctx: Ctx) -> None:
    p = ctx.prog
    p.family = None
    ctx.rule('OWN-PARAMWRITE', 'only ModuleHelper.set_grad stores into a parameter\'s .grad, only update_grad calls it; no store to .data / .weight / .bias / requires_grad', floor=3)
    for f in p.functions():
        for n in p.nodes(f):
            tg = []
            if isinstance(n, ast.Assign):
                tg = n.targets
            elif isinstance(n, (ast.AugAssign, ast.AnnAssign)):
                tg = [n.target]
            for t in tg:
                if not isinstance(t, ast.Attribute) or t.attr not in ('grad', 'data', 'weight', 'bias', 'requires_grad'):
                    continue
                recv = p.receiver_classes(f, t.value)
                if any(rc in p.classes for rc in recv):
                    continue     # attribute of a kfac object (layer.grad slot)
                ok = t.attr == 'grad' and f.name == 'set_grad' and f.cls and p.is_subclass(f.cls, 'kfac.layers.modules.ModuleHelper') and not isinstance(n, ast.AugAssign)
                ctx.check(bool(ok), 'OWN-PARAMWRITE', f, f'{f.short}: {norm(t)} = ...', norm(n)[:100],
                          f'{f.short} stores into {norm(t)}: parameters, buffers and gradients of the model may only be written by ModuleHelper.set_grad (the .grad of a registered module)', n)
        for c in p.calls_in(f):
            if isinstance(c.func, ast.Attribute) and c.func.attr == 'set_grad':
                ok = f.short == 'layers.base.KFACBaseLayer.update_grad'
                ctx.check(ok, 'OWN-PARAMWRITE', f, f'{f.short} calls set_grad', norm(c)[:80], f'{f.short} calls {norm(c)[:60]}: gradients are written back only by KFACBaseLayer.update_grad', c)
            if isinstance(c.func, ast.Attribute) and c.func.attr in ('requires_grad_', 'zero_grad', 'register_buffer', 'register_parameter', 'load_state_dict') and not any(
                    rc in p.classes for rc in p.receiver_classes(f, c.func.value)) and c.func.attr != 'load_state_dict':
                ctx.violate('OWN-PARAMWRITE', f, norm(c)[:80], f'{f.short} calls {norm(c)[:60]} on a model object', c)
    # update_grad is applied to the registered layers only
    st = p.get_func(f'{R.BP}.step')
    for c, m in R.layer_calls(ctx, st):
        if m == 'update_grad':
            loops = [lp for lp in flow.enclosing_loops(p, st, c) if isinstance(lp, ast.For)]
            ctx.check(len(loops) == 1 and 'self._layers.values()' in norm(loops[0].iter), 'OWN-PARAMWRITE', st, 'update_grad over the registered layers', norm(c),
                      'step(): update_grad is not applied exactly to the registered layers', c)


def rule_hooks(ctx: Ctx) -> None:
    p = ctx.prog
    ctx.rule('DEC-NOGRAD', 'step, _save_input and _save_grad_output run under torch.no_grad()', floor=3)
    ctx.rule('HOOK-RET', 'both hooks return None on every path (a non-None return would replace the module inputs / grad inputs)', floor=2)
    ctx.rule('DOM-EVAL', 'in eval mode the hooks have no effect: every effect is dominated by the module.training test', floor=6)
    for m in ('step', '_save_input', '_save_grad_output'):
        f = p.get_func(f'{R.BP}.{m}')
        ctx.check(any(d.replace(' ', '') in ('torch.no_grad()', 'torch.no_grad', 'torch.inference_mode()') for d in f.decorators), 'DEC-NOGRAD', f, f'{m} decorated with torch.no_grad()', m,
                  f'{m} is not decorated with torch.no_grad(): K-FAC bookkeeping would be recorded by autograd / could change gradients', f.node)
    for m in ('_save_input', '_save_grad_output'):
        f = p.get_func(f'{R.BP}.{m}')
        rets = [n for n in p.nodes(f) if isinstance(n, ast.Return)]
        bad = [r for r in rets if r.value is not None and not (isinstance(r.value, ast.Constant) and r.value.value is None)]
        ctx.check(not bad, 'HOOK-RET', f, f'{m} returns None everywhere', m,
                  f'{m} returns {[norm(b.value) for b in bad]}: a forward-pre hook / backward hook that returns a value replaces the module\'s input / grad_input', bad[0] if bad else f.node)
        mparam = f.params[1]
        effects = [c for c, _m in R.layer_calls(ctx, f)]
        effects += [n for n in p.nodes(f) if isinstance(n, (ast.Assign, ast.AugAssign)) and 'self.' in norm(n.targets[0] if isinstance(n, ast.Assign) else n.target)]
        for e in effects:
            atoms = [(norm(a), pol) for g in flow.guards(p, f, e) for a, pol in conjuncts(g.test, g.polarity)]
            ctx.check((f'{mparam}.training', True) in atoms, 'DOM-EVAL', f, f'{m}: {norm(e)[:50]} only in training mode', norm(e)[:100],
                      f'{m}: {norm(e)[:80]} is not guarded by `{mparam}.training`: an eval-mode pass would change K-FAC state', e)


def rule_num_prescale(ctx: Ctx) -> None:
    p = ctx.prog
    ctx.rule('NUM-PRESCALE', 'get_cov applies the 1/rows normalisation to an operand before the contraction', floor=1)
    f = p.get_func('layers.utils.get_cov')
    mms = [n for n in p.nodes(f) if isinstance(n, ast.BinOp) and isinstance(n.op, ast.MatMult)]
    sparam = f.params[2] if len(f.params) > 2 else 'scale'

    def is_scale(e: ast.AST, depth: int = 0) -> bool:
        """e is (derived from) the normalisation: the scale parameter or the number of rows, through locals."""
        t = norm(e)
        if re.search(rf'\b{re.escape(sparam)}\b', t) or '.size(0)' in t or '.shape[0]' in t:
            return True
        if depth < 3:
            for x in ast.walk(e):
                if isinstance(x, ast.Name) and isinstance(x.ctx, ast.Load):
                    if any(is_scale(d, depth + 1) for d in p.local_defs(f, x.id)):
                        return True
        return False
    for mm in mms:
        scaled = any(isinstance(x, ast.BinOp) and isinstance(x.op, (ast.Div, ast.Mult)) and (is_scale(x.right) or is_scale(x.left)) for side in (mm.left, mm.right) for x in ast.walk(side))
        par = p.parent(f.module, mm)
        outer = isinstance(par, ast.BinOp) and isinstance(par.op, (ast.Div, ast.Mult)) and is_scale(par.right if par.left is mm else par.left)
        ctx.check(scaled and not outer, 'NUM-PRESCALE', f, f'{norm(mm)}: operand scaled before the product', norm(mm),
                  f'get_cov computes {norm(par if outer else mm)}: the unnormalised Gram sum a^T a is materialised in the factor dtype before dividing by the number of rows; '
                  'with float16 factors it overflows for finite inputs (gradients become inf/NaN)', mm)
    if not mms:
        ctx.violate('NUM-PRESCALE', f, 'get_cov', 'get_cov contains no matrix product', f.node)


def run(ctx: Ctx) -> None:
    ctx.do(TR.rule_alt_paths)
    ctx.do(rule_param_write)
    ctx.do(TR.rule_alias_input)
    ctx.do(TR.rule_alias_grad)
    ctx.do(rule_hooks)
    ctx.do(TR.rule_tt_solve)
    ctx.do(TR.rule_layout)
    ctx.do(c16.rule_hookreg)
    ctx.do(rule_num_prescale)
    ctx.do(MEMO.rule_memo)
    from kfv.rules import c16 as C16
    ctx.do(C16.rule_register, 'layers.register.register_modules', False)
    ctx.do(C16.rule_register, 'gpt_neox.preconditioner.register_modules', True)
