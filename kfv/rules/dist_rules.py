"""Rules over kfac/distributed.py: bucketed allreduce (C08), triangular packing (C14), validation (C03/C14)."""
from __future__ import annotations

import ast
import re

from kfv import flow
from kfv.core import AnalysisError
from kfv.core import AnalysisIncomplete
from kfv.core import Ctx
from kfv.model import Func
from kfv.model import norm
from kfv.rules.spmd_rules import conjuncts
from kfv.terms import Normalizer
from kfv.terms import Poly

TDC = 'distributed.TorchDistributedCommunicator'
BKT = 'distributed.AllreduceTensorBucket'
COMM_FUNCS = ('allreduce', 'broadcast', 'allreduce_bucketed')


def ws(s: str) -> str:
    return re.sub(r'\s+', '', s)


def atoms_of(p, f: Func, n: ast.AST) -> list[tuple[str, bool, str]]:  # noqa: ANN001
    return [(ws(norm(a)), pol, g.via) for g in flow.guards(p, f, n) for a, pol in conjuncts(g.test, g.polarity)]


# --------------------------------------------------------------------------- validation / short-circuit

def rule_dom_valid(ctx: Ctx) -> None:
    p = ctx.prog
    ctx.rule('DOM-VALID', 'with symmetric=True a tensor that is not 2-D and square raises NonSquareTensorError before any packing, bucket or communication', floor=3)
    ctx.rule('SIB-VALID', 'the three copies of the shape validation agree', floor=1)
    ctx.rule('DOM-SHORT', 'a group of one rank returns the tensor before any bucket or communication is touched', floor=3)
    forms = {}
    for m in COMM_FUNCS:
        f = p.get_func(f'{TDC}.{m}')
        tparam = f.params[1]
        # first statement: single-member short circuit
        body = [st for st in f.body if not (isinstance(st, ast.Expr) and isinstance(st.value, ast.Constant))]
        st0 = body[0] if body else None
        ok = isinstance(st0, ast.If) and ws(norm(st0.test)) in ('get_world_size(group)==1', '1==get_world_size(group)', 'get_world_size(group)<=1', 'get_world_size(group)<2') \
            and len(st0.body) == 1 and isinstance(st0.body[0], ast.Return) and norm(st0.body[0].value) == tparam and not st0.orelse
        ctx.check(bool(ok), 'DOM-SHORT', f, f'{m}: `if get_world_size(group) == 1: return {tparam}` first', f'{m} short-circuit',
                  f'{m} does not begin with the single-member short circuit `if get_world_size(group) == 1: return {tparam}`: a world of one would communicate or wait on a bucket', st0 or f.node)
        # validation raise
        raises = [n for n in p.nodes(f) if isinstance(n, ast.Raise) and 'NonSquareTensorError' in norm(n)]
        sinks = [n for n in p.nodes(f) if isinstance(n, ast.Call) and (norm(n.func) in ('get_triu', 'dist.all_reduce', 'dist.broadcast', 'torch.distributed.all_reduce', 'torch.distributed.broadcast')
                                                                         or (isinstance(n.func, ast.Attribute) and n.func.attr in ('add_tensor', '_get_allreduce_bucket', '_new_allreduce_bucket')))]
        good = None
        for r in raises:
            at = atoms_of(p, f, r)
            tests = {a for a, pol, via in at if pol and via in ('if', 'boolop')}
            if 'symmetric' in tests:
                cond = [a for a in tests if a != 'symmetric']
                good = (r, cond)
        if good is None:
            ctx.violate('DOM-VALID', f, f'{m} validation', f'{m}: no `raise NonSquareTensorError` under `symmetric`', f.node)
            continue
        r, cond = good
        shp = None
        for n in p.nodes(f):
            if isinstance(n, ast.Assign) and isinstance(n.targets[0], ast.Name) and ws(norm(n.value)) in (f'{tparam}.size()', f'{tparam}.shape'):
                shp = n.targets[0].id
        c = ''.join(cond)
        want = {f'len({shp})!=2or{shp}[0]!={shp}[1]', f'{shp}[0]!={shp}[1]orlen({shp})!=2'}
        # the non-squareness test is an `or`: conjuncts() keeps it as one atom
        ctx.check(c in want, 'DOM-VALID', f, f'{m}: raises iff len(shape) != 2 or shape[0] != shape[1]', f'{m} validation test',
                  f'{m}: the symmetric-shape validation tests `{c}`; specified: len(shape) != 2 or shape[0] != shape[1] on the shape of the input tensor', r)
        forms[m] = c
        # dominance: the raise precedes every packing / communication statement on the symmetric path
        first_sink = min((n.lineno for n in sinks), default=None)
        ctx.check(first_sink is not None and r.lineno < first_sink and shp is not None, 'DOM-VALID', f, f'{m}: validation precedes packing and communication', f'{m} validation order',
                  f'{m}: the shape validation (line {r.lineno}) does not precede the first packing/communication statement (line {first_sink})', r)
        # validated shape is the shape of the *unpacked* input: shape taken before get_triu reassigns the tensor
        tri = [n for n in p.nodes(f) if isinstance(n, ast.Assign) and ws(norm(n.value)) == f'get_triu({tparam})']
        for n in p.nodes(f):
            if isinstance(n, ast.Assign) and isinstance(n.targets[0], ast.Name) and n.targets[0].id == shp:
                ctx.check(all(n.lineno < t.lineno for t in tri), 'DOM-VALID', f, f'{m}: shape captured before packing', f'{m} shape capture',
                          f'{m}: the shape used for validation / unpacking is read after the tensor was packed', n)
    if forms:
        ctx.check(len(set(forms.values())) == 1 and len(forms) == 3, 'SIB-VALID', 'kfac/distributed.py', 'identical validation in allreduce / broadcast / allreduce_bucketed', 'validation siblings',
                  f'the shape validation differs between the communication functions: {forms}', None)


# --------------------------------------------------------------------------- buckets

def rule_key_inj(ctx: Ctx) -> None:
    p = ctx.prog
    ctx.rule('KEY-INJ', 'the key of the open-bucket table determines the communicator: for a real group it is derived from the ranks of the group, not only from its size', floor=3)
    f = p.get_func(f'{TDC}.group_ranks')
    g = f.params[1]
    rets = [n for n in p.nodes(f) if isinstance(n, ast.Return) and n.value is not None]
    for r in rets:
        at = atoms_of(p, f, r)
        v = ws(norm(r.value))
        none_ok = any((a == f'{g}isNone' and pol) for a, pol, _ in at) or any(a == 'dist.is_initialized()' and not pol for a, pol, _ in at) \
            or any(a == f'{g}isNoneornotdist.is_initialized()' and pol for a, pol, _ in at)
        if 'get_process_group_ranks' in v:
            ctx.ok('KEY-INJ', f, f'real group keyed by its ranks: {norm(r.value)}', r)
        elif none_ok:
            ctx.ok('KEY-INJ', f, f'default group / no process group: {norm(r.value)}', r)
        else:
            ctx.violate('KEY-INJ', f, norm(r)[:120], f'group_ranks returns {norm(r.value)} for a real process group: two distinct groups of equal size get the same bucket key, '
                        'their tensors are fused into one allreduce on the wrong communicator', r)
    if not rets:
        ctx.violate('KEY-INJ', f, 'group_ranks', 'group_ranks returns nothing', f.node)
    # both accessors use the same key function of their group parameter
    for m in ('_get_allreduce_bucket', '_new_allreduce_bucket'):
        h = p.get_func(f'{TDC}.{m}')
        subs = [n for n in p.nodes(h) if isinstance(n, ast.Subscript) and norm(n.value) == 'self._allreduce_buckets']
        ok = bool(subs) and all(ws(norm(s.slice)) == f'self.group_ranks({h.params[1]})' for s in subs)
        ctx.check(ok, 'KEY-INJ', h, f'{m} indexes the table by self.group_ranks(group)', m, f'{m} indexes the bucket table by {[norm(s.slice) for s in subs]}', h.node)
    # the bucket is constructed for the group it is keyed by
    h = p.get_func(f'{TDC}._new_allreduce_bucket')
    cons = [n for n in p.nodes(h) if isinstance(n, ast.Call) and norm(n.func) == 'AllreduceTensorBucket']
    ctx.check(len(cons) == 1 and [norm(a) for a in cons[0].args] + [norm(k.value) for k in cons[0].keywords] == [h.params[1]], 'KEY-INJ', h,
              'new bucket communicates on the group it is keyed by', 'AllreduceTensorBucket(group)', f'the new bucket is built as {[norm(c) for c in cons]}', h.node)


def rule_bkt_dtype(ctx: Ctx) -> None:
    p = ctx.prog
    ctx.rule('BKT-DTYPE', 'tensors fused by one flatten() are dtype-homogeneous: the tensor dtype must influence the bucket choice (key or guard)', floor=1)
    f = p.get_func(f'{TDC}.allreduce_bucketed')
    uses = [n for n in p.nodes(f) if isinstance(n, ast.Attribute) and n.attr == 'dtype']
    for m in ('_get_allreduce_bucket', '_new_allreduce_bucket', 'group_ranks'):
        uses += [n for n in p.nodes(p.get_func(f'{TDC}.{m}')) if isinstance(n, ast.Attribute) and n.attr == 'dtype']
    b = p.get_func(f'{BKT}.add_tensor')
    # the bucket holds the caller's tensor itself: a converted copy changes the dtype (and values) the future resolves to
    tp = [a for a in b.params if a != 'self'][0]
    apps = [n for n in p.nodes(b) if isinstance(n, ast.Call) and isinstance(n.func, ast.Attribute) and n.func.attr in ('append', 'extend', 'insert')
            and norm(n.func.value) == 'self._tensors']
    rebound = [n for n in p.nodes(b) if isinstance(n, (ast.Assign, ast.AugAssign, ast.AnnAssign))
               and any(isinstance(x, ast.Name) and x.id == tp and isinstance(x.ctx, ast.Store) for t in (n.targets if isinstance(n, ast.Assign) else [n.target]) for x in ast.walk(t))]
    keep = ('contiguous', 'detach', 'view', 'reshape', 'flatten', 'clone')     # same dtype, same values
    rebound = [n for n in rebound if not (isinstance(n, ast.Assign) and isinstance(n.value, ast.Call) and isinstance(n.value.func, ast.Attribute)
                                          and n.value.func.attr in keep and norm(n.value.func.value) == tp)]
    ok_same = len(apps) == 1 and len(apps[0].args) == 1 and norm(apps[0].args[0]) == tp and not rebound
    ctx.check(ok_same, 'BKT-DTYPE', b, f'add_tensor stores the tensor it was given ({tp})', 'add_tensor stores',
              f'add_tensor stores {[norm(a) for a in apps]} with {tp} re-bound at {[norm(r)[:60] for r in rebound]}: the future resolves to the fused copy of what is stored, '
              'so a converted tensor changes dtype and rounding relative to the unbucketed allreduce', rebound[0] if rebound else b.node)
    ctx.check(bool(uses), 'BKT-DTYPE', f, 'bucket choice depends on tensor.dtype', 'allreduce_bucketed dtype',
              'neither the bucket key nor any guard depends on tensor.dtype: flatten() of a mixed-dtype bucket promotes, so a float16 tensor\'s future resolves to float32 '
              '(differs from the unbucketed allreduce)', f.node)


def rule_bucket_life(ctx: Ctx) -> None:
    p = ctx.prog
    ctx.rule('TS-BKTLIFE', 'bucket automaton open -(add)*-> communicated: no add_tensor after allreduce() on the same binding; a full bucket is communicated and replaced before the tensor is added', floor=2)
    ctx.rule('AFF-CAP', 'overflow test is size + incoming > capacity, evaluated before the tensor is added', floor=1)
    f = p.get_func(f'{TDC}.allreduce_bucketed')
    # typestate walk over the local holding the bucket
    adds = [n for n in p.nodes(f) if isinstance(n, ast.Call) and isinstance(n.func, ast.Attribute) and n.func.attr == 'add_tensor']
    if len(adds) != 1 or not isinstance(adds[0].func.value, ast.Name):
        raise AnalysisIncomplete('allreduce_bucketed: expected exactly one <bucket>.add_tensor(...) call on a local')
    bv = adds[0].func.value.id

    class CB(flow.DefaultCB):
        def __init__(self) -> None:
            self.errors: list[tuple[ast.AST, str]] = []

        def stmt(self, s, st):  # noqa: ANN001
            if isinstance(st, ast.Assign) and len(st.targets) == 1 and isinstance(st.targets[0], ast.Name) and st.targets[0].id == bv:
                v = ws(norm(st.value))
                if v.startswith('self._get_allreduce_bucket('):
                    return 'open|none'
                if v.startswith('self._new_allreduce_bucket('):
                    return 'open'
                return 'unknown'
            return s

        def expr(self, s, e, st):  # noqa: ANN001
            for c in flow.calls_in_order(e):
                if isinstance(c.func, ast.Attribute) and isinstance(c.func.value, ast.Name) and c.func.value.id == bv:
                    if c.func.attr == 'allreduce':
                        if s not in ('open', 'open|none'):
                            self.errors.append((c, f'{bv}.allreduce() on a bucket in state {s}'))
                        s = 'communicated'
                    elif c.func.attr == 'add_tensor':
                        if s != 'open':
                            self.errors.append((c, f'{bv}.add_tensor() on a bucket in state {s}'))
            return s

        def assume(self, s, test, pol):  # noqa: ANN001
            t = ws(norm(test))
            if t == f'{bv}isNone':
                if s == 'open|none':
                    return 'none' if pol else 'open'
            if t == f'{bv}isnotNone':
                if s == 'open|none':
                    return 'open' if pol else 'none'
            return s

        def join(self, a, b):  # noqa: ANN001
            if a == b:
                return a
            if {a, b} == {'open', 'none'}:
                return 'open|none'
            return f'{a}/{b}'
    cb = CB()
    flow.Walker(cb).run(f, 'unbound')
    if cb.errors:
        for n, msg in cb.errors:
            ctx.violate('TS-BKTLIFE', f, norm(n), f'allreduce_bucketed: {msg}: a tensor would be added to a bucket that is missing or already communicated (its future never resolves)', n)
    else:
        ctx.ok('TS-BKTLIFE', f, f'add_tensor only on an open bucket; allreduce() only before replacement ({bv})', adds[0])
    # AFF-CAP
    ifs = [n for n in p.nodes(f) if isinstance(n, ast.If) and any(isinstance(c, ast.Call) and isinstance(c.func, ast.Attribute) and c.func.attr == 'allreduce' for s_ in n.body for c in ast.walk(s_))]
    if len(ifs) != 1:
        ctx.violate('AFF-CAP', f, 'overflow test', f'allreduce_bucketed: expected one overflow test guarding {bv}.allreduce(), found {len(ifs)}', f.node)
    else:
        t = ifs[0].test
        env = {}
        for n in p.nodes(f):
            if isinstance(n, ast.Assign) and isinstance(n.targets[0], ast.Name) and n.targets[0].id != bv and n.lineno < ifs[0].lineno:
                env[n.targets[0].id] = n.value
        tparam = f.params[1]
        nz = Normalizer({k: v for k, v in env.items() if k != tparam and not (isinstance(v, ast.Call) and 'get_triu' in norm(v))})
        ok = False
        if isinstance(t, ast.Compare) and len(t.ops) == 1 and isinstance(t.ops[0], (ast.Gt, ast.Lt)):
            l, r = nz.poly(t.left), nz.poly(t.comparators[0])
            diff = (l - r) if isinstance(t.ops[0], ast.Gt) else (r - l)
            want = Poly.atom(f'{bv}.size') + Poly.atom(f'{tparam}.element_size()') * Poly.atom(f'{tparam}.nelement()') - Poly.atom('self.bucket_cap_bytes')
            alt = Poly.atom(f'{bv}.size') + Poly.atom(f'{tparam}.element_size()') * Poly.atom(f'{tparam}.numel()') - Poly.atom('self.bucket_cap_bytes')
            ok = diff in (want, alt)
        ctx.check(ok, 'AFF-CAP', f, f'overflow iff {bv}.size + tensor bytes > bucket_cap_bytes', norm(t),
                  f'allreduce_bucketed: the overflow test is `{norm(t)}`; specified: current bucket size + incoming tensor bytes > capacity (strict), so a bucket never exceeds the cap unless it holds one oversized tensor', t)
        ctx.check(ifs[0].lineno < adds[0].lineno, 'AFF-CAP', f, 'capacity test precedes add_tensor', 'cap order', 'the capacity test runs after the tensor was added', ifs[0])
        body = [ws(norm(s_)) for s_ in ifs[0].body]
        ctx.check(body == [f'{bv}.allreduce()', f'{bv}=self._new_allreduce_bucket(group)'], 'TS-BKTLIFE', f, 'full bucket communicated, then replaced', 'overflow body',
                  f'on overflow allreduce_bucketed runs {body}; specified: communicate the full bucket, then replace it', ifs[0])
    # incoming size measured on the tensor actually added (after symmetric packing)
    tri = [n for n in p.nodes(f) if isinstance(n, ast.Assign) and ws(norm(n.value)) == f'get_triu({f.params[1]})']
    szs = [n for n in p.nodes(f) if isinstance(n, ast.Assign) and 'element_size()' in norm(n.value)]
    ctx.check(bool(szs) and all(t.lineno < s_.lineno for t in tri for s_ in szs) and ws(norm(adds[0])) == f'{bv}.add_tensor({f.params[1]})', 'AFF-CAP', f,
              'incoming size is the size of the (packed) tensor that is added', 'tensor_size', 'the incoming size is not measured on the tensor that is added to the bucket', adds[0])


def rule_pair_tf(ctx: Ctx) -> None:
    p = ctx.prog
    ctx.rule('PAIR-TF', 'bucket: tensors and futures are appended pairwise and resolved by one zip in the same order; size accounting in bytes; single communication', floor=6)
    f = p.get_func(f'{BKT}.add_tensor')
    tparam = f.params[1]
    body = [ws(norm(st)) for st in f.body if not (isinstance(st, ast.Expr) and isinstance(st.value, ast.Constant))]
    futv = None
    for st in f.body:
        if isinstance(st, (ast.Assign, ast.AnnAssign)) and 'Future()' in norm(st.value):
            futv = norm(st.targets[0] if isinstance(st, ast.Assign) else st.target)
    ctx.check(futv is not None and f'self._tensors.append({tparam})' in body and f'self._futures.append({futv})' in body, 'PAIR-TF', f, 'tensor and its future appended together', 'append pair',
              f'add_tensor does not append the tensor and its new future pairwise: {body}', f.node)
    rets = [n for n in p.nodes(f) if isinstance(n, ast.Return)]
    ctx.check(len(rets) == 1 and norm(rets[0].value) == futv, 'PAIR-TF', f, 'returns the appended future', 'return future', f'add_tensor returns {norm(rets[0].value) if rets else None}, not the future it appended', f.node)
    szok = any(b in (f'self._size+={tparam}.element_size()*{tparam}.nelement()', f'self._size+={tparam}.nelement()*{tparam}.element_size()',
                     f'self._size+={tparam}.element_size()*{tparam}.numel()', f'self._size+={tparam}.numel()*{tparam}.element_size()') for b in body)
    ctx.check(szok, 'PAIR-TF', f, 'size grows by the bytes of the tensor', '_size', f'add_tensor does not add element_size()*nelement() of the tensor to the bucket size: {body}', f.node)
    g = p.get_func(f'{BKT}.allreduce')
    txt = [ws(norm(n)) for n in p.nodes(g) if isinstance(n, (ast.Assign, ast.Expr, ast.For))]
    cb = [h for h in p.funcs.values() if h.parent is g and h.kind == 'nested']
    ctxt = ' '.join(ws(norm(st)) for h in cb for st in h.body)
    def res(h: Func, e: ast.expr, depth: int = 0) -> ast.expr:
        """e with single-definition locals of h replaced by their definitions."""
        while isinstance(e, ast.Name) and depth < 4:
            ds = p.local_defs(h, e.id)
            if len(ds) != 1:
                break
            e = ds[0]
            depth += 1
        return e
    ok = 'flatten(self._tensors)' in ' '.join(txt)
    okz = False
    for h in cb:
        prm = h.params[0] if h.params else None
        for lp in [n for n in p.nodes(h) if isinstance(n, ast.For) and isinstance(n.target, ast.Tuple) and len(n.target.elts) == 2]:
            it = lp.iter
            if not (isinstance(it, ast.Call) and norm(it.func) == 'zip' and len(it.args) == 2 and ws(norm(it.args[1])) == 'self._futures'):
                continue
            tv, fv = norm(lp.target.elts[0]), norm(lp.target.elts[1])
            sets = [c for st in lp.body for c in ast.walk(st) if isinstance(c, ast.Call) and isinstance(c.func, ast.Attribute) and c.func.attr == 'set_result']
            paired = len(sets) == 1 and norm(sets[0].func.value) == fv and len(sets[0].args) == 1 and norm(sets[0].args[0]) == tv and not flow.guards(p, h, sets[0])
            src = res(h, it.args[0])
            unfl = isinstance(src, ast.Call) and norm(src.func).split('.')[-1] in ('unflatten', '_unflatten_dense_tensors') and len(src.args) == 2 \
                and ws(norm(src.args[1])) == 'self._tensors' and ws(norm(res(h, src.args[0]))) == f'{prm}.value()'
            if paired:
                ok = ok and True
                okz = unfl
                break
        else:
            continue
        break
    else:
        ok = False
    ctx.check(ok and any(True for _ in cb), 'PAIR-TF', g, 'flatten(tensors) / zip(results, futures) resolved pairwise in order', 'resolve',
              'the bucket does not resolve future i with the i-th slice of the reduced flat tensor (flatten / unflatten / zip over _tensors and _futures)', g.node)
    ctx.check(okz, 'PAIR-TF', g, 'the zipped list is unflatten(value, self._tensors)', 'zip source', 'the futures are resolved from something else than the unflattened result', g.node)
    # communicated flag: raise when already communicated, set before communicating
    raises = [n for n in p.nodes(g) if isinstance(n, ast.Raise)]
    okr = any(('self.communicated()', True, 'if') in atoms_of(p, g, r) or ('self._communicated', True, 'if') in atoms_of(p, g, r) for r in raises)
    sets = [n for n in p.nodes(g) if isinstance(n, ast.Assign) and ws(norm(n)) == 'self._communicated=True']
    ctx.check(okr and len(sets) == 1 and not flow.enclosing_guards(p, g, sets[0]), 'PAIR-TF', g, 'a bucket is communicated exactly once', 'communicated flag',
              'AllreduceTensorBucket.allreduce does not refuse a second communication / mark the bucket communicated unconditionally', g.node)
    calls = [n for n in p.nodes(g) if isinstance(n, ast.Call) and norm(n.func) in ('dist.all_reduce', 'torch.distributed.all_reduce')]
    okc = len(calls) == 1 and {k.arg: ws(norm(k.value)) for k in calls[0].keywords}.get('group') == 'self._group'
    ctx.check(okc, 'PAIR-TF', g, 'one all_reduce of the flat tensor on the bucket group', 'all_reduce', f'bucket communication is {[norm(c)[:80] for c in calls]}', g.node)


def rule_sib_cb(ctx: Ctx) -> None:
    p = ctx.prog
    ctx.rule('SIB-CB', 'post-processing of the bucketed path equals the unbucketed one (average by the same group; refill when symmetric)', floor=1)
    a = p.get_func(f'{TDC}.allreduce')
    b = p.get_func(f'{TDC}.allreduce_bucketed')

    def cb_norm(f: Func) -> tuple[list[str], str]:
        hs = [h for h in p.funcs.values() if h.parent is f and h.kind == 'nested']
        if len(hs) != 1:
            raise AnalysisIncomplete(f'{f.short}: expected one nested callback')
        h = hs[0]
        prm = h.params[0]
        out = []
        for st in h.body:
            if isinstance(st, ast.Expr) and isinstance(st.value, ast.Constant):
                continue
            t = ws(norm(st)).replace(f'{prm}.value()[0]', 'VALUE').replace(f'{prm}.value()', 'VALUE')
            out.append(t)
        # returned through future.then(callback)
        rets = [ws(norm(n.value)) for n in p.nodes(f) if isinstance(n, ast.Return) and n.value is not None and 'then(' in norm(n.value)]
        return out, (rets[0].replace(f'.then({h.name})', '.then(CALLBACK)') if rets else '')
    ca, ra = cb_norm(a)
    cbb, rb = cb_norm(b)
    # the two callbacks are compared by value in the four worlds (average, symmetric), not by their text
    from kfv.rules.coh_rules import callback_worlds
    wa, wb = callback_worlds(p, a), callback_worlds(p, b)
    diff = [(k, wa[k][0], wb[k][0]) for k in sorted(wa) if wa[k][0] != wb[k][0]]
    ctx.check(not diff, 'SIB-CB', b, 'callbacks agree in every (average, symmetric) world', 'callback bodies',
              'the bucketed post-processing differs from the unbucketed one: ' + '; '.join(f'average={k[0]}, symmetric={k[1]}: {y} vs {x}' for k, x, y in diff), b.node)
    ctx.check(ra.endswith('.then(CALLBACK)') and rb.endswith('.then(CALLBACK)'), 'SIB-CB', b, 'both return future.then(<their callback>)', 'then', f'returned futures: {ra} / {rb}', b.node)
    want = {(True, True): {'fill_triu(shape,VALUE*get_world_size(group)^-1)', 'fill_triu(shape,VALUE)*get_world_size(group)^-1'}, (True, False): {'VALUE*get_world_size(group)^-1'},
            (False, True): {'fill_triu(shape,VALUE)'}, (False, False): {'VALUE'}}
    bad = [(k, wb[k][0]) for k in sorted(wb) if wb[k][0] not in want[k]]
    ctx.check(not bad, 'SIB-CB', b, 'average by get_world_size(group), refill the symmetric matrix', 'callback form',
              'bucketed post-processing: ' + '; '.join(f'average={k[0]}, symmetric={k[1]} -> {v}' for k, v in bad) + '; specified: VALUE / get_world_size(group) when average, fill_triu(shape, .) when symmetric', b.node)
    # the future post-processed is the one add_tensor returned
    thens = [n for n in p.nodes(b) if isinstance(n, ast.Return) and n.value is not None and 'then(' in norm(n.value)]
    src = norm(thens[0].value.func.value) if thens and isinstance(thens[0].value, ast.Call) and isinstance(thens[0].value.func, ast.Attribute) else None
    defs = p.local_defs(b, src) if src else []
    direct = bool(src) and src.endswith(')') and '.add_tensor(' in src and isinstance(thens[0].value.func.value, ast.Call) and isinstance(thens[0].value.func.value.func, ast.Attribute) \
        and thens[0].value.func.value.func.attr == 'add_tensor'
    ctx.check(direct or (len(defs) == 1 and 'add_tensor(' in norm(defs[0])), 'SIB-CB', b, 'the returned future is chained to the one add_tensor returned', 'future source', f'the returned future derives from {[norm(d) for d in defs]}', b.node)


def rule_ts_flush(ctx: Ctx) -> None:
    p = ctx.prog
    ctx.rule('TS-FLUSH', 'flush communicates every open bucket and resets every entry; nothing stays pending', floor=3)
    f = p.get_func(f'{TDC}.flush_allreduce_buckets')
    loops = [n for n in p.nodes(f) if isinstance(n, ast.For)]
    if len(loops) != 1:
        raise AnalysisIncomplete('flush_allreduce_buckets: expected one loop over the bucket table')
    lp = loops[0]
    it = ws(norm(lp.iter))
    ctx.check(it in ('self._allreduce_buckets.items()', 'list(self._allreduce_buckets.items())') and isinstance(lp.target, ast.Tuple) and len(lp.target.elts) == 2, 'TS-FLUSH', f,
              'iterates every (key, bucket) of the table', 'flush loop', f'flush iterates {norm(lp.iter)}', lp)
    exits = [n for n in ast.walk(lp) if isinstance(n, (ast.Return, ast.Break))]
    ctx.check(not exits, 'TS-FLUSH', f, 'no early exit from the flush loop', 'flush exits',
              f'flush leaves its loop early ({[norm(e) for e in exits]}): buckets after the first such entry stay pending and their futures never resolve', exits[0] if exits else lp)
    if isinstance(lp.target, ast.Tuple) and len(lp.target.elts) == 2:
        kv, bv = [norm(e) for e in lp.target.elts]
        calls = [n for n in ast.walk(lp) if isinstance(n, ast.Call) and ws(norm(n)) == f'{bv}.allreduce()']
        okc = len(calls) == 1 and {(a, pol) for a, pol, via in atoms_of(p, f, calls[0])} <= {(f'{bv}isnotNone', True), (f'{bv}isNone', False)}
        ctx.check(okc, 'TS-FLUSH', f, 'every non-empty entry is communicated', 'flush communicate',
                  f'flush does not call {bv}.allreduce() for every entry that is not None (guards: {atoms_of(p, f, calls[0]) if calls else "no call"})', calls[0] if calls else lp)
        resets = [n for n in ast.walk(lp) if isinstance(n, ast.Assign) and ws(norm(n)) == f'self._allreduce_buckets[{kv}]=None']
        okr = len(resets) == 1 and {(a, pol) for a, pol, via in atoms_of(p, f, resets[0])} <= {(f'{bv}isnotNone', True), (f'{bv}isNone', False)}
        ctx.check(okr, 'TS-FLUSH', f, 'every communicated entry is reset', 'flush reset', 'flush does not reset the entry of every bucket it communicated', resets[0] if resets else lp)


# --------------------------------------------------------------------------- triangular packing

def _triu_calls(p, f: Func) -> dict[str, list[str]]:  # noqa: ANN001
    """local name -> [args of torch.triu_indices] in assignment order (last wins at use by line)."""
    out: dict[str, list] = {}
    for n in p.nodes(f):
        if isinstance(n, ast.Assign) and isinstance(n.targets[0], ast.Name) and isinstance(n.value, ast.Call) and norm(n.value.func) == 'torch.triu_indices':
            args = [ws(norm(a)) for a in n.value.args]
            off = [ws(norm(k.value)) for k in n.value.keywords if k.arg == 'offset']
            out.setdefault(n.targets[0].id, []).append((n.lineno, args[:2], (args[2] if len(args) > 2 else (off[0] if off else '0'))))
    return out


def _idx_pair(e: ast.expr) -> tuple[str, str, str] | None:
    """T[I[0], I[1]] -> (T, I, 'ok'|'swapped')"""
    if isinstance(e, ast.Subscript) and isinstance(e.slice, ast.Tuple) and len(e.slice.elts) == 2:
        a, b = e.slice.elts
        if isinstance(a, ast.Subscript) and isinstance(b, ast.Subscript) and norm(a.value) == norm(b.value):
            ia, ib = ws(norm(a.slice)), ws(norm(b.slice))
            if (ia, ib) == ('0', '1'):
                return ws(norm(e.value)), norm(a.value), 'ok'
            if (ia, ib) == ('1', '0'):
                return ws(norm(e.value)), norm(a.value), 'swapped'
    return None


def rule_idx_triu(ctx: Ctx) -> None:
    p = ctx.prog
    ctx.assumptions.add('A3')
    ctx.rule('IDX-TRIU', 'pack and unpack enumerate the upper triangle with the same generator, the same (rows, cols) and offset 0; the mirror copies '
                         'Upper(m) of the filled matrix through a (0,1) transpose with m <= 1, so Upper(0) u Upper(m)^T covers the matrix', floor=6)
    ctx.rule('IDX-LAYOUT', 'packing / unpacking index logically (no dependence on memory strides)', floor=2)
    gt = p.get_func('distributed.get_triu')
    ft = p.get_func('distributed.fill_triu')
    for f in (gt, ft):
        bad = [n for n in p.nodes(f) if isinstance(n, ast.Call) and isinstance(n.func, ast.Attribute) and n.func.attr in ('stride', 'storage_offset', 'as_strided', 'data_ptr', 'set_', 'untyped_storage')]
        ctx.check(not bad, 'IDX-LAYOUT', f, f'{f.name} does not read memory layout', f'{f.name} layout',
                  f'{f.name} depends on the memory layout of the tensor ({[norm(b) for b in bad]}): the property quantifies over non-contiguous inputs', bad[0] if bad else f.node)
    # ---- pack
    T = gt.params[0]
    tc = _triu_calls(p, gt)
    rets = [n for n in p.nodes(gt) if isinstance(n, ast.Return) and n.value is not None]
    ok = False
    why = f'get_triu returns {norm(rets[-1].value) if rets else None}'
    if rets:
        ip = _idx_pair(rets[-1].value)
        if ip and ip[0] == T and ip[2] == 'ok' and ip[1] in tc:
            _ln, args, off = tc[ip[1]][-1]
            ok = args == [f'{T}.shape[0]', f'{T}.shape[1]'] or args == [f'{T}.size(0)', f'{T}.size(1)']
            ok = ok and off == '0'
            why += f' with indices triu_indices({args}, offset {off})'
    ctx.check(ok, 'IDX-TRIU', gt, 'pack: T[I[0], I[1]] with I = triu_indices(rows(T), cols(T), 0)', 'pack', why + '; specified: tensor[idx[0], idx[1]] with idx = triu_indices(tensor.shape[0], tensor.shape[1]) (row-major upper triangle, offset 0)', rets[-1] if rets else gt.node)
    # ---- unpack
    shp = ft.params[0]
    V = ft.params[1]
    tcf = _triu_calls(p, ft)
    unp = None
    for n in p.nodes(ft):
        if isinstance(n, ast.Assign) and isinstance(n.targets[0], ast.Name) and isinstance(n.value, ast.Name) and n.value.id == shp:
            pass
        if isinstance(n, ast.Assign) and isinstance(n.targets[0], ast.Tuple) and isinstance(n.value, ast.Name) and n.value.id == shp and len(n.targets[0].elts) == 2:
            unp = [norm(e) for e in n.targets[0].elts]
    rows, cols = unp if unp else (f'{shp}[0]', f'{shp}[1]')
    dst = None
    for n in p.nodes(ft):
        if isinstance(n, ast.Assign) and isinstance(n.targets[0], ast.Name) and ws(norm(n.value)) in (f'{V}.new_empty({shp})', f'{V}.new_zeros({shp})', f'torch.empty({shp},dtype={V}.dtype,device={V}.device)'):
            dst = n.targets[0].id
    ctx.check(dst is not None, 'IDX-TRIU', ft, 'unpack: destination allocated with the requested shape and the dtype of the packed values', 'dst',
              'fill_triu does not allocate its result as triu_tensor.new_empty(shape): shape or dtype of the result would differ from the packed matrix', ft.node)
    stores = [n for n in p.nodes(ft) if isinstance(n, ast.Assign) and isinstance(n.targets[0], ast.Subscript)]
    fill = mirror = None
    for n in stores:
        ip = _idx_pair(n.targets[0])
        if not ip:
            continue
        if ip[0] == dst and ws(norm(n.value)) == V:
            fill = (n, ip)
        elif dst and ip[0] in (f'{dst}.transpose(0,1)', f'{dst}.transpose(1,0)', f'{dst}.t()', f'{dst}.T', f'{dst}.mT'):
            mirror = (n, ip)
        elif dst and ip[0] == dst:
            mirror = (n, ip)

    def triu_at(name: str, line: int):  # noqa: ANN202
        c = [x for x in tcf.get(name, []) if x[0] <= line]
        return c[-1] if c else None
    okf = False
    whyf = 'no statement dst[idx[0], idx[1]] = triu_tensor'
    if fill:
        n, ip = fill
        t = triu_at(ip[1], n.lineno)
        okf = ip[2] == 'ok' and t is not None and t[1] == [rows, cols] and t[2] == '0'
        whyf = f'{norm(n)} with idx = triu_indices({t[1] if t else None}, offset {t[2] if t else None}), index order {ip[2]}'
    ctx.check(okf, 'IDX-TRIU', ft, f'unpack: dst[I[0], I[1]] = packed with I = triu_indices({rows}, {cols}, 0)', 'unpack', 'fill_triu: ' + whyf +
              f'; specified: the same enumeration as get_triu — triu_indices({rows}, {cols}) with (rows, cols) = shape, offset 0, indices in (row, col) order', fill[0] if fill else ft.node)
    okm = False
    whym = 'no mirroring statement'
    if mirror and fill:
        n, ip = mirror
        t = triu_at(ip[1], n.lineno)
        src = _idx_pair(n.value)
        transposed_target = ip[0] != dst
        okm = (transposed_target and src is not None and src[0] == dst and src[1] == ip[1] and src[2] == ip[2] == 'ok'
               and t is not None and t[2] in ('0', '1') and t[1] in ([rows, rows], [rows, cols], [cols, cols]) and n.lineno > fill[0].lineno)
        whym = f'{norm(n)} with idx = triu_indices({t[1] if t else None}, offset {t[2] if t else None})'
    ctx.check(okm, 'IDX-TRIU', ft, 'mirror: dst^T[M] = dst[M] with M = Upper(offset 0 or 1), after the upper triangle was filled', 'mirror', 'fill_triu: ' + whym +
              '; specified: copy the filled upper triangle into the lower one: dst.transpose(0, 1)[idx[0], idx[1]] = dst[idx[0], idx[1]] with idx = triu_indices(n, n, 1) (or 0)', mirror[0] if mirror else ft.node)
    rets = [n for n in p.nodes(ft) if isinstance(n, ast.Return) and n.value is not None]
    ctx.check(len(rets) == 1 and norm(rets[0].value) == dst, 'IDX-TRIU', ft, 'returns the filled matrix', 'return', f'fill_triu returns {norm(rets[0].value) if rets else None}', ft.node)
    # callers: pack/unpack pairing inside the communicator: fill_triu(shape, value) with the shape captured before packing
    for m in COMM_FUNCS:
        f = p.get_func(f'{TDC}.{m}')
        fills = [c for h in [f] + [h for h in p.funcs.values() if h.parent is f] for c in p.nodes(h) if isinstance(c, ast.Call) and norm(c.func) == 'fill_triu']
        for c in fills:
            ctx.check(len(c.args) == 2 and norm(c.args[0]) == 'shape', 'IDX-TRIU', f, f'{m}: unpack with the shape of the original matrix', f'{m} fill_triu', f'{m}: {norm(c)} does not unpack into the shape captured from the unpacked input', c)
        packs = [c for c in p.nodes(f) if isinstance(c, ast.Call) and norm(c.func) == 'get_triu']
        for c in packs:
            at = atoms_of(p, f, c)
            ctx.check(('symmetric', True) in {(a, pol) for a, pol, via in at} and not [a for a, pol, via in at if a not in ('symmetric', 'get_world_size(group)==1') and via != 'return' and 'shape' not in a and 'len(' not in a], 'IDX-TRIU', f,
                      f'{m}: every rank packs exactly when symmetric', f'{m} get_triu', f'{m}: packing is conditional on {at}; every rank of the group (source and receivers) must pack exactly when symmetric=True', c)
        if m in ('allreduce', 'allreduce_bucketed'):
            ctx.check(len(packs) == 1 and len(fills) == 1, 'IDX-TRIU', f, f'{m}: one pack, one unpack', f'{m} pairing', f'{m}: {len(packs)} pack(s) and {len(fills)} unpack(s)', f.node)
        else:
            ctx.check(len(packs) == 1 and len(fills) == 1, 'IDX-TRIU', f, f'{m}: one pack, one unpack', f'{m} pairing', f'{m}: {len(packs)} pack(s) and {len(fills)} unpack(s)', f.node)


def rule_rank_space(ctx: Ctx) -> None:
    """RANK-SPACE: a group-local rank is never compared with a global rank."""
    p = ctx.prog
    ctx.rule('RANK-SPACE', 'roots (src/dst) are global ranks: a rank obtained relative to a group (get_rank(group)) is never compared with one', floor=0)
    n_ok = 0
    for f in p.functions():
        for n in p.nodes(f):
            if not (isinstance(n, ast.Compare) and len(n.ops) == 1):
                continue
            sides = [n.left, n.comparators[0]]
            grp = [s for s in sides if isinstance(s, ast.Call) and norm(s.func).split('.')[-1] == 'get_rank' and (s.args or s.keywords) and not (s.args and norm(s.args[0]) == 'None')]
            if not grp:
                if any(isinstance(s, ast.Call) and norm(s.func).split('.')[-1] == 'get_rank' for s in sides):
                    n_ok += 1
                continue
            other = [s for s in sides if s is not grp[0]][0]
            ctx.violate('RANK-SPACE', f, norm(n), f'{norm(n)}: {norm(grp[0])} is a rank relative to the group, {norm(other)} is a global rank (as passed to dist.broadcast / returned by the assignment); '
                        'in a subgroup that does not start at rank 0 they differ', n)
    ctx.ok('RANK-SPACE', 'kfac', f'{n_ok} comparisons of get_rank() with a root use the global rank', None)


def rule_contig(ctx: Ctx) -> None:
    """DOM-CONTIG: the collectives operate on raw storage, so what the communicator hands to dist.all_reduce /
    dist.broadcast is a row-major dense copy: the last binding of the argument before the call is `<x>.contiguous()`
    (or a flatten of tensors) — not `.clone()`, which preserves a column-major layout such as eigh's eigenvectors."""
    p = ctx.prog
    ctx.rule('DOM-CONTIG', 'tensors handed to dist.all_reduce / dist.broadcast are made contiguous (row-major) first', floor=3)
    for fq in (f'{TDC}.allreduce', f'{TDC}.broadcast', f'{BKT}.allreduce'):
        f = p.get_func(fq)
        calls = [c for c in p.calls_in(f) if norm(c.func) in ('dist.all_reduce', 'dist.broadcast', 'torch.distributed.all_reduce', 'torch.distributed.broadcast')]
        if not calls:
            raise AnalysisIncomplete(f'{fq}: no dist.all_reduce / dist.broadcast call found')
        for c in calls:
            a0 = c.args[0] if c.args else next((k.value for k in c.keywords if k.arg == 'tensor'), None)
            ok = False
            why = norm(a0) if a0 is not None else None
            if isinstance(a0, ast.Name):
                defs = [n for n in p.nodes(f) if isinstance(n, ast.Assign) and len(n.targets) == 1 and isinstance(n.targets[0], ast.Name) and n.targets[0].id == a0.id and n.lineno < c.lineno]
                if defs:
                    last = max(defs, key=lambda n: n.lineno)
                    v = last.value
                    why = norm(v)
                    ok = (isinstance(v, ast.Call) and isinstance(v.func, ast.Attribute) and v.func.attr == 'contiguous' and not v.args and not v.keywords) or \
                         (isinstance(v, ast.Call) and norm(v.func).split('.')[-1] in ('flatten', '_flatten_dense_tensors'))
            elif isinstance(a0, ast.Call) and isinstance(a0.func, ast.Attribute) and a0.func.attr == 'contiguous':
                ok = True
            elif isinstance(a0, ast.Call) and norm(a0.func).split('.')[-1] in ('flatten', '_flatten_dense_tensors'):
                ok = True       # the flat buffer written in place of a local
            ctx.check(ok, 'DOM-CONTIG', f, f'{f.name}: {norm(c.func)} on a contiguous copy', f'{f.name} {norm(c.func)}',
                      f'{f.short}: {norm(c.func)} is given {why}; the collective sends raw storage, so a tensor that is not row-major '
                      '(e.g. the column-major eigenvectors returned by eigh) arrives transposed on the other ranks', c)
