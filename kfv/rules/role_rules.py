"""E8 — role-partitioned traces: step() and load_state_dict() are walked once per consistent valuation of the rank role
(inverse worker of A / of G, gradient worker) and configuration (inverse broadcast, gradient broadcast, eigen / eigen+prediv /
inverse); the layer methods the role executes are evaluated by the abstract tensor interpreter with the None-ness of the
second-order slots as state.  No tensor values, no solver."""
from __future__ import annotations

import ast
import itertools
from typing import Any

from kfv import flow
from kfv import tensors as T
from kfv.core import AnalysisIncomplete
from kfv.core import Ctx
from kfv.model import Func
from kfv.model import norm
from kfv.rules import precond_rules as R
from kfv.rules import tensor_rules as TR
from kfv.rules.coh_rules import acall
from kfv.rules.coh_rules import is_get_rank
from kfv.tensors import NONE
from kfv.tensors import Interp
from kfv.tensors import ObjV
from kfv.tensors import SV
from kfv.tensors import TV

SO_SLOTS = {'eigen': ['qa', 'qg', 'da', 'dg'], 'eigen+prediv': ['qa', 'qg', 'dgda'], 'inverse': ['a_inv', 'g_inv']}


def roles() -> list[dict]:
    out = []
    for method in ('eigen', 'eigen+prediv', 'inverse'):
        for binv, bgrad in itertools.product((True, False), repeat=2):
            for isA, isG, gw in itertools.product((True, False), repeat=3):
                if (isA or isG) and not gw:
                    continue            # inverse workers of a layer lie in its gradient-worker group
                if not binv and gw and not (isA and isG):
                    continue            # gradient-worker group of size one (MEM-OPT): the only member inverts both factors
                if not bgrad and not gw:
                    continue            # COMM-OPT: every rank is a gradient worker
                if method == 'eigen+prediv' and isA != isG:
                    continue            # pre-divided eigenvalues require co-located factors (constructor check)
                out.append({'method': method, 'binv': binv, 'bgrad': bgrad, 'isA': isA, 'isG': isG, 'gw': gw})
    return out


def call_sequence(ctx: Ctx, f: Func, role: dict, extra: dict[str, bool]) -> list[tuple[ast.Call, str]]:
    """Layer-method calls that a rank with this role executes in one layer iteration of f (in order)."""
    p = ctx.prog
    seq: list[tuple[ast.Call, str]] = []

    def truth(e: ast.expr) -> bool | None:
        if isinstance(e, ast.UnaryOp) and isinstance(e.op, ast.Not):
            v = truth(e.operand)
            return None if v is None else (not v)
        if isinstance(e, ast.BoolOp):
            vs = [truth(v) for v in e.values]
            if isinstance(e.op, ast.And):
                if any(v is False for v in vs):
                    return False
                return True if all(v is True for v in vs) else None
            if any(v is True for v in vs):
                return True
            return False if all(v is False for v in vs) else None
        t = norm(e)
        if t in extra:
            return extra[t]
        if isinstance(e, ast.Compare) and len(e.ops) == 1 and isinstance(e.ops[0], (ast.Eq, ast.NotEq)):
            sides = [e.left, e.comparators[0]]
            if any(is_get_rank(ctx, f, s) for s in sides):
                for s in sides:
                    r = acall(ctx, f, s, 'inv_worker')
                    if r and len(r[1]) == 2:
                        v = role['isA'] if r[1][1] == "'A'" else role['isG']
                        return v if isinstance(e.ops[0], ast.Eq) else (not v)
        if acall(ctx, f, e, 'is_grad_worker'):
            return role['gw']
        if acall(ctx, f, e, 'broadcast_inverses'):
            return role['binv']
        if acall(ctx, f, e, 'broadcast_gradients'):
            return role['bgrad']
        return None

    class CB(flow.DefaultCB):
        def expr(self, s, e, st):  # noqa: ANN001
            if e is None:
                return s
            for c in flow.calls_in_order(e):
                if isinstance(c.func, ast.Attribute):
                    recv = p.receiver_classes(f, c.func.value)
                    if any(rc in p.classes and p.is_subclass(rc, R.LAYER) for rc in recv):
                        seq.append((c, c.func.attr))
            return s

        def assume(self, s, test, pol):  # noqa: ANN001
            v = truth(test)
            if v is not None and v != pol:
                return None
            return s

        def join(self, a, b):  # noqa: ANN001
            return a
    flow.Walker(CB(), max_iter=1).run(f, 0)
    # dedupe (loop fix-point passes) keeping first occurrences in order
    seen = set()
    out = []
    for c, m in seq:
        if id(c) not in seen:
            seen.add(id(c))
            out.append((c, m))
    return out


def run_role(ctx: Ctx, seq: list[tuple[ast.Call, str]], role: dict, slots: dict) -> tuple[dict | None, str | None, Interp]:
    p = ctx.prog
    cls = TR.INV if role['method'] == 'inverse' else TR.EIG
    flags = {'self.symmetric_factors': True, 'self.prediv_eigenvalues': role['method'] == 'eigen+prediv'}
    it = Interp(p, flags, TR.layer_oracle)
    it.concrete = [cls]
    sl = dict(slots)
    for c, m in seq:
        g = p.lookup_method(cls, m)
        if g is None:
            continue
        args: dict[str, Any] = {'self': ObjV('self')}
        fl = dict(flags)
        if 'damping' in g.params:
            args['damping'] = TR.DAMP
        if 'src' in g.params:
            args['src'] = SV((), 'src', 'num')
            args['group'] = ObjV('group')
            am_src = {'broadcast_a_inv': role['isA'], 'broadcast_g_inv': role['isG'], 'broadcast_grad': role['gw']}.get(m)
            if am_src is not None:
                fl['get_rank() == src'] = am_src
        if m in ('update_grad',):
            args['scale'] = SV((), 'scale', 'num')
        if m in ('reduce_a_factor', 'reduce_g_factor', 'update_a_factor', 'update_g_factor', 'save_layer_input', 'save_layer_grad_output', 'load_state_dict', 'state_dict', 'memory_usage', 'reset_batch'):
            continue
        it.flags = fl
        _r, fin = it.call_function(g, args, sl)
        if fin is None:
            return None, f'{m} (called at line {c.lineno}) raises / fails an assertion with slots ' + ', '.join(f'{k}={"None" if isinstance(v, T.NoneV) else "set"}' for k, v in sl.items() if k in ('qa', 'qg', 'da', 'dg', 'dgda', 'a_inv', 'g_inv', 'grad')), it
        sl = dict(fin.slots)
    return sl, None, it


def rule_roles(ctx: Ctx, functions: tuple[str, ...] = ('step', 'load_state_dict')) -> None:
    p = ctx.prog
    p.family = None
    ctx.rule('E8-ROLES', 'for every consistent (role, configuration) valuation the layer calls of step() / load_state_dict() succeed with the slots the role holds; '
                         'after an inverse step exactly the gradient workers hold second-order data; after the gradient phase every rank holds a gradient to write back', floor=96)
    rs = roles()
    ctx.extra['role_valuations'] = len(rs)
    traces = []
    for fname in functions:
        f = p.get_func(f'{R.BP}.{fname}')
        extra = {'self.steps % self.inv_update_steps == 0': True, 'not self._update_factors_in_hook and self.steps % self.factor_update_steps == 0': False,
                 'self._update_factors_in_hook': True, 'self.kl_clip is None': False, 'compute_inverses': True, "'layers' in state_dict": True, "len(state_dict['layers']) != len(self._layers)": False,
                 'found_name == name': True}
        for role in rs:
            seq = call_sequence(ctx, f, role, extra)
            slots = TR.base_slots(TR.INV if role['method'] == 'inverse' else TR.EIG)
            tag = f'{fname} [{role["method"]}, bcast_inv={role["binv"]}, bcast_grad={role["bgrad"]}, invA={role["isA"]}, invG={role["isG"]}, grad_worker={role["gw"]}]'
            sl, err, it = run_role(ctx, seq, role, slots)
            tr = {'function': fname, 'role': role, 'calls': [m for _c, m in seq]}
            traces.append(tr)
            if err:
                ctx.violate('E8-ROLES', f, f'{fname} {sorted(role.items())}', f'{tag}: the rank executes {[m for _c, m in seq]} and {err}', f.node)
                continue
            so = SO_SLOTS[role['method']]
            held = [s for s in so if not isinstance(sl.get(s), T.NoneV)]
            if fname == 'step':
                ok = (set(held) == set(so)) if role['gw'] else (not held)
                ctx.check(ok, 'E8-ROLES', f, f'{tag}: second-order slots held {held}', f'{fname} so {sorted(role.items())}',
                          f'{tag}: after the inverse phase the rank holds second-order slots {held}; specified: {"all of " + str(so) if role["gw"] else "none"} '
                          f'(a rank holds second-order data iff it is a gradient worker of the layer); calls executed: {[m for _c, m in seq]}', f.node)
                g = sl.get('grad')
                # update_grad clears the slot at the end of step(): check the value handed to set_grad instead
                ug = [ev for ev in it.events if ev[0] == 'call' and ev[3][0].endswith('set_grad')]
                ctx.check(bool(ug) or any(m == 'update_grad' for _c, m in seq), 'E8-ROLES', f, f'{tag}: gradient written back', f'{fname} wb {sorted(role.items())}',
                          f'{tag}: no gradient is written back on this rank', f.node)
            else:
                ctx.ok('E8-ROLES', f, f'{tag}: calls {[m for _c, m in seq]} succeed; slots held {held}', f.node)
    ctx.extra['role_traces'] = traces[:60]
