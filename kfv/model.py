"""E0 — program model of <root>/kfac.

Parse every module with stdlib ``ast``, type it with mypy (as an oracle for
receiver classes), and build: import tables, class table with MRO, function
table (methods, properties, nested functions, lambdas), resolved call targets
by class-hierarchy analysis, and field reader/writer tables.
"""
from __future__ import annotations

import ast
import hashlib
import os
from dataclasses import dataclass
from dataclasses import field
from typing import Iterable
from typing import Iterator

from kfv.core import AnalysisError


@dataclass
class Func:
    qualname: str            # kfac.mod.Class.meth / kfac.mod.func / ...<locals>.name
    module: str
    cls: str | None          # fullname of the enclosing class (methods only)
    name: str
    node: ast.AST            # FunctionDef | AsyncFunctionDef | Lambda
    parent: 'Func | None' = None      # enclosing function for nested defs
    kind: str = 'function'   # function | method | getter | setter | static | nested | lambda
    decorators: tuple[str, ...] = ()

    @property
    def params(self) -> list[str]:
        a = self.node.args  # type: ignore[attr-defined]
        return [x.arg for x in a.posonlyargs + a.args + a.kwonlyargs] + \
            ([a.vararg.arg] if a.vararg else []) + ([a.kwarg.arg] if a.kwarg else [])

    @property
    def body(self) -> list[ast.stmt]:
        if isinstance(self.node, ast.Lambda):
            return [ast.Return(value=self.node.body)]
        return self.node.body  # type: ignore[attr-defined]

    @property
    def short(self) -> str:
        return self.qualname[len('kfac.'):] if self.qualname.startswith('kfac.') else self.qualname

    def __hash__(self) -> int:
        return hash(self.qualname)

    def __eq__(self, o: object) -> bool:
        return isinstance(o, Func) and o.qualname == self.qualname


@dataclass
class Cls:
    fullname: str
    module: str
    name: str
    node: ast.ClassDef
    bases: list[str] = field(default_factory=list)    # resolved fullnames (in- or out-of-package)
    methods: dict[str, Func] = field(default_factory=dict)
    getters: dict[str, Func] = field(default_factory=dict)
    setters: dict[str, Func] = field(default_factory=dict)


@dataclass
class Mod:
    name: str
    path: str
    src: str
    tree: ast.Module
    imports: dict[str, str] = field(default_factory=dict)   # local alias -> dotted fullname
    parents: dict[int, ast.AST] = field(default_factory=dict)


@dataclass(frozen=True)
class Target:
    kind: str       # func | ext | param | field | unknown | class-ext
    ref: object     # Func | dotted name | text

    def __repr__(self) -> str:
        r = self.ref.short if isinstance(self.ref, Func) else self.ref
        return f'{self.kind}:{r}'


def dotted(node: ast.AST) -> str | None:
    """a.b.c -> 'a.b.c' for pure Name/Attribute chains."""
    parts = []
    while isinstance(node, ast.Attribute):
        parts.append(node.attr)
        node = node.value
    if isinstance(node, ast.Name):
        parts.append(node.id)
        return '.'.join(reversed(parts))
    return None


def norm(node: ast.AST | None) -> str:
    """Position-free normal text of an AST (keys of reports and findings)."""
    if node is None:
        return 'None'
    try:
        return ast.unparse(node)
    except Exception:  # noqa: BLE001
        return ast.dump(node)


def walk_no_nested(node: ast.AST) -> Iterator[ast.AST]:
    """ast.walk that does not descend into nested function/class/lambda bodies."""
    stack = [node]
    first = True
    while stack:
        n = stack.pop()
        if not first and isinstance(n, (ast.FunctionDef, ast.AsyncFunctionDef, ast.Lambda, ast.ClassDef)):
            yield n  # the def node itself, but not its body
            continue
        first = False
        yield n
        stack.extend(reversed(list(ast.iter_child_nodes(n))))


class Program:
    def __init__(self, root: str, use_mypy: bool = True) -> None:
        self.root = os.path.abspath(root)
        self.pkg = os.path.join(self.root, 'kfac')
        if not os.path.isdir(self.pkg):
            raise AnalysisError(f'package directory {self.pkg} not found')
        self.modules: dict[str, Mod] = {}
        self.classes: dict[str, Cls] = {}
        self.funcs: dict[str, Func] = {}
        self._func_of_node: dict[int, Func] = {}
        self._types: dict[str, dict] = {}
        self.normalized: list[str] = []
        self._load()
        self.digest = self._digest()
        if use_mypy:
            from kfv.mypy_types import run_mypy
            try:
                self._types = run_mypy(self.root)
            except Exception as e:  # noqa: BLE001
                raise AnalysisError(f'mypy type oracle failed: {type(e).__name__}: {e}') from e
        self._calls_cache: dict[tuple, list[Target]] = {}
        self.expanded: list[str] = []
        self._nodes_cache: dict[str, list[ast.AST]] = {}
        self._callsin_cache: dict[str, list[ast.Call]] = {}
        self._defs_cache: dict[str, dict[str, list[ast.expr]]] = {}
        self._props_cache: dict[tuple, list] = {}
        self.family: 'Family | None' = None
        from kfv import inline
        self.expanded = inline.expand(self)

    # ------------------------------------------------------------------ load
    def _digest(self) -> str:
        h = hashlib.sha256()
        for m in sorted(self.modules):
            h.update(m.encode())
            h.update(self.modules[m].src.encode())
        return h.hexdigest()[:16]

    def _load(self) -> None:
        for dirpath, dirnames, filenames in os.walk(self.pkg):
            dirnames[:] = sorted(d for d in dirnames if d != '__pycache__')
            for fn in sorted(filenames):
                if not fn.endswith('.py'):
                    continue
                path = os.path.join(dirpath, fn)
                rel = os.path.relpath(path, self.root)[:-3].replace(os.sep, '.')
                if rel.endswith('.__init__'):
                    rel = rel[: -len('.__init__')]
                src = open(path, encoding='utf-8').read()
                try:
                    tree = ast.parse(src, filename=path)
                except SyntaxError as e:
                    raise AnalysisError(f'cannot parse {path}: {e}') from e
                self.modules[rel] = Mod(rel, path, src, tree)
        from kfv import localnames
        from kfv import normalize
        from kfv import inline as _inl
        import copy as _copy

        def safely(what: str, mods: list, fn) -> None:  # noqa: ANN001
            """A normaliser step that fails leaves the trees as they were (the rules then see the code as written)."""
            try:
                fn()
            except Exception as e:  # noqa: BLE001
                for m in mods:
                    m.tree = ast.parse(m.src, filename=m.path)     # as written (earlier steps on this module are lost too)
                self.normalized.append(f'normaliser step {what} failed and was skipped: {type(e).__name__}: {e}')
        allm = list(self.modules.values())
        nlogp: list[str] = []
        safely('private-names', allm, lambda: localnames.restore_private_names({rel: m.tree for rel, m in self.modules.items()}, _inl.known_functions(), nlogp))
        self.normalized += nlogp
        localnames.set_signatures([m.tree for m in allm])
        for rel, mod in self.modules.items():
            nlog0: list[str] = []
            safely(f'inventory-shapes[{rel}]', [mod], lambda: localnames.restore(mod.tree, rel, nlog0))  # noqa: B023
            self.normalized += nlog0
        mutable = normalize.mutable_attrs([m.tree for m in allm])
        normalize.set_content_mutable([m.tree for m in allm])
        normalize._MUTABLE = mutable
        normalize.set_tables([m.tree for m in allm])
        for rel, mod in self.modules.items():
            nlog1: list[str] = []
            safely(f'structural[{rel}]', [mod], lambda: nlog1.extend(normalize.run(mod.tree, mutable, rel)[1]))  # noqa: B023
            self.normalized += [f'{rel}: {x}' for x in nlog1]
            for p in ast.walk(mod.tree):
                for c in ast.iter_child_nodes(p):
                    mod.parents[id(c)] = p
        def again() -> None:
            if normalize.refresh_mutable({rel: m.tree for rel, m in self.modules.items()}):
                self.normalized.append('write-once fields recomputed after the structural steps; copy propagation repeated')
                for mod in self.modules.values():
                    mod.parents.clear()
                    for p in ast.walk(mod.tree):
                        for c in ast.iter_child_nodes(p):
                            mod.parents[id(c)] = p
        safely('write-once-fields', allm, again)
        for mod in self.modules.values():
            self._imports(mod)
        for mod in self.modules.values():
            self._collect(mod, mod.tree.body, prefix=mod.name, cls=None, parent=None)
        for c in self.classes.values():
            c.bases = [self._resolve_base(c, b) for b in c.node.bases]

    def reindex(self) -> None:
        """Rebuild parent maps, nested-function tables and caches after an in-place AST transformation."""
        for mod in self.modules.values():
            mod.parents.clear()
            for p_ in ast.walk(mod.tree):
                for c in ast.iter_child_nodes(p_):
                    mod.parents[id(c)] = p_
        # nested functions / lambdas may have been copied into other functions
        top = [f for f in self.funcs.values() if f.parent is None]
        for q in [q for q, f in self.funcs.items() if f.parent is not None]:
            f = self.funcs.pop(q)
            self._func_of_node.pop(id(f.node), None)
        for f in top:
            mod = self.modules[f.module]
            prefix = f.qualname.rsplit('.', 1)[0]
            for n in self._direct_nested(f.node):
                self._add_func(mod, n, prefix, None, f)
        self._calls_cache.clear()
        self._nodes_cache.clear()
        self._callsin_cache.clear()
        self._defs_cache.clear()
        self._props_cache.clear()

    def _imports(self, mod: Mod) -> None:
        for n in ast.walk(mod.tree):
            if isinstance(n, ast.Import):
                for a in n.names:
                    if a.asname:
                        mod.imports[a.asname] = a.name
                    else:
                        mod.imports[a.name.split('.')[0]] = a.name.split('.')[0]
            elif isinstance(n, ast.ImportFrom):
                base = n.module or ''
                if n.level:
                    pkg = mod.name.split('.')
                    if not mod.path.endswith('__init__.py'):
                        pkg = pkg[:-1]
                    pkg = pkg[: len(pkg) - (n.level - 1)]
                    base = '.'.join(pkg + ([n.module] if n.module else []))
                for a in n.names:
                    mod.imports[a.asname or a.name] = f'{base}.{a.name}'

    def _collect(self, mod: Mod, body: Iterable[ast.stmt], prefix: str, cls: Cls | None, parent: Func | None) -> None:
        for st in body:
            if isinstance(st, (ast.FunctionDef, ast.AsyncFunctionDef)):
                self._add_func(mod, st, prefix, cls, parent)
            elif isinstance(st, ast.ClassDef):
                c = Cls(f'{prefix}.{st.name}', mod.name, st.name, st)
                self.classes[c.fullname] = c
                self._collect(mod, st.body, c.fullname, c, None)
            elif isinstance(st, (ast.If, ast.Try, ast.With, ast.For, ast.While)):
                for blk in ('body', 'orelse', 'finalbody'):
                    self._collect(mod, getattr(st, blk, []) or [], prefix, cls, parent)
                for h in getattr(st, 'handlers', []) or []:
                    self._collect(mod, h.body, prefix, cls, parent)

    def _add_func(self, mod: Mod, st: ast.AST, prefix: str, cls: Cls | None, parent: Func | None) -> Func:
        decos = tuple(norm(d) for d in getattr(st, 'decorator_list', []))
        name = getattr(st, 'name', None) or f'<lambda@{st.lineno}:{st.col_offset}>'  # type: ignore[attr-defined]
        kind = 'function'
        if isinstance(st, ast.Lambda):
            kind = 'lambda'
        elif parent is not None:
            kind = 'nested'
        elif cls is not None:
            kind = 'method'
            if 'property' in decos:
                kind = 'getter'
            elif any(d.endswith('.setter') for d in decos):
                kind = 'setter'
            elif 'staticmethod' in decos:
                kind = 'static'
        qn = f'{prefix}.{name}' if kind != 'setter' else f'{prefix}.{name}@setter'
        if parent is not None:
            qn = f'{parent.qualname}.<locals>.{name}'
        f = Func(qn, mod.name, cls.fullname if cls else (parent.cls if parent else None), name, st, parent, kind, decos)
        self.funcs[qn] = f
        self._func_of_node[id(st)] = f
        if cls is not None and parent is None:
            if kind == 'getter':
                cls.getters[name] = f
            elif kind == 'setter':
                cls.setters[name] = f
            else:
                cls.methods[name] = f
        # nested defs and lambdas
        for n in self._direct_nested(st):
            self._add_func(mod, n, prefix, None, f)
        return f

    @staticmethod
    def _direct_nested(fn: ast.AST) -> list[ast.AST]:
        out = []
        stack = list(ast.iter_child_nodes(fn))
        while stack:
            n = stack.pop()
            if isinstance(n, (ast.FunctionDef, ast.AsyncFunctionDef, ast.Lambda)):
                out.append(n)
                continue
            if isinstance(n, ast.ClassDef):
                continue
            stack.extend(ast.iter_child_nodes(n))
        out.sort(key=lambda n: (n.lineno, n.col_offset))
        return out

    def _resolve_base(self, c: Cls, b: ast.expr) -> str:
        d = dotted(b)
        if d is None:
            return norm(b)
        return self.resolve_name(self.modules[c.module], d)

    # ------------------------------------------------------------ name tables
    def resolve_name(self, mod: Mod, d: str) -> str:
        """Resolve a dotted local name to a global dotted name."""
        head, _, rest = d.partition('.')
        if head in mod.imports:
            full = mod.imports[head]
            return f'{full}.{rest}' if rest else full
        cand = f'{mod.name}.{d}'
        if cand in self.classes or cand in self.funcs:
            return cand
        return d

    def func_of(self, node: ast.AST) -> Func:
        return self._func_of_node[id(node)]

    def enclosing_func(self, mod: Mod, node: ast.AST) -> Func | None:
        p = mod.parents.get(id(node))
        while p is not None:
            if id(p) in self._func_of_node:
                return self._func_of_node[id(p)]
            p = mod.parents.get(id(p))
        return None

    def parent(self, mod: Mod | str, node: ast.AST) -> ast.AST | None:
        if isinstance(mod, str):
            mod = self.modules[mod]
        return mod.parents.get(id(node))

    def get_func(self, short: str) -> Func:
        """Look up by name relative to package ('layers.base.KFACBaseLayer.update_grad')."""
        f = self.funcs.get('kfac.' + short)
        if f is None:
            raise AnalysisError(f'anchor function kfac.{short} not found (renamed or removed?)')
        return f

    def get_class(self, short: str) -> Cls:
        c = self.classes.get('kfac.' + short)
        if c is None:
            raise AnalysisError(f'anchor class kfac.{short} not found (renamed or removed?)')
        return c

    # ----------------------------------------------------------- class tables
    def mro(self, fullname: str) -> list[Cls]:
        out: list[Cls] = []
        seen = set()

        def rec(fn: str) -> None:
            if fn in seen or fn not in self.classes:
                return
            seen.add(fn)
            out.append(self.classes[fn])
            for b in self.classes[fn].bases:
                rec(b)
        rec(fullname)
        return out

    def subclasses(self, fullname: str, strict: bool = False) -> list[Cls]:
        return [c for c in self.classes.values()
                if any(m.fullname == fullname for m in self.mro(c.fullname))
                and not (strict and c.fullname == fullname)]

    def is_subclass(self, sub: str, sup: str) -> bool:
        return any(m.fullname == sup for m in self.mro(sub))

    def lookup_method(self, clsname: str, name: str, kind: str = 'method') -> Func | None:
        for c in self.mro(clsname):
            table = {'method': c.methods, 'getter': c.getters, 'setter': c.setters}[kind]
            if name in table:
                return table[name]
        return None

    def cha(self, clsname: str, name: str, kind: str = 'method') -> list[Func]:
        """Possible targets of a virtual call on static receiver class clsname.

        With a family set (see Family), dispatch is restricted to the concrete
        classes that family instantiates.
        """
        out: list[Func] = []
        fam = self.family
        if fam is not None:
            conc = [c for c in fam.concrete if self.is_subclass(c, clsname)]
            if conc:
                for c in conc:
                    f = self.lookup_method(c, name, kind)
                    if f is not None and f not in out:
                        out.append(f)
                return out
        base = self.lookup_method(clsname, name, kind)
        if base is not None:
            out.append(base)
        for c in self.subclasses(clsname, strict=True):
            f = self.lookup_method(c.fullname, name, kind)
            if f is not None and f not in out:
                out.append(f)
        return out

    # ------------------------------------------------------------------ types
    def type_entries(self, mod: str, node: ast.AST) -> list[tuple[str, str, tuple[str, ...]]]:
        mod = getattr(node, '_kfv_mod', mod)
        t = self._types.get(mod)
        if t is None or not hasattr(node, 'lineno'):
            return []
        key = getattr(node, '_kfv_pos', None) or (node.lineno, node.col_offset, node.end_lineno, node.end_col_offset)  # type: ignore[attr-defined]
        ents = t.get(key, [])
        want = {ast.Name: 'NameExpr', ast.Attribute: 'MemberExpr', ast.Call: 'CallExpr',
                ast.Subscript: 'IndexExpr'}.get(type(node))
        if want:
            pref = [e for e in ents if e[0] == want]
            if pref:
                return pref
        return ents

    def type_str(self, mod: str, node: ast.AST) -> str | None:
        e = self.type_entries(mod, node)
        return e[0][1] if e else None

    def type_classes(self, mod: str, node: ast.AST) -> tuple[str, ...]:
        """In- and out-of-package class fullnames the expression may be an instance of."""
        e = self.type_entries(mod, node)
        if e:
            return e[0][2]
        return ()

    def receiver_classes(self, f: Func, node: ast.expr) -> tuple[str, ...]:
        """Receiver classes of an expression; falls back to self/cls knowledge."""
        if isinstance(node, ast.Name) and node.id == 'self' and f.cls:
            root = f
            return (root.cls,)  # type: ignore[return-value]
        tc = self.type_classes(f.module, node)
        if tc:
            return tc
        return ()

    # ------------------------------------------------------------------ calls
    def nodes(self, f: Func) -> list[ast.AST]:
        """All AST nodes of f's body (nested function bodies excluded), cached."""
        c = self._nodes_cache.get(f.qualname)
        if c is None:
            c = []
            for st in f.body:
                if isinstance(st, (ast.FunctionDef, ast.AsyncFunctionDef, ast.ClassDef)):
                    c.append(st)   # nested definition: its body belongs to the nested function
                else:
                    c.extend(walk_no_nested(st))
            self._nodes_cache[f.qualname] = c
        return c

    def calls_in(self, f: Func) -> list[ast.Call]:
        c = self._callsin_cache.get(f.qualname)
        if c is None:
            c = [n for n in self.nodes(f) if isinstance(n, ast.Call)]
            c.sort(key=lambda n: (n.lineno, n.col_offset))
            self._callsin_cache[f.qualname] = c
        return c

    def local_defs(self, f: Func, name: str) -> list[ast.expr]:
        """RHS expressions assigned to local `name` anywhere in f (flow-insensitive)."""
        tab = self._defs_cache.get(f.qualname)
        if tab is None:
            tab = {}
            for n in self.nodes(f):
                if isinstance(n, ast.Assign):
                    for t in n.targets:
                        if isinstance(t, ast.Name):
                            tab.setdefault(t.id, []).append(n.value)
                elif isinstance(n, ast.AnnAssign) and isinstance(n.target, ast.Name) and n.value:
                    tab.setdefault(n.target.id, []).append(n.value)
                elif isinstance(n, ast.NamedExpr):
                    tab.setdefault(n.target.id, []).append(n.value)
            self._defs_cache[f.qualname] = tab
        return tab.get(name, [])

    def callable_refs(self, f: Func, e: ast.expr, depth: int = 0) -> list[Target]:
        """Functions an expression used as a callee / callable value may denote."""
        mod = self.modules[f.module]
        if depth > 6:
            return [Target('unknown', norm(e))]
        if isinstance(e, ast.Lambda):
            return [Target('func', self.func_of(e))]
        if isinstance(e, ast.IfExp):
            return self.callable_refs(f, e.body, depth + 1) + self.callable_refs(f, e.orelse, depth + 1)
        if isinstance(e, ast.Call):
            d = dotted(e.func)
            if d and self.resolve_name(mod, d) in ('typing.cast',) and len(e.args) == 2:
                return self.callable_refs(f, e.args[1], depth + 1)
            if isinstance(e.func, ast.Name) and e.func.id == 'super' and not e.args:
                return [Target('unknown', 'super()')]
            return [Target('unknown', norm(e))]
        if isinstance(e, ast.Name):
            # nested function of this or an enclosing function
            g: Func | None = f
            while g is not None:
                q = f'{g.qualname}.<locals>.{e.id}'
                if q in self.funcs:
                    return [Target('func', self.funcs[q])]
                defs = self.local_defs(g, e.id)
                if defs:
                    out: list[Target] = []
                    for d_ in defs:
                        out += self.callable_refs(g, d_, depth + 1)
                    return out
                if e.id in g.params:
                    return [Target('param', f'{g.qualname}:{e.id}')]
                g = g.parent
            full = self.resolve_name(mod, e.id)
            return self._global_ref(full)
        if isinstance(e, ast.Attribute):
            # super().m
            if isinstance(e.value, ast.Call) and isinstance(e.value.func, ast.Name) and e.value.func.id == 'super':
                g2: Func | None = f
                while g2 is not None and g2.cls is None:
                    g2 = g2.parent
                if g2 is not None and g2.cls:
                    m = self.mro(g2.cls)
                    for c in m[1:]:
                        if e.attr in c.methods:
                            return [Target('func', c.methods[e.attr])]
                    return [Target('ext', f'super({g2.cls}).{e.attr}')]
            d = dotted(e)
            if d is not None:
                head = d.split('.')[0]
                is_local = head == 'self' or head in f.params or self.local_defs(f, head)
                if not is_local:
                    full = self.resolve_name(mod, d)
                    if full != d or head in mod.imports:
                        return self._global_ref(full)
            recv = self.receiver_classes(f, e.value)
            out2: list[Target] = []
            for rc in recv:
                if rc.startswith('type['):
                    inner = rc[5:-1]
                    if inner in self.classes:
                        m2 = self.lookup_method(inner, e.attr)
                        if m2 is not None:
                            out2.append(Target('func', m2))
                            continue
                    out2.append(Target('ext', f'{inner}.{e.attr}'))
                elif rc in self.classes:
                    ms = self.cha(rc, e.attr)
                    if ms:
                        out2 += [Target('func', m) for m in ms]
                    else:
                        out2.append(Target('field', f'{rc}.{e.attr}'))
                else:
                    out2.append(Target('ext', f'{rc}.{e.attr}'))
            if out2:
                # dedupe, keep order
                seen: set = set()
                res = []
                for t in out2:
                    k = (t.kind, t.ref.qualname if isinstance(t.ref, Func) else t.ref)
                    if k not in seen:
                        seen.add(k)
                        res.append(t)
                return res
            return [Target('extm', e.attr)]
        return [Target('unknown', norm(e))]

    def _global_ref(self, full: str) -> list[Target]:
        if full in self.funcs:
            return [Target('func', self.funcs[full])]
        if full in self.classes:
            init = self.lookup_method(full, '__init__')
            if init is not None:
                return [Target('func', init)]
            return [Target('class-ext', full)]
        # method referenced through class: kfac.mod.Class.meth
        head, _, meth = full.rpartition('.')
        if head in self.classes:
            m = self.lookup_method(head, meth)
            if m is not None:
                return [Target('func', m)]
        return [Target('ext', full)]

    def resolve_call(self, f: Func, call: ast.Call) -> list[Target]:
        k = (id(call), self.family.name if self.family else None)
        if k not in self._calls_cache:
            self._calls_cache[k] = self.callable_refs(f, call.func)
        return self._calls_cache[k]

    def bind_args(self, call: ast.Call, callee: Func) -> dict[str, ast.expr]:
        """Map parameter names of callee to the argument expressions of this call
        (bound-method calls and constructor calls skip `self`)."""
        a = callee.node.args  # type: ignore[attr-defined]
        pos = [x.arg for x in a.posonlyargs + a.args]
        skip_self = callee.kind in ('method', 'getter', 'setter') and pos[:1] == ['self']
        if skip_self:
            d = dotted(call.func)
            # Class.method(obj, ...) passes self explicitly
            explicit = False
            if d is not None and isinstance(call.func, ast.Attribute):
                head = d.rsplit('.', 1)[0]
                explicit = head.split('.')[-1][:1].isupper() and not head.startswith('self') and 'super' not in head
            if not explicit:
                pos = pos[1:]
        out: dict[str, ast.expr] = {}
        i = 0
        for arg in call.args:
            if isinstance(arg, ast.Starred):
                break
            if i < len(pos):
                out[pos[i]] = arg
            i += 1
        for kw in call.keywords:
            if kw.arg is not None:
                out[kw.arg] = kw.value
        return out

    def constructed_class(self, f: Func, call: ast.Call) -> str | None:
        d = dotted(call.func)
        if d is None:
            return None
        full = self.resolve_name(self.modules[f.module], d)
        return full if full in self.classes else None

    # ------------------------------------------------------- property access
    def property_accesses(self, f: Func) -> list[tuple[ast.Attribute, str, list[Func]]]:
        """(node, 'get'|'set', accessor funcs) for attribute nodes that resolve to properties."""
        ck = (f.qualname, self.family.name if self.family else None)
        if ck in self._props_cache:
            return self._props_cache[ck]
        out = []
        self._props_cache[ck] = out
        for _once in (0,):
            for n in self.nodes(f):
                if not isinstance(n, ast.Attribute):
                    continue
                recv = self.receiver_classes(f, n.value)
                kind = 'set' if isinstance(n.ctx, (ast.Store, ast.Del)) else 'get'
                accs: list[Func] = []
                for rc in recv:
                    if rc in self.classes:
                        accs += [a for a in self.cha(rc, n.attr, 'setter' if kind == 'set' else 'getter') if a not in accs]
                if accs:
                    out.append((n, kind, accs))
                    # augmented assignment reads as well
                    par = self.parent(f.module, n)
                    if kind == 'set' and isinstance(par, ast.AugAssign):
                        g = []
                        for rc in recv:
                            if rc in self.classes:
                                g += [a for a in self.cha(rc, n.attr, 'getter') if a not in g]
                        if g:
                            out.append((n, 'get', g))
        return out

    # ------------------------------------------------------------ iteration
    def functions(self) -> list[Func]:
        return sorted(self.funcs.values(), key=lambda f: f.qualname)

    def loc(self, f: Func | str, node: ast.AST | None = None) -> str:
        mod = f.module if isinstance(f, Func) else f
        path = os.path.relpath(self.modules[mod].path, self.root)
        line = (getattr(node, '_kfv_line', None) or getattr(node, 'lineno', None)) if node is not None else (getattr(f.node, 'lineno', None) if isinstance(f, Func) else None)
        return f'{path}:{line}' if line else path


@dataclass
class Family:
    """The set of concrete classes one preconditioner instantiates (derived from its constructor)."""
    name: str
    root: str                      # fullname of the preconditioner class
    concrete: list[str]
    referenced: list[str]


def derive_family(prog: Program, name: str, root_cls: str) -> Family:
    """Collect the in-package classes referenced from the constructor of root_cls,
    transitively through the module-level functions it calls."""
    root = prog.get_class(root_cls)
    init = prog.lookup_method(root.fullname, '__init__')
    if init is None:
        raise AnalysisError(f'{root_cls} has no __init__')
    seen_f: set[str] = set()
    refs: list[str] = []
    todo = [init]
    while todo:
        f = todo.pop()
        if f.qualname in seen_f:
            continue
        seen_f.add(f.qualname)
        mod = prog.modules[f.module]
        for st in f.body:
            for n in ast.walk(st):
                d = dotted(n) if isinstance(n, (ast.Name, ast.Attribute)) else None
                if d is None:
                    continue
                full = prog.resolve_name(mod, d)
                if full in prog.classes and full not in refs:
                    refs.append(full)
                elif full in prog.funcs and prog.funcs[full].cls is None and prog.funcs[full].module != 'kfac.tracing':
                    todo.append(prog.funcs[full])
    if root.fullname not in refs:
        refs.append(root.fullname)
    concrete: list[str] = []
    for r in refs:
        # r is concrete for the family unless a referenced strict subclass exists
        if any(o != r and prog.is_subclass(o, r) for o in refs):
            continue
        concrete.append(r)
    return Family(name, root.fullname, concrete, refs)
