"""Straight-line symbolic evaluation of scalar code on top of the typestate walker.

State = (environment var -> Poly, event log).  Branches are joined: variables
that differ become opaque phi-atoms; event logs that differ make the state
CONFLICT (reported by the rule that asked).  Used for counter invariants,
"exactly one X on every path" and written-formula checks.  No solver: terms
are compared in polynomial normal form.
"""
from __future__ import annotations

import ast
from dataclasses import dataclass
from typing import Any
from typing import Callable

from kfv import flow
from kfv.terms import Normalizer
from kfv.terms import Poly


@dataclass(frozen=True)
class Sym:
    env: tuple            # sorted tuple of (name, Poly)
    log: tuple            # tuple of events
    conflict: tuple = ()  # descriptions of path disagreements

    def get(self, k: str) -> Poly | None:
        for n, v in self.env:
            if n == k:
                return v
        return None

    def set(self, k: str, v: Poly) -> 'Sym':
        d = dict(self.env)
        d[k] = v
        return Sym(tuple(sorted(d.items(), key=lambda x: x[0])), self.log, self.conflict)

    def emit(self, ev: tuple) -> 'Sym':
        return Sym(self.env, self.log + (ev,), self.conflict)


class SymCB(flow.DefaultCB):
    """classify(call) -> None | (kind, payload): event calls get unique atoms and are logged.
    target_text(node) -> key for attribute/subscript stores that should be tracked as variables."""

    def __init__(self, classify: Callable[[ast.Call], tuple | None],
                 track: Callable[[ast.AST], str | None] | None = None,
                 on_store: Callable[[Sym, ast.stmt, str, Poly, 'SymCB'], Sym] | None = None,
                 assume_fn: Callable[[Sym, ast.expr, bool], Sym | None] | None = None,
                 facts: Any = None) -> None:
        self.facts = facts
        self.classify = classify
        self.track = track or (lambda n: n.id if isinstance(n, ast.Name) else None)
        self.on_store = on_store
        self.assume_fn = assume_fn
        self.counter = 0
        self._atoms: dict[int, str] = {}

    def norm(self, s: Sym) -> Normalizer:
        atoms = self._atoms
        return Normalizer(dict(s.env), lambda n: atoms.get(id(n)), self.facts)

    def value(self, s: Sym, e: ast.AST) -> Poly:
        return self.norm(s).poly(e)

    def expr(self, s: Sym, e: ast.AST, st: ast.stmt) -> Sym:
        if s is None or e is None:
            return s
        for c in flow.calls_in_order(e):
            if id(c) in self._atoms:
                # re-visit (loop iteration): allocate a fresh atom
                pass
            ev = self.classify(c)
            if ev is not None:
                self.counter += 1
                name = f'{ev[0]}#{self.counter}'
                self._atoms[id(c)] = name
                s = s.emit((ev[0], ev[1], name))
        return s

    def stmt(self, s: Sym, st: ast.stmt) -> Sym:
        if isinstance(st, ast.Assign):
            v = self.value(s, st.value)
            for t in st.targets:
                s = self._store(s, st, t, v)
        elif isinstance(st, ast.AnnAssign) and st.value is not None:
            s = self._store(s, st, st.target, self.value(s, st.value))
        elif isinstance(st, ast.AugAssign):
            k = self.track(st.target)
            cur = self.value(s, st.target)
            rhs = self.value(s, st.value)
            if isinstance(st.op, ast.Add):
                v = cur + rhs
            elif isinstance(st.op, ast.Sub):
                v = cur - rhs
            elif isinstance(st.op, ast.Mult):
                v = cur * rhs
            elif isinstance(st.op, ast.Div):
                v = cur * rhs.inverse()
            else:
                v = Poly.atom(f'{type(st.op).__name__}({cur.canon()},{rhs.canon()})')
            s = self._store(s, st, st.target, v)
        return s

    def _store(self, s: Sym, st: ast.stmt, t: ast.AST, v: Poly) -> Sym:
        if isinstance(t, (ast.Tuple, ast.List)):
            for i, e in enumerate(t.elts):
                s = self._store(s, st, e, Poly.atom(f'{v.canon()}[{i}]'))
            return s
        k = self.track(t)
        if k is not None:
            s = s.set(k, v)
            if self.on_store is not None:
                s = self.on_store(s, st, k, v, self)
        return s

    def assume(self, s: Sym, test: ast.expr, pol: bool) -> Sym | None:
        if self.facts is not None:
            dv = self.norm(s).decide(test)
            if dv is not None and dv != pol:
                return None
        if self.assume_fn is not None:
            return self.assume_fn(s, test, pol)
        return s

    def loop_enter(self, s: Sym, loop: ast.stmt) -> Sym:
        if isinstance(loop, (ast.For, ast.AsyncFor)):
            self.counter += 1
            return self._store(s, loop, loop.target, Poly.atom(f'elem#{self.counter}'))
        return s

    def join(self, a: Sym, b: Sym) -> Sym:
        if a == b:
            return a
        env = {}
        da, db = dict(a.env), dict(b.env)
        for k in set(da) | set(db):
            if k in da and k in db and da[k] == db[k]:
                env[k] = da[k]
            else:
                x = da.get(k)
                y = db.get(k)
                env[k] = Poly.atom('phi(' + '|'.join(sorted({x.canon() if x else '?', y.canon() if y else '?'})) + ')')
        conflict = a.conflict + tuple(c for c in b.conflict if c not in a.conflict)
        la, lb = _strip(a.log), _strip(b.log)
        if la != lb:
            conflict += ((la, lb),)
        log = a.log if len(a.log) >= len(b.log) else b.log
        return Sym(tuple(sorted(env.items(), key=lambda x: x[0])), log, conflict)


def _strip(log: tuple) -> tuple:
    """Event logs modulo the unique atom names."""
    return tuple((e[0], e[1]) + tuple(e[3:]) for e in log)


def substitute(p: Poly, atom: str, val: Poly) -> Poly:
    out = Poly()
    for k, c in p.t.items():
        term = Poly({(): c})
        for a, e in k:
            if a == atom:
                term = term * val.pow(e) if e > 0 else term * val.pow(-e).inverse()
            else:
                term = term * Poly({((a, e),): 1})
        out = out + term
    return out


def run(f: Any, cb: SymCB, init: dict[str, Poly] | None = None) -> tuple[Sym | None, list]:
    w = flow.Walker(cb)
    s0 = Sym(tuple(sorted((init or {}).items())), ())
    return w.run(f, s0)
