"""DEF-FLAGS — definite assignment with trace partitioning on configuration flags.

A path-insensitive "possibly undefined" lint cannot tell the correlated-branch
idiom (`if has_bias: b = ...` ... `if has_bias: use(b)`) from a real unbound
read.  Here every branch test is split into atoms; atoms that do not depend on
locals being written in between (flag atoms: calls on self / loop variables,
comparisons of configuration fields, None-tests of single-assignment locals)
are remembered with the value assumed on the current path, and a branch whose
test contradicts the remembered values is infeasible.  Inside a loop body every
variable assigned in the body counts as unassigned at the start of each
iteration unless it is an accumulator, so a read that can only see the value of
a previous iteration is reported (loop-carried read).
"""
from __future__ import annotations

import ast
from dataclasses import dataclass

from kfv import flow
from kfv.model import Func
from kfv.model import Program
from kfv.model import norm


@dataclass(frozen=True)
class DState:
    assigned: frozenset        # names definitely assigned on this path
    flags: frozenset           # (atom text, bool)

    def val(self, atom: str) -> bool | None:
        for a, v in self.flags:
            if a == atom:
                return v
        return None


def _atoms(test: ast.expr, pol: bool) -> list[tuple[ast.expr, bool]] | None:
    """Conjunction of atoms equivalent to (test == pol), or None if it is a disjunction."""
    if isinstance(test, ast.UnaryOp) and isinstance(test.op, ast.Not):
        return _atoms(test.operand, not pol)
    if isinstance(test, ast.BoolOp):
        conj = (isinstance(test.op, ast.And) and pol) or (isinstance(test.op, ast.Or) and not pol)
        if not conj:
            return None
        out = []
        for v in test.values:
            sub = _atoms(v, pol)
            if sub is None:
                return None   # nested disjunction: keep nothing (sound: no refinement)
            out += sub
        return out
    if isinstance(test, ast.Compare) and len(test.ops) == 1:
        flip = {ast.NotEq: ast.Eq, ast.IsNot: ast.Is, ast.NotIn: ast.In}
        t = type(test.ops[0])
        if t in flip:
            return [(ast.Compare(left=test.left, ops=[flip[t]()], comparators=test.comparators), not pol)]
    return [(test, pol)]


class DefFlags(flow.DefaultCB):
    def __init__(self, prog: Program, f: Func) -> None:
        self.prog = prog
        self.f = f
        self.reports: list[tuple[ast.AST, str, str, frozenset]] = []
        self.params = set(f.params)
        g = f.parent
        while g is not None:
            self.params |= set(g.params)
            g = g.parent
        self.module_names = set(prog.modules[f.module].imports) | {n.name for n in prog.modules[f.module].tree.body if isinstance(n, (ast.FunctionDef, ast.ClassDef))}
        for n in prog.modules[f.module].tree.body:
            if isinstance(n, (ast.Assign, ast.AnnAssign)):
                for t in (n.targets if isinstance(n, ast.Assign) else [n.target]):
                    if isinstance(t, ast.Name):
                        self.module_names.add(t.id)
        self.locals = {n.id for n in prog.nodes(f) if isinstance(n, ast.Name) and isinstance(n.ctx, ast.Store)}
        self.paths = 0

    # --- helpers
    def _names_read(self, e: ast.AST) -> list[ast.Name]:
        out = []
        for n in ast.walk(e):
            if isinstance(n, ast.Name) and isinstance(n.ctx, ast.Load):
                out.append(n)
        # comprehension-bound names are not reads of outer locals
        bound = set()
        for n in ast.walk(e):
            if isinstance(n, ast.comprehension):
                for x in ast.walk(n.target):
                    if isinstance(x, ast.Name):
                        bound.add(x.id)
            if isinstance(n, ast.Lambda):
                bound |= {a.arg for a in n.args.args}
        return [n for n in out if n.id not in bound]

    def _check_reads(self, s: DState, e: ast.AST, where: ast.AST) -> None:
        for n in self._names_read(e):
            if n.id in self.locals and n.id not in self.params and n.id not in s.assigned:
                self.reports.append((n, n.id, norm(where)[:100], s.flags))

    def _kill(self, s: DState, name: str) -> DState:
        fl = frozenset((a, v) for a, v in s.flags if name not in _idents(a))
        return DState(s.assigned, fl)

    # --- walker callbacks
    def expr(self, s: DState, e: ast.AST, st: ast.stmt) -> DState:
        if s is None or e is None:
            return s
        if isinstance(e, (ast.Name, ast.Tuple, ast.List)) and isinstance(getattr(e, 'ctx', None), ast.Store):
            return s
        if isinstance(e, (ast.Subscript, ast.Attribute)) and isinstance(getattr(e, 'ctx', None), ast.Store):
            self._check_reads(s, e.value, st)
            if isinstance(e, ast.Subscript):
                self._check_reads(s, e.slice, st)
            return s
        self._check_reads(s, e, st)
        return s

    def stmt(self, s: DState, st: ast.stmt) -> DState:
        tg: list[ast.AST] = []
        if isinstance(st, ast.Assign):
            tg = list(st.targets)
        elif isinstance(st, (ast.AugAssign, ast.AnnAssign)):
            if isinstance(st, ast.AugAssign) and isinstance(st.target, ast.Name):
                self._check_reads(s, ast.Name(id=st.target.id, ctx=ast.Load()), st)
            tg = [st.target] if getattr(st, 'value', None) is not None or isinstance(st, ast.AugAssign) else []
        elif isinstance(st, (ast.FunctionDef, ast.AsyncFunctionDef, ast.ClassDef)):
            return DState(s.assigned | {st.name}, s.flags)
        elif isinstance(st, (ast.Import, ast.ImportFrom)):
            return DState(s.assigned | {(a.asname or a.name).split('.')[0] for a in st.names}, s.flags)
        names = []
        for t in tg:
            for n in ast.walk(t):
                if isinstance(n, ast.Name) and isinstance(n.ctx, ast.Store):
                    names.append(n.id)
        for nm in names:
            s = self._kill(s, nm)
        if names:
            s = DState(s.assigned | set(names), s.flags)
        return s

    def _kleene(self, s: DState, e: ast.expr) -> bool | None:
        """Three-valued value of a test under the remembered flag values."""
        if isinstance(e, ast.UnaryOp) and isinstance(e.op, ast.Not):
            v = self._kleene(s, e.operand)
            return None if v is None else (not v)
        if isinstance(e, ast.BoolOp):
            vs = [self._kleene(s, v) for v in e.values]
            if isinstance(e.op, ast.And):
                if any(v is False for v in vs):
                    return False
                return True if all(v is True for v in vs) else None
            if any(v is True for v in vs):
                return True
            return False if all(v is False for v in vs) else None
        ats = _atoms(e, True)
        if ats and len(ats) == 1:
            a, pol = ats[0]
            v = s.val(norm(a))
            if v is not None:
                return v == pol
        return None

    def assume(self, s: DState, test: ast.expr, pol: bool) -> DState | None:
        kv = self._kleene(s, test)
        if kv is not None and kv != pol:
            return None
        ats = _atoms(test, pol)
        if ats is None:
            # disjunction: refine only if all but one disjunct are known false
            t2, p2 = test, pol
            while isinstance(t2, ast.UnaryOp) and isinstance(t2.op, ast.Not):
                t2, p2 = t2.operand, not p2
            if isinstance(t2, ast.BoolOp):
                # (a and b) is False  ==  (not a) or (not b);   (a or b) is True  ==  a or b
                open_ = [v for v in t2.values if self._kleene(s, v) is not (not p2)]
                if len(open_) == 1 and len(t2.values) > 1:
                    return self.assume(s, open_[0], p2)
            return s
        fl = dict(s.flags)
        for a, v in ats:
            key = norm(a)
            if not self._is_flag(a):
                continue
            if key in fl and fl[key] != v:
                return None
            fl[key] = v
            # x is None / x is not None are complementary via the canonical Is-form (handled by _atoms)
        return DState(s.assigned, frozenset(fl.items()))

    def _is_flag(self, a: ast.expr) -> bool:
        """Atoms whose value cannot change between two evaluations on one path unless a local they read is assigned
        (assignments kill the flags that mention the name)."""
        for n in ast.walk(a):
            if isinstance(n, ast.Call):
                fn = norm(n.func)
                if isinstance(n.func, ast.Attribute) and n.func.attr in ('pop', 'append', 'next', 'wait', 'item', 'popitem', 'read'):
                    return False
                if fn in ('next', 'input'):
                    return False
        return True

    def join(self, a: DState, b: DState) -> DState:
        if a == b:
            return a
        return DState(a.assigned & b.assigned, a.flags & b.flags)

    def loop_enter(self, s: DState, loop: ast.stmt) -> DState:
        if not isinstance(loop, (ast.For, ast.AsyncFor)):
            return s
        tnames = {n.id for n in ast.walk(loop.target) if isinstance(n, ast.Name)}
        body_assigned = set()
        accum = set()
        for st in loop.body:
            for n in ast.walk(st):
                if isinstance(n, ast.Name) and isinstance(n.ctx, ast.Store):
                    body_assigned.add(n.id)
                if isinstance(n, ast.AugAssign) and isinstance(n.target, ast.Name):
                    accum.add(n.target.id)
                if isinstance(n, ast.Assign) and len(n.targets) == 1 and isinstance(n.targets[0], ast.Name) \
                        and any(isinstance(x, ast.Name) and x.id == n.targets[0].id for x in ast.walk(n.value)):
                    accum.add(n.targets[0].id)   # x = f(x, ...): declared loop-carried
        # per-iteration scope: values of a previous iteration are not visible unless accumulated
        fresh = (body_assigned - accum - tnames)
        st2 = DState((s.assigned - fresh) | tnames, s.flags)
        for nm in tnames | fresh:
            st2 = self._kill(st2, nm)
        return st2


def _idents(text: str) -> set[str]:
    import re
    return set(re.findall(r'[A-Za-z_][A-Za-z_0-9]*', text))


class Partitioned(flow.DefaultCB):
    """Lifts DefFlags to sets of states partitioned by their flag valuation (trace partitioning):
    states are merged only when their remembered flag values are identical."""

    LIMIT = 256

    def __init__(self, inner: DefFlags) -> None:
        self.inner = inner

    def _norm(self, states) -> frozenset | None:  # noqa: ANN001
        by: dict[frozenset, frozenset] = {}
        for st in states:
            if st is None:
                continue
            by[st.flags] = (by[st.flags] & st.assigned) if st.flags in by else st.assigned
        if not by:
            return None
        if len(by) > self.LIMIT:
            # too many partitions: fall back to a single merged state (sound, less precise)
            fl = None
            asg = None
            for f_, a_ in by.items():
                fl = f_ if fl is None else (fl & f_)
                asg = a_ if asg is None else (asg & a_)
            return frozenset([DState(asg, fl)])
        return frozenset(DState(a_, f_) for f_, a_ in by.items())

    def expr(self, S, e, st):  # noqa: ANN001
        return self._norm(self.inner.expr(s, e, st) for s in S) if S else S

    def stmt(self, S, st):  # noqa: ANN001
        return self._norm(self.inner.stmt(s, st) for s in S) if S else S

    def assume(self, S, test, pol):  # noqa: ANN001
        if not S:
            return S
        return self._norm(self.inner.assume(s, test, pol) for s in S)

    def join(self, A, B):  # noqa: ANN001
        return self._norm(list(A) + list(B))

    def loop_enter(self, S, loop):  # noqa: ANN001
        return self._norm(self.inner.loop_enter(s, loop) for s in S) if S else S


def run(prog: Program, f: Func) -> DefFlags:
    cb = DefFlags(prog, f)
    init = frozenset([DState(frozenset(cb.params), frozenset())])
    w = flow.Walker(Partitioned(cb), max_iter=4)
    w.run(f, init)
    return cb
