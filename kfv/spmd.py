"""E2 — SPMD analysis: collective inventory, effect summaries, rank labels.

A PARCOACH-style collective-matching analysis specialised to kfac-pytorch:
the same program text runs on every rank, so a collective is matched by all
members of its group iff the control conditions it depends on, its root and
the iteration order around it are uniform inside that group.
"""
from __future__ import annotations

import ast
from typing import Iterable

from kfv import flow
from kfv.core import AnalysisError
from kfv.model import Family
from kfv.model import Func
from kfv.model import Program
from kfv.model import Target
from kfv.model import dotted
from kfv.model import norm
from kfv.model import walk_no_nested

TD = 'torch.distributed.'
# primitive -> (group kw, positional index of group), (root kw, positional index) or None
COLLECTIVES: dict[str, tuple[tuple[str, int] | None, tuple[str, int] | None]] = {
    'all_reduce': (('group', 2), None),
    'broadcast': (('group', 2), ('src', 1)),
    'all_gather': (('group', 2), None),
    'all_gather_into_tensor': (('group', 2), None),
    'reduce_scatter': (('group', 3), None),
    'reduce_scatter_tensor': (('group', 3), None),
    'all_gather_object': (('group', 2), None),
    'broadcast_object_list': (('group', 2), ('src', 1)),
    'barrier': (('group', 0), None),
    'monitored_barrier': (('group', 0), None),
    'reduce': (('group', 3), ('dst', 1)),
    'gather': (('group', 3), ('dst', 2)),
    'scatter': (('group', 3), ('src', 2)),
    'all_to_all': (('group', 2), None),
    'all_to_all_single': (('group', 4), None),
    'send': (('group', 2), ('dst', 1)),
    'recv': (('group', 2), ('src', 1)),
    'isend': (('group', 2), ('dst', 1)),
    'irecv': (('group', 2), ('src', 1)),
    'new_group': (None, None),
    'new_subgroups': (None, None),
    'new_subgroups_by_enumeration': (None, None),
    'init_process_group': (None, None),
    'destroy_process_group': (None, None),
}
NON_COLLECTIVE = {
    'get_rank', 'get_world_size', 'is_initialized', 'is_available', 'get_process_group_ranks',
    'get_backend', 'ProcessGroup', 'GroupMember', 'ReduceOp', 'Work', 'get_global_rank',
    'get_group_rank', 'is_nccl_available', 'is_gloo_available', 'is_mpi_available', 'group',
}
WORLD = ('WORLD', '')
# projections of a tensor that depend only on its shape / dtype / placement: uniform under A1
SHAPE_METHODS = {'element_size', 'nelement', 'numel', 'size', 'dim', 'ndimension', 'is_contiguous'}
# external methods whose result is a global, rank-independent description (A1)
UNIFORM_METHODS = {'topology'}   # PipelineModule.topology(): the global pipe x data x model grid
# rank-local observations of the environment are not uniform across ranks
ENV_MODULES = {'os', 'time', 'random', 'socket', 'tempfile', 'glob', 'shutil', 'pathlib'}
ENV_PURE = {'os.path.join', 'os.path.basename', 'os.path.dirname', 'os.path.splitext', 'os.path.normpath', 'os.sep'}
SHAPE_ATTRS = {'shape', 'dtype', 'device', 'ndim'}
MUTATORS = {'append', 'extend', 'add', 'update', 'insert', 'setdefault', '__setitem__'}


def prim_of(t: Target) -> str | None:
    if t.kind == 'ext' and isinstance(t.ref, str) and t.ref.startswith(TD):
        name = t.ref[len(TD):]
        if '.' in name:
            return None
        if name in NON_COLLECTIVE:
            return None
        return name
    return None


def call_arg(call: ast.Call, kw: str, pos: int) -> ast.expr | None:
    for k in call.keywords:
        if k.arg == kw:
            return k.value
    if pos < len(call.args) and not any(isinstance(a, ast.Starred) for a in call.args[: pos + 1]):
        return call.args[pos]
    return None


def is_none(e: ast.expr | None) -> bool:
    return e is None or (isinstance(e, ast.Constant) and e.value is None)


class SPMD:
    def __init__(self, prog: Program, family: Family) -> None:
        self.prog = prog
        self.family = family
        prog.family = family
        self.roots = self._roots()
        self.reach = self._reach()
        self.reach_set = {f.qualname for f in self.reach}
        self._guard_cache: dict[int, list[flow.Guard]] = {}
        self.prim_sites: dict[str, list[tuple[ast.Call, str]]] = {}
        self.indirect_sites: list[tuple[Func, ast.Call, list[Target]]] = []
        self.func_value_prims: list[tuple[Func, ast.AST, str]] = []
        self._inventory()
        self.may_coll = self._may_coll()
        self.group_params = self._group_params()
        self._labels()

    # ---------------------------------------------------------------- reach
    def _roots(self) -> list[Func]:
        p = self.prog
        roots: list[Func] = []
        seen = set()
        for c in p.mro(self.family.root):
            for tbl in (c.methods, c.getters, c.setters):
                for n, f in tbl.items():
                    if n not in seen:
                        seen.add(n)
                        roots.append(f)
        for q, f in p.funcs.items():
            if f.module in ('kfac.tracing', 'kfac.scheduler', 'kfac.hyperparams') and f.parent is None:
                roots.append(f)
        return roots

    def callees(self, f: Func) -> list[tuple[ast.AST, Func]]:
        """(site node, callee) for calls, property accesses and nested functions of f."""
        p = self.prog
        if not hasattr(self, '_callees_cache'):
            self._callees_cache: dict[str, list] = {}
        if f.qualname in self._callees_cache:
            return self._callees_cache[f.qualname]
        out: list[tuple[ast.AST, Func]] = []
        self._callees_cache[f.qualname] = out
        for c in p.calls_in(f):
            for t in p.resolve_call(f, c):
                if t.kind == 'func':
                    out.append((c, t.ref))  # type: ignore[arg-type]
                elif t.kind == 'field':
                    for v in self.field_callables(str(t.ref)):
                        if v.kind == 'func':
                            out.append((c, v.ref))  # type: ignore[arg-type]
        for node, _kind, accs in p.property_accesses(f):
            for a in accs:
                out.append((node, a))
        for q, g in p.funcs.items():
            if g.parent is f:
                out.append((g.node, g))
        return out

    def _reach(self) -> list[Func]:
        seen: dict[str, Func] = {}
        todo = list(self.roots)
        while todo:
            f = todo.pop()
            if f.qualname in seen:
                continue
            seen[f.qualname] = f
            for _site, g in self.callees(f):
                if g.qualname not in seen:
                    todo.append(g)
        return sorted(seen.values(), key=lambda f: f.qualname)

    # ----------------------------------------------- callable-valued fields
    def field_callables(self, field: str) -> list[Target]:
        """Values of a callable-valued field `<class fullname>.<attr>` through constructor arguments."""
        p = self.prog
        if not hasattr(self, '_fc_cache'):
            self._fc_cache: dict[str, list[Target]] = {}
        if field in self._fc_cache:
            return self._fc_cache[field]
        cls, _, attr = field.rpartition('.')
        out: list[Target] = []
        self._fc_cache[field] = out
        if cls not in p.classes:
            return out
        for c in p.mro(cls):
            for m in c.methods.values():
                for _once in (0,):
                    for n in p.nodes(m):
                        if isinstance(n, ast.Assign) and any(
                                isinstance(t, ast.Attribute) and t.attr == attr and isinstance(t.value, ast.Name) and t.value.id == 'self'
                                for t in n.targets):
                            for t in p.callable_refs(m, n.value):
                                if t.kind == 'param':
                                    out += self._param_values(m, str(t.ref).split(':')[1])
                                else:
                                    out.append(t)
        return out

    def callers_of(self, m: Func) -> list[tuple[Func, ast.Call]]:
        p = self.prog
        if not hasattr(self, '_callers'):
            self._callers: dict[str, list[tuple[Func, ast.Call]]] = {}
            for f in p.functions():
                for c in p.calls_in(f):
                    for t in p.resolve_call(f, c):
                        if t.kind == 'func':
                            self._callers.setdefault(t.ref.qualname, []).append((f, c))  # type: ignore[union-attr]
        return self._callers.get(m.qualname, [])

    def _param_values(self, m: Func, param: str) -> list[Target]:
        p = self.prog
        out: list[Target] = []
        for f, c in self.callers_of(m):
            for _once in (0,):
                for t in p.resolve_call(f, c):
                    if t.kind == 'func' and t.ref is m:
                        b = p.bind_args(c, m)
                        if param in b:
                            out += p.callable_refs(f, b[param])
        return out

    # ------------------------------------------------------------ inventory
    def _inventory(self) -> None:
        p = self.prog
        for f in p.functions():
            sites = []
            for c in p.calls_in(f):
                ts = p.resolve_call(f, c)
                prims = [prim_of(t) for t in ts]
                if any(prims):
                    sites.append((c, next(x for x in prims if x)))
                    continue
                for t in ts:
                    if t.kind == 'ext' and isinstance(t.ref, str) and t.ref.startswith(TD) and prim_of(t) is None \
                            and t.ref[len(TD):].split('.')[0] not in NON_COLLECTIVE:
                        sites.append((c, t.ref[len(TD):]))
                    if t.kind == 'field':
                        vals = self.field_callables(str(t.ref))
                        if any(prim_of(v) for v in vals):
                            self.indirect_sites.append((f, c, vals))
            if sites:
                self.prim_sites[f.qualname] = sites
            # primitives used as function values (passed along, e.g. dist.new_group as group_func)
            for _once in (0,):
                for n in p.nodes(f):
                    if isinstance(n, (ast.Attribute, ast.Name)) and isinstance(getattr(n, 'ctx', None), ast.Load):
                        par = p.parent(f.module, n)
                        if isinstance(par, ast.Call) and par.func is n:
                            continue
                        if isinstance(par, ast.Attribute):
                            continue
                        d = dotted(n)
                        if d:
                            full = p.resolve_name(p.modules[f.module], d)
                            if full.startswith(TD) and full[len(TD):] in COLLECTIVES:
                                self.func_value_prims.append((f, n, full[len(TD):]))

    def inventory_count(self) -> dict[str, int]:
        d: dict[str, int] = {}
        for sites in self.prim_sites.values():
            for _c, prim in sites:
                d[prim] = d.get(prim, 0) + 1
        return d

    # ---------------------------------------------------------- may_coll
    def _may_coll(self) -> dict[str, set[str]]:
        """qualname -> set of primitives the function may (transitively) issue."""
        p = self.prog
        mc: dict[str, set[str]] = {f.qualname: set() for f in p.functions()}
        for q, sites in self.prim_sites.items():
            mc[q] |= {prim for _c, prim in sites}
        for f, _c, vals in self.indirect_sites:
            mc[f.qualname] |= {prim_of(v) for v in vals if prim_of(v)}  # type: ignore[misc]
        edges: dict[str, list[str]] = {}
        for f in p.functions():
            edges[f.qualname] = [g.qualname for _s, g in self.callees(f)]
        changed = True
        while changed:
            changed = False
            for q, gs in edges.items():
                for g in gs:
                    if not mc[g] <= mc[q]:
                        mc[q] |= mc[g]
                        changed = True
        return mc

    def site_prims(self, f: Func, c: ast.Call) -> set[str]:
        """Primitives a call site may issue (directly or through its callees)."""
        p = self.prog
        if not hasattr(self, '_sp_cache'):
            self._sp_cache: dict[int, set[str]] = {}
        if id(c) in self._sp_cache:
            return self._sp_cache[id(c)]
        out: set[str] = set()
        self._sp_cache[id(c)] = out
        for t in p.resolve_call(f, c):
            pr = prim_of(t)
            if pr:
                out.add(pr)
            elif t.kind == 'ext' and isinstance(t.ref, str) and t.ref.startswith(TD) and t.ref[len(TD):].split('.')[0] not in NON_COLLECTIVE:
                out.add(t.ref[len(TD):])
            elif t.kind == 'func':
                out |= self.may_coll[t.ref.qualname]  # type: ignore[union-attr]
            elif t.kind == 'field':
                for v in self.field_callables(str(t.ref)):
                    if prim_of(v):
                        out.add(prim_of(v))  # type: ignore[arg-type]
                    elif v.kind == 'func':
                        out |= self.may_coll[v.ref.qualname]  # type: ignore[union-attr]
        return out

    # ------------------------------------------------------- group params
    def _group_params(self) -> dict[str, set[str]]:
        """qualname -> parameter names that flow into the group argument of a collective."""
        p = self.prog
        gp: dict[str, set[str]] = {f.qualname: set() for f in p.functions()}
        self.group_fields: set[tuple[str, str]] = set()   # (root class, attr) used as group of a collective
        changed = True
        while changed:
            changed = False
            for f in p.functions():
                for c in p.calls_in(f):
                    sinks: list[ast.expr] = []
                    for t in p.resolve_call(f, c):
                        pr = prim_of(t)
                        if pr and pr in COLLECTIVES and COLLECTIVES[pr][0]:
                            kw, pos = COLLECTIVES[pr][0]  # type: ignore[misc]
                            a = call_arg(c, kw, pos)
                            if a is not None:
                                sinks.append(a)
                        elif t.kind == 'func':
                            g: Func = t.ref  # type: ignore[assignment]
                            b = p.bind_args(c, g)
                            for prm in gp[g.qualname]:
                                if prm in b:
                                    sinks.append(b[prm])
                    for a in sinks:
                        if isinstance(a, ast.Name):
                            owner: Func | None = f
                            while owner is not None and a.id not in owner.params:
                                owner = owner.parent
                            if owner is not None and a.id not in gp[owner.qualname]:
                                gp[owner.qualname].add(a.id)
                                changed = True
                        elif isinstance(a, ast.Attribute) and isinstance(a.value, ast.Name) and a.value.id == 'self' and f.cls:
                            key = (self.root_class(f.cls), a.attr)
                            if key not in self.group_fields:
                                self.group_fields.add(key)
                                changed = True
                # params stored into group fields
                if f.cls:
                    for _once in (0,):
                        for n in p.nodes(f):
                            if isinstance(n, ast.Assign) and isinstance(n.value, ast.Name) and n.value.id in f.params:
                                for t2 in n.targets:
                                    if isinstance(t2, ast.Attribute) and isinstance(t2.value, ast.Name) and t2.value.id == 'self' \
                                            and (self.root_class(f.cls), t2.attr) in self.group_fields \
                                            and n.value.id not in gp[f.qualname]:
                                        gp[f.qualname].add(n.value.id)
                                        changed = True
        return gp

    def root_class(self, cls: str) -> str:
        m = self.prog.mro(cls)
        return m[-1].fullname if m else cls

    # ------------------------------------------------------------- guards
    def guards(self, f: Func, node: ast.AST) -> list[flow.Guard]:
        k = id(node)
        if k not in self._guard_cache:
            self._guard_cache[k] = flow.guards(self.prog, f, node)
        return self._guard_cache[k]

    # -------------------------------------------------------------- labels
    def _labels(self) -> None:
        self.var: dict[tuple[str, str], set[str]] = {}
        self.param: dict[tuple[str, str], set[str]] = {}
        self.ret: dict[str, set[str]] = {}
        self.fld: dict[tuple[str, str], set[str]] = {}
        self.ctx: dict[str, set[str]] = {}
        self.seeds: list[str] = []
        # J-BKT: the state of the bucket of group g is a function of the sequence of
        # allreduce_bucketed(..., group=g) calls and tensor sizes; every such call is itself a
        # collective-equivalent event checked by S1 at its call site, so bucket state is uniform
        # inside g by induction.  Anchor (checked by rule OWN-BKT): these fields are written only
        # inside AllreduceTensorBucket / TorchDistributedCommunicator.
        self.exempt_fields = {
            ('kfac.distributed.AllreduceTensorBucket', a) for a in ('_tensors', '_futures', '_size', '_communicated', '_group')
        } | {('kfac.distributed.TorchDistributedCommunicator', '_allreduce_buckets')}
        self.why: dict[tuple, str] = {}
        self._cur = 'seed'
        p = self.prog
        for f in self.reach:
            for prm in f.params:
                if prm == 'local_rank':
                    self.param.setdefault((f.qualname, prm), set()).add('rank')
        if self.family.name == 'GPT':
            init = p.lookup_method(self.family.root, '__init__')
            if init is not None and 'model' in init.params:
                self.param.setdefault((init.qualname, 'model'), set()).add('pipe')
                self.seeds.append(f'{init.short}:model -> {{pipe}} (per-stage layers of a PipelineModule)')
        self._changed = True
        rounds = 0
        while self._changed:
            self._changed = False
            rounds += 1
            if rounds > 40:
                raise AnalysisError('rank-label fixpoint did not converge')
            for f in self.reach:
                self._scan(f)
        self.label_rounds = rounds

    def _add(self, table: dict, key: object, labs: Iterable[str], why: str = '') -> None:
        s = table.setdefault(key, set())
        for lab in labs:
            if lab not in s:
                s.add(lab)
                self._changed = True
                self.why.setdefault((id(table), str(key), lab), why or self._cur)

    def conc(self, labs: Iterable[str]) -> set[str]:
        """Resolve parameter tokens through the context-insensitive join over call sites."""
        out: set[str] = set()
        todo = list(labs)
        seen: set[str] = set()
        while todo:
            lab = todo.pop()
            if lab in seen:
                continue
            seen.add(lab)
            if lab.startswith('P:'):
                _, gq, prm = lab.split(':', 2)
                todo += list(self.param.get((gq, prm), set()))
            else:
                out.add(lab)
        return out

    def clabel(self, f: Func, e: ast.AST | None) -> set[str]:
        return self.conc(self.label(f, e))

    def grid_size_test(self, f: Func, atom: ast.expr) -> str | None:
        """J4: `set(self.pipe_parallel_peers) ==/!= set(self.{model,data}_parallel_peers)`.

        All three are the sets of ranks sharing coordinates with the local rank in a full
        pipe x data x model grid; |stage peers| = data*model, |MP peers| = model, |DP peers| = data,
        and MP/DP peers are subsets of the stage peers, so equality holds iff data == 1 (resp.
        model == 1): a fact about the grid sizes, equal on every rank.  Anchors: the operand fields
        and how they are computed."""
        if not (isinstance(atom, ast.Compare) and len(atom.ops) == 1 and isinstance(atom.ops[0], (ast.Eq, ast.NotEq))):
            return None
        sides = [atom.left, atom.comparators[0]]
        names = []
        for sd in sides:
            if isinstance(sd, ast.Call) and isinstance(sd.func, ast.Name) and sd.func.id == 'set' and len(sd.args) == 1:
                sd = sd.args[0]
            if isinstance(sd, ast.Attribute) and isinstance(sd.value, ast.Name) and sd.value.id == 'self':
                names.append(sd.attr)
        if len(names) != 2 or 'pipe_parallel_peers' not in names:
            return None
        other = [n for n in names if n != 'pipe_parallel_peers']
        if other not in (['model_parallel_peers'], ['data_parallel_peers']):
            return None
        # anchors: *_parallel_peers = get_group_with_rank(self.local_rank, self.*_parallel_groups);
        #          pipe_parallel_peers = [r for r in range(world) if get_coord(r).pipe == self.pipe_parallel_rank]
        ok = {'pipe': False, other[0]: False}
        for n in self.prog.nodes(f):
            if isinstance(n, ast.Assign) and len(n.targets) == 1 and isinstance(n.targets[0], ast.Attribute):
                t = n.targets[0]
                if t.attr == other[0] and isinstance(n.value, ast.Call) and norm(n.value.func).endswith('get_group_with_rank') \
                        and n.value.args and norm(n.value.args[0]) == 'self.local_rank':
                    ok[other[0]] = True
                if t.attr == 'pipe_parallel_peers' and isinstance(n.value, ast.ListComp) and '.pipe == self.pipe_parallel_rank' in norm(n.value):
                    ok['pipe'] = True
        return 'J4' if all(ok.values()) else None

    def guard_labels(self, f: Func, node: ast.AST) -> set[str]:
        out: set[str] = set()
        for g in self.guards(f, node):
            if self.grid_size_test(f, g.test):
                continue   # J4: world-uniform by grid arithmetic
            out |= self.label(f, g.test)
        return out

    def explain(self, table: dict, key: object, lab: str) -> str:
        return self.why.get((id(table), str(key), lab), '?')

    def _field_key(self, f: Func, recv_classes: Iterable[str], attr: str) -> list[tuple[str, str]]:
        return [(self.root_class(rc), attr) for rc in recv_classes if rc in self.prog.classes]

    def _scan(self, f: Func) -> None:
        p = self.prog
        q = f.qualname
        cx = self.ctx.get(q, set())
        if f.kind == 'getter':
            # accessor rule: a property getter only normalises / caches its own backing slot
            # (Future -> awaited tensor); the calling context does not change what the slot holds
            cx = set()
        for _once in (0,):
            for n in p.nodes(f):
                if isinstance(n, ast.stmt) or isinstance(n, ast.Call):
                    self._cur = f'{f.short}:{getattr(n, "lineno", 0)}: {norm(n)[:80]}'
                if isinstance(n, (ast.Assign, ast.AugAssign, ast.AnnAssign)):
                    if getattr(n, 'value', None) is None:
                        continue
                    lab = self.label(f, n.value) | self.guard_labels(f, n)
                    tgts = n.targets if isinstance(n, ast.Assign) else [n.target]
                    for t in tgts:
                        self._assign(f, t, lab, cx)
                elif isinstance(n, (ast.For, ast.AsyncFor)):
                    self._assign(f, n.target, self.label(f, n.iter) | self.guard_labels(f, n), cx)
                elif isinstance(n, ast.comprehension):
                    self._assign(f, n.target, self.label(f, n.iter), cx)
                elif isinstance(n, ast.NamedExpr):
                    self._assign(f, n.target, self.label(f, n.value) | self.guard_labels(f, n), cx)
                elif isinstance(n, ast.With):
                    for it in n.items:
                        if it.optional_vars is not None:
                            self._assign(f, it.optional_vars, self.label(f, it.context_expr), cx)
                elif isinstance(n, ast.Return):
                    lab = (self.label(f, n.value) if n.value is not None else set()) | self.guard_labels(f, n)
                    self._add(self.ret, q, lab)
                elif isinstance(n, ast.Call):
                    gl = self.guard_labels(f, n)
                    for t in p.resolve_call(f, n):
                        if t.kind == 'func':
                            g: Func = t.ref  # type: ignore[assignment]
                            for prm, a in p.bind_args(n, g).items():
                                self._add(self.param, (g.qualname, prm), self.label(f, a))
                            self._add(self.ctx, g.qualname, self.conc(gl) | cx)
                    # mutation through method call: x.append(e)
                    if isinstance(n.func, ast.Attribute) and n.func.attr in MUTATORS:
                        lab = set().union(*[self.label(f, a) for a in n.args], *[self.label(f, k.value) for k in n.keywords]) | gl
                        self._assign(f, n.func.value, lab, cx)
        # property accesses and nested functions inherit context
        for node, _k, accs in p.property_accesses(f):
            gl = self.guard_labels(f, node)
            for a in accs:
                self._add(self.ctx, a.qualname, self.conc(gl) | cx)
                if a.kind == 'setter':
                    par = p.parent(f.module, node)
                    val = getattr(par, 'value', None)
                    if val is not None and len(a.params) >= 2:
                        self._add(self.param, (a.qualname, a.params[1]), self.label(f, val) | gl)
        for g2 in p.funcs.values():
            if g2.parent is f:
                self._add(self.ctx, g2.qualname, cx)

    def _assign(self, f: Func, t: ast.AST, lab: set[str], cx: set[str]) -> None:
        if isinstance(t, ast.Name):
            owner = f
            # nonlocal writes are not used in kfac; keep function-local
            self._add(self.var, (owner.qualname, t.id), lab)
        elif isinstance(t, (ast.Tuple, ast.List)):
            for e in t.elts:
                self._assign(f, e, lab, cx)
        elif isinstance(t, ast.Starred):
            self._assign(f, t.value, lab, cx)
        elif isinstance(t, ast.Subscript):
            self._assign(f, t.value, lab | self.label(f, t.slice), cx)
        elif isinstance(t, ast.Attribute):
            recv = self.prog.receiver_classes(f, t.value)
            keys = self._field_key(f, recv, t.attr)
            for k in keys:
                self._add(self.fld, k, self.conc(lab) | cx)
            # stores into attributes of out-of-package objects (module.weight.grad = ...) are data
            # writes into torch objects; they do not taint the holder (control decisions on such
            # data are rank-uniform by A1 / the property's own claim)

    def label(self, f: Func, e: ast.AST | None) -> set[str]:
        p = self.prog
        if e is None:
            return set()
        if isinstance(e, ast.Constant):
            return set()
        if isinstance(e, ast.Name):
            out: set[str] = set()
            g: Func | None = f
            while g is not None:
                out |= self.var.get((g.qualname, e.id), set())
                if e.id in g.params:
                    out.add(f'P:{g.qualname}:{e.id}')
                    break
                g = g.parent
            return out
        if isinstance(e, ast.Attribute):
            if e.attr == 'pipe' and isinstance(e.value, ast.Call) and isinstance(e.value.func, ast.Attribute) and e.value.func.attr == 'get_coord':
                inner = self.conc(set().union(*[self.label(f, a) for a in e.value.args])) if e.value.args else set()
                return ({'pipe'} if 'rank' in inner else set())
            if e.attr in SHAPE_ATTRS:
                return set()
            d = dotted(e)
            if d is not None:
                head = d.split('.')[0]
                if head != 'self' and head not in f.params and not p.local_defs(f, head) and head in p.modules[f.module].imports:
                    return set()
            for rc in p.receiver_classes(f, e.value):
                if rc in p.classes and (self.root_class(rc), e.attr) in self.exempt_fields:
                    return set()
            out = self.label(f, e.value) if not (isinstance(e.value, ast.Name) and e.value.id == 'self') else set()
            recv = p.receiver_classes(f, e.value)
            for rc in recv:
                if rc in p.classes:
                    getters = p.cha(rc, e.attr, 'getter')
                    for gt in getters:
                        out |= self.ret.get(gt.qualname, set())
                    out |= self.fld.get((self.root_class(rc), e.attr), set())
            return out
        if isinstance(e, ast.Call):
            if isinstance(e.func, ast.Attribute) and e.func.attr in SHAPE_METHODS:
                return set()
            if isinstance(e.func, ast.Attribute) and e.func.attr in UNIFORM_METHODS and not e.args:
                return set()
            ts = p.resolve_call(f, e)
            out = set()
            handled = False
            for t in ts:
                if t.kind == 'ext' and isinstance(t.ref, str) and t.ref.split('.')[0] in ENV_MODULES and t.ref not in ENV_PURE:
                    out.add('rank')     # file system / clock / randomness: rank-local observations
                    handled = True
                if t.kind == 'ext' and t.ref in (TD + 'get_rank',):
                    out.add('rank')
                    handled = True
                elif t.kind == 'func':
                    g2: Func = t.ref  # type: ignore[assignment]
                    if g2.name == '__init__' and g2.cls:
                        # constructed object: depends on its arguments
                        continue
                    b = p.bind_args(e, g2)
                    for lab in self.ret.get(g2.qualname, set()):
                        if lab.startswith('P:'):
                            _, gq, prm = lab.split(':', 2)
                            if gq == g2.qualname:
                                if prm in b:
                                    out |= self.label(f, b[prm])
                                elif prm in ('self', 'cls') and isinstance(e.func, ast.Attribute):
                                    pass
                                continue
                        out.add(lab)
                    handled = True
            # arguments and receiver always contribute for external / constructor calls
            ext = not handled or any(t.kind != 'func' or (t.ref.name == '__init__') for t in ts)  # type: ignore[union-attr]
            if ext:
                for a in e.args:
                    out |= self.label(f, a.value if isinstance(a, ast.Starred) else a)
                for k in e.keywords:
                    out |= self.label(f, k.value)
                if isinstance(e.func, ast.Attribute):
                    d = dotted(e.func)
                    head = d.split('.')[0] if d else None
                    if not (head and head in p.modules[f.module].imports and head not in f.params and not p.local_defs(f, head)):
                        out |= self.label(f, e.func.value)
            return out
        if isinstance(e, (ast.ListComp, ast.SetComp, ast.GeneratorExp)):
            out = self.label(f, e.elt)
            for g3 in e.generators:
                out |= self.label(f, g3.iter)
                for i in g3.ifs:
                    out |= self.label(f, i)
            return out
        if isinstance(e, ast.DictComp):
            out = self.label(f, e.key) | self.label(f, e.value)
            for g3 in e.generators:
                out |= self.label(f, g3.iter)
                for i in g3.ifs:
                    out |= self.label(f, i)
            return out
        if isinstance(e, ast.Lambda):
            return set()
        if isinstance(e, (ast.FunctionDef, ast.AsyncFunctionDef)):
            return set()
        out = set()
        for c in ast.iter_child_nodes(e):
            if isinstance(c, (ast.expr_context, ast.operator, ast.cmpop, ast.boolop, ast.unaryop)):
                continue
            out |= self.label(f, c)
        return out

    # -------------------------------------------------------- group effects
    def group_effects(self, f: Func, c: ast.Call, depth: int = 0) -> set[tuple[str, str]]:
        """Group references (as seen from the call site) of the collectives a call may issue.

        ('WORLD',''), ('param', name) of the *enclosing* function, ('field', 'Class.attr'),
        ('call', text) for assignment-method results, ('expr', text) otherwise.
        """
        p = self.prog
        out: set[tuple[str, str]] = set()
        if depth > 12:
            return {('expr', '<deep>')}
        for t in p.resolve_call(f, c):
            pr = prim_of(t)
            if pr:
                spec = COLLECTIVES.get(pr)
                if spec is None or spec[0] is None:
                    out.add(WORLD)
                else:
                    out.add(self.classify_group(f, call_arg(c, *spec[0])))
            elif t.kind == 'func':
                g: Func = t.ref  # type: ignore[assignment]
                if not self.may_coll[g.qualname]:
                    continue
                b = p.bind_args(c, g)
                for ref in self.func_group_effects(g, depth + 1):
                    if ref[0] == 'param':
                        if ref[1] in b:
                            out.add(self.classify_group(f, b[ref[1]]))
                        else:
                            out.add(self._default_group(g, ref[1]))
                    else:
                        out.add(ref)
            elif t.kind == 'field':
                for v in self.field_callables(str(t.ref)):
                    if prim_of(v):
                        out.add(WORLD)
        return out

    def _default_group(self, g: Func, prm: str) -> tuple[str, str]:
        a = g.node.args  # type: ignore[attr-defined]
        names = [x.arg for x in a.posonlyargs + a.args]
        defaults = dict(zip(names[len(names) - len(a.defaults):], a.defaults))
        for x, d in zip(a.kwonlyargs, a.kw_defaults):
            if d is not None:
                defaults[x.arg] = d
        d2 = defaults.get(prm)
        if d2 is not None and is_none(d2):
            return WORLD
        return ('expr', f'<default of {prm}>')

    _fge_cache: dict

    def func_group_effects(self, g: Func, depth: int = 0) -> set[tuple[str, str]]:
        if not hasattr(self, '_fge'):
            self._fge: dict[str, set] = {}
            self._fge_busy: set[str] = set()
        if g.qualname in self._fge:
            return self._fge[g.qualname]
        if g.qualname in self._fge_busy:
            return set()
        self._fge_busy.add(g.qualname)
        out: set[tuple[str, str]] = set()
        for c in self.prog.calls_in(g):
            if self.site_prims(g, c):
                out |= self.group_effects(g, c, depth)
        for h in self.prog.funcs.values():
            if h.parent is g and self.may_coll[h.qualname]:
                out |= self.func_group_effects(h, depth + 1)
        for node, _k, accs in self.prog.property_accesses(g):
            for a in accs:
                if self.may_coll[a.qualname]:
                    out |= self.func_group_effects(a, depth + 1)
        self._fge_busy.discard(g.qualname)
        self._fge[g.qualname] = out
        return out

    def classify_group(self, f: Func, e: ast.expr | None) -> tuple[str, str]:
        p = self.prog
        if is_none(e):
            return WORLD
        assert e is not None
        if isinstance(e, ast.Name):
            g: Func | None = f
            while g is not None:
                if e.id in g.params:
                    return ('param', e.id)
                defs = p.local_defs(g, e.id)
                if defs:
                    refs = {self.classify_group(g, d) for d in defs}
                    if len(refs) == 1:
                        return refs.pop()
                    return ('expr', norm(e))
                g = g.parent
            return ('expr', norm(e))
        if isinstance(e, ast.Attribute):
            recv = p.receiver_classes(f, e.value)
            for rc in recv:
                if rc in p.classes:
                    return ('field', f'{self.root_class(rc).rsplit(".", 1)[1]}.{e.attr}')
            return ('expr', norm(e))
        if isinstance(e, ast.Call):
            ts = p.resolve_call(f, e)
            fs = [t.ref for t in ts if t.kind == 'func']
            if fs:
                # constant-folded interface methods (factor_group -> None)
                consts = set()
                for g2 in fs:
                    rets = [n for st in g2.body for n in walk_no_nested(st) if isinstance(n, ast.Return)]  # type: ignore[union-attr]
                    if rets and all(is_none(r.value) for r in rets):
                        consts.add('none')
                    elif rets and all(isinstance(r.value, ast.Attribute) and isinstance(r.value.value, ast.Name) and r.value.value.id == 'self' for r in rets) and len({r.value.attr for r in rets}) == 1:  # type: ignore[union-attr]
                        consts.add('field:' + f'{self.root_class(g2.cls).rsplit(".", 1)[1]}.{rets[0].value.attr}')  # type: ignore[union-attr]
                    elif not rets:
                        consts.add('raises')
                    else:
                        consts.add('other')
                consts.discard('raises')
                if consts == {'none'}:
                    return WORLD
                if len(consts) == 1 and next(iter(consts)).startswith('field:'):
                    return ('field', next(iter(consts))[6:])
                return ('call', f'{fs[0].name}')  # type: ignore[union-attr]
            pr = [prim_of(t) for t in ts]
            if any(x == 'new_group' for x in pr):
                return ('new_group', norm(e))
        return ('expr', norm(e))

    def field_group_values(self, field: str, depth: int = 0) -> set[tuple[str, str]]:
        """Resolve a group-valued field (e.g. AllreduceTensorBucket._group) to the group refs stored into it."""
        p = self.prog
        cname, _, attr = field.partition('.')
        out: set[tuple[str, str]] = set()
        if depth > 6:
            return {('expr', field)}
        for c in p.classes.values():
            if self.root_class(c.fullname).rsplit('.', 1)[1] != cname:
                continue
            for m in list(c.methods.values()) + list(c.setters.values()):
                for st in m.body:
                    for n in walk_no_nested(st):
                        if isinstance(n, ast.Assign) and any(isinstance(t, ast.Attribute) and t.attr == attr and isinstance(t.value, ast.Name) and t.value.id == 'self' for t in n.targets):
                            ref = self.classify_group(m, n.value)
                            if ref[0] == 'param':
                                out |= self._param_group_values(m, ref[1], depth + 1)
                            else:
                                out.add(ref)
        # writes from outside the class: obj.attr = value
        for f in p.functions():
            for st in f.body:
                for n in walk_no_nested(st):
                    if isinstance(n, ast.Assign):
                        for t in n.targets:
                            if isinstance(t, ast.Attribute) and t.attr == attr and not (isinstance(t.value, ast.Name) and t.value.id == 'self'):
                                recv = p.receiver_classes(f, t.value)
                                if any(rc in p.classes and self.root_class(rc).rsplit('.', 1)[1] == cname for rc in recv):
                                    ref = self.classify_group(f, n.value)
                                    if ref[0] == 'field' and ref[1] != field:
                                        out |= self.field_group_values(ref[1], depth + 1) or {ref}
                                    elif ref[0] != 'field':
                                        out.add(ref)
        return out

    def _param_group_values(self, m: Func, prm: str, depth: int) -> set[tuple[str, str]]:
        p = self.prog
        out: set[tuple[str, str]] = set()
        if depth > 8:
            return {('expr', f'{m.short}:{prm}')}
        found = False
        for f, c in self.callers_of(m):
            if f.qualname not in self.reach_set:
                continue
            for _once in (0,):
                for t in p.resolve_call(f, c):
                    if t.kind == 'func' and t.ref is m:
                        found = True
                        b = p.bind_args(c, m)
                        if prm in b:
                            ref = self.classify_group(f, b[prm])
                            if ref[0] == 'param':
                                owner: Func | None = f
                                while owner is not None and ref[1] not in owner.params:
                                    owner = owner.parent
                                out |= self._param_group_values(owner or f, ref[1], depth + 1)
                            else:
                                out.add(ref)
                        else:
                            out.add(self._default_group(m, prm))
        if not found:
            out.add(('param', f'{m.short}:{prm}'))
        return out
