"""Call semantics for the abstract tensor interpreter (kfv.tensors): the finite operator vocabulary."""
from __future__ import annotations

import ast
from dataclasses import replace
from typing import Any

from kfv.model import Func
from kfv.model import norm
from kfv.tensors import NONE
from kfv.tensors import DT
from kfv.tensors import ListV
from kfv.tensors import NoneV
from kfv.tensors import ObjV
from kfv.tensors import ShapeV
from kfv.tensors import St
from kfv.tensors import SV
from kfv.tensors import Top
from kfv.tensors import TV
from kfv.tensors import _cmul
from kfv.tensors import atoms_of_axis
from kfv.tensors import axes_str
from kfv.tensors import has_q
from kfv.tensors import join_all
from kfv.tensors import prod_axis
from kfv.tensors import umul

INPLACE = {'add_', 'sub_', 'mul_', 'div_', 'copy_', 'fill_', 'zero_', 'clamp_', 'transpose_', 't_', 'resize_', 'set_', 'addmm_', 'sqrt_', 'pow_', 'neg_', 'squeeze_', 'unsqueeze_', 'swapaxes_', 'masked_fill_'}
VIEWS = {'view', 'reshape', 'contiguous', 't', 'transpose', 'data', 'real', 'diagonal', 'detach', 'squeeze', 'unsqueeze', 'flatten', 'narrow', 'permute', 'expand', 'unfold', 'to', 'float', 'type'}
DIST_SINKS = {'reduce_scatter': [0], 'broadcast': [0], 'all_gather': [0], 'all_reduce': [0], 'reduce': [0], 'all_gather_into_tensor': [0], 'reduce_scatter_tensor': [0], 'gather': [0], 'scatter': [0], 'recv': [0]}


def kw(e: ast.Call, name: str, pos: int | None = None) -> ast.expr | None:
    for k in e.keywords:
        if k.arg == name:
            return k.value
    if pos is not None and pos < len(e.args):
        return e.args[pos]
    return None


def dim_of(v: Any, n: int) -> int | None:
    if isinstance(v, SV):
        try:
            i = int(float(v.text))
        except ValueError:
            return None
        return i if i >= 0 else n + i
    return None


def call(cb: Any, e: ast.Call, s: St, quiet: bool) -> tuple[Any, St]:
    it = cb.it
    f: Func = cb.f
    fn = norm(e.func)
    args: list[Any] = []
    # ---------------- typing / builtins
    if fn in ('cast', 'typing.cast') and len(e.args) == 2:
        return cb.ev(e.args[1], s, quiet)
    if fn == 'isinstance':
        return SV((), norm(e), 'flag'), s
    if fn in ('list', 'tuple') and len(e.args) == 1:
        v, s = cb.ev(e.args[0], s, quiet)
        if isinstance(v, ShapeV):
            return v, s
        return (v if isinstance(v, ListV) else ListV((v,), star=True)), s
    if fn == 'range':
        return ObjV('range'), s
    if fn == 'len' and len(e.args) == 1:
        v, s = cb.ev(e.args[0], s, quiet)
        if isinstance(v, ShapeV):
            return SV((), str(len(v.axes)), 'num'), s
        return SV((), f'len({norm(e.args[0])})', 'num'), s
    if fn in ('int', 'float', 'abs') and len(e.args) == 1:
        v, s = cb.ev(e.args[0], s, quiet)
        if fn == 'int' and isinstance(v, SV) and v.kind == 'flag' and v.text in ('True', 'False'):
            return SV((), '1' if v.text == 'True' else '0', 'num'), s
        return (v if isinstance(v, SV) else SV((), norm(e), 'num')), s
    if fn in ('min', 'max', 'math.sqrt', 'sum') and e.args:
        vs = []
        for a in e.args:
            v, s = cb.ev(a, s, quiet)
            vs.append(v)
        u = vs[-1].unit if isinstance(vs[-1], SV) else ()
        return SV(u, norm(e)[:40], 'num'), s
    if fn in ('hasattr', 'callable', 'print', 'getattr'):
        return SV((), norm(e), 'flag'), s
    if fn in ('get_world_size', 'get_rank', 'dist.get_world_size', 'dist.get_rank', 'torch.distributed.get_world_size', 'torch.distributed.get_rank'):
        return SV((), norm(e), 'num'), s

    # evaluate positional arguments once
    for a in e.args:
        v, s = cb.ev(a, s, quiet)
        args.append(v)

    # ---------------- torch functions
    if fn in ('torch.linalg.eigh', 'torch.linalg.eig'):
        x = args[0] if args else Top('')
        if isinstance(x, TV) and len(x.axes) == 2:
            if x.axes[0] != x.axes[1]:
                it.err(f, e, f'eigendecomposition of a non-square quantity {x}')
            if fn.endswith('eigh') and 'sym' not in x.quals:
                it.err(f, e, f'eigh of a tensor not known to be symmetric: {x}')
            sp = x.axes[0]
            ea = ('eig', sp)
            it.events.append(('eig', f, e, x))
            vals = TV((ea,), x.unit, x.dtype, frozenset(), frozenset(), None, (), '')
            vecs = TV((sp, ea), (), x.dtype, frozenset({'orth'}), frozenset(), None, (), '')
            return ListV((vals, vecs)), s
        return it.top(f, e, f'eig of {x}'), s
    if fn == 'torch.linalg.inv':
        x = args[0] if args else Top('')
        if isinstance(x, TV) and len(x.axes) == 2:
            if x.axes[0] != x.axes[1]:
                it.err(f, e, f'inverse of a non-square quantity {x}')
            it.events.append(('inv', f, e, x))
            return TV(x.axes, umul((), x.unit, -1), x.dtype, frozenset({'inv'} | ({'sym'} if 'sym' in x.quals else set()) | ({'damped'} if 'damped' in x.quals else set())), frozenset(), None, (), ''), s
        return it.top(f, e, f'inv of {x}'), s
    if fn == 'torch.clamp':
        x = args[0] if args else Top('')
        mn = kw(e, 'min', 1)
        mx = kw(e, 'max', 2)
        if isinstance(x, TV):
            q = set(x.quals)
            if mn is not None and norm(mn) in ('0.0', '0', '0.') and mx is None:
                q.add('nonneg')
            else:
                it.events.append(('clamp-other', f, e, norm(e)))
            return replace(x, quals=frozenset(q), alias=frozenset()), s
        return it.top(f, e, 'clamp'), s
    if fn == 'torch.outer' and len(args) == 2:
        a, b = args
        if isinstance(a, TV) and isinstance(b, TV) and len(a.axes) == 1 and len(b.axes) == 1:
            q = {'nonneg'} if 'nonneg' in a.quals and 'nonneg' in b.quals else set()
            return TV((a.axes[0], b.axes[0]), umul(a.unit, b.unit), a.dtype if a.dtype == b.dtype else '?', frozenset(q), frozenset(), None, (), ''), s
        return it.top(f, e, f'outer of {a}, {b}'), s
    if fn == 'torch.diag' and len(args) == 1:
        v = args[0]
        if isinstance(v, TV) and len(v.axes) == 1:
            return TV((v.axes[0], v.axes[0]), v.unit, v.dtype, frozenset({'identity', 'sym'}) if v.const is not None else frozenset({'sym'}), frozenset(), v.const, (), ''), s
        return it.top(f, e, f'diag of {v}'), s
    if fn == 'torch.cat':
        lst = args[0] if args else Top('')
        dimn = kw(e, 'dim', 1)
        dv, s = cb.ev(dimn, s, quiet) if dimn is not None else (SV((), '0', 'num'), s)
        if isinstance(lst, ListV) and lst.items and all(isinstance(x, TV) for x in lst.items) and any(has_q(x.axes) for x in lst.items):
            return TV(('?',), lst.items[0].unit, lst.items[0].dtype, frozenset(), frozenset(), None, (), ''), s
        if isinstance(lst, ListV) and lst.items and all(isinstance(x, TV) for x in lst.items):
            ts = list(lst.items)
            n = len(ts[0].axes)
            d = dim_of(dv, n)
            if d is None or any(len(t.axes) != n for t in ts):
                return it.top(f, e, 'cat dim'), s
            if lst.star:
                a0 = ts[0].axes[d]
                full = a0[1] if isinstance(a0, tuple) and a0 and a0[0] == 'shard' else ('gathered', a0)
                it.events.append(('gather-cat', f, e, (d - n, a0)))
                return replace(ts[0], axes=ts[0].axes[:d] + (full,) + ts[0].axes[d + 1:], alias=frozenset(), src='', quals=frozenset()), s
            for t in ts[1:]:
                for i in range(n):
                    if i != d and t.axes[i] != ts[0].axes[i]:
                        it.err(f, e, f'cat along dim {d}: other axes differ: {ts[0]} vs {t}')
            ax = ts[0].axes[d]
            for t in ts[1:]:
                ax = ('cat', ax, t.axes[d])
            u = ts[0].unit
            it.events.append(('cat', f, e, (d, n, [t.const for t in ts], [t.axes[d] for t in ts])))
            return TV(ts[0].axes[:d] + (ax,) + ts[0].axes[d + 1:], u, ts[0].dtype, frozenset({'bias-ones'} if any(t.const == '1' for t in ts[1:]) else set()), frozenset(), None, ts[0].coef, ''), s
        return it.top(f, e, f'cat of {lst}'), s
    if fn in ('torch.empty', 'torch.zeros', 'torch.ones'):
        shp = args[0] if args else None
        dtn = kw(e, 'dtype')
        dt = '?'
        if dtn is not None:
            dv, s = cb.ev(dtn, s, quiet)
            dt = dv.token if isinstance(dv, DT) else norm(dtn)
        axes = None
        if isinstance(shp, ShapeV):
            axes = shp.axes
        elif isinstance(shp, SV) and shp.kind == 'size':
            axes = (shp.size,)
        elif isinstance(shp, ListV) and all(isinstance(x, SV) and x.kind == 'size' for x in shp.items):
            axes = tuple(x.size for x in shp.items)
        if axes is not None:
            return TV(axes, (), dt, frozenset({'placeholder'} if fn.endswith('empty') else set()), frozenset(), None if fn.endswith('empty') else ('0' if fn.endswith('zeros') else '1'), (), ''), s
        return it.top(f, e, f'{fn} with shape {shp}'), s
    if fn in ('torch.empty_like', 'torch.zeros_like', 'torch.ones_like'):
        x = args[0] if args else Top('')
        if isinstance(x, TV):
            return TV(x.axes, x.unit if False else (), x.dtype, frozenset({'placeholder'} if 'empty' in fn else set()), frozenset(), None, (), ''), s
        return it.top(f, e, f'{fn} of {x}'), s
    if fn == 'torch.split':
        x = args[0] if args else Top('')
        dimn = kw(e, 'dim', 2)
        dv, s = cb.ev(dimn, s, quiet) if dimn is not None else (SV((), '0', 'num'), s)
        if isinstance(x, TV):
            d = dim_of(dv, len(x.axes))
            if d is None:
                # dim given by a flag-dependent expression: keep symbolic
                it.events.append(('split-dim', f, e, norm(dimn) if dimn is not None else '0'))
                return ListV((replace(x, axes=tuple(('shard?', a) for a in x.axes)),), star=True), s
            ax = x.axes[d]
            new = ax[1] if isinstance(ax, tuple) and ax[0] == 'gathered' else (ax if getattr(it, 'single_partition', False) else ('shard', ax))
            it.events.append(('split', f, e, (d - len(x.axes), ax)))
            return ListV((replace(x, axes=x.axes[:d] + (new,) + x.axes[d + 1:], quals=frozenset()),), star=True), s
        return it.top(f, e, 'split'), s
    if fn == 'torch.triu_indices':
        return ObjV('triu_indices'), s
    if fn in ('torch.nn.functional.pad', 'F.pad'):
        x = args[0] if args else Top('')
        pt = e.args[1] if len(e.args) > 1 else kw(e, 'pad')
        pads = None

        def padtext(p_: ast.expr) -> str:
            # a local that holds one entry of the module's padding pair is that entry
            if isinstance(p_, ast.Name):
                v_, _s = cb.ev(p_, s, True)
                if isinstance(v_, ObjV) and v_.tag.split('[')[0] in ('padding', 'kernel_size', 'stride', 'dilation'):
                    return v_.tag
            return norm(p_)
        if isinstance(pt, (ast.Tuple, ast.List)):
            pads = [padtext(p) for p in pt.elts]
        elif isinstance(pt, ast.BinOp) and isinstance(pt.op, ast.Mult):
            # (a, b) * 2 — a repeated literal sequence
            seq, cnt = (pt.left, pt.right) if isinstance(pt.left, (ast.Tuple, ast.List)) else (pt.right, pt.left)
            if isinstance(seq, (ast.Tuple, ast.List)) and isinstance(cnt, ast.Constant) and isinstance(cnt.value, int) and 0 < cnt.value <= 4:
                pads = [norm(p) for p in seq.elts] * cnt.value
        elif isinstance(pt, ast.Name):
            ds = it.prog.local_defs(f, pt.id)
            if len(ds) == 1 and isinstance(ds[0], (ast.Tuple, ast.List)):
                pads = [norm(p) for p in ds[0].elts]
        if isinstance(x, TV) and pads is not None and len(pads) % 2 == 0:
            axes = list(x.axes)
            n = len(axes)
            for k in range(0, len(pads), 2):
                i = n - 1 - k // 2
                if i >= 0:
                    if pads[k] != pads[k + 1]:
                        it.events.append(('pad-asym', f, e, (axes[i], pads[k], pads[k + 1])))
                    axes[i] = ('pad', axes[i], pads[k])
            return replace(x, axes=tuple(axes), alias=frozenset()), s
        return it.top(f, e, 'pad'), s
    if fn.startswith('torch.distributed.') or fn.startswith('dist.'):
        prim = fn.split('.')[-1]
        if prim in DIST_SINKS:
            for i in DIST_SINKS[prim]:
                if i < len(args) and isinstance(args[i], TV) and args[i].alias:
                    it.events.append(('inplace', f, e, (f'output argument of {fn}', args[i])))
                if i < len(args) and isinstance(args[i], ListV) and args[i].shared:
                    it.err(f, e, f'{norm(e)[:70]}: every slot of the output list is the same tensor object (built by `[t] * n`): the collective writes all '
                                 'results into one buffer and the list afterwards holds n references to the last one written')
                if i < len(args) and isinstance(args[i], ListV):
                    for x in args[i].items:
                        if isinstance(x, TV) and x.alias:
                            it.events.append(('inplace', f, e, (f'output list of {fn}', x)))
            it.events.append(('dist', f, e, (prim, args)))
            return ObjV('work'), s
        return ObjV(fn), s
    if fn == 'torch.futures.Future':
        return ObjV('future'), s

    # ---------------- a local bound to a communicator method: allreduce = self.tdc.allreduce
    if isinstance(e.func, ast.Name):
        cv = s.get(e.func.id)
        if isinstance(cv, ObjV) and cv.tag.startswith('tdc.'):
            v = args[0] if args else None
            if v is None and kw(e, 'tensor') is not None:
                v, s = cb.ev(kw(e, 'tensor'), s, quiet)
            symn = kw(e, 'symmetric')
            it.events.append(('comm', f, e, (cv.tag[4:], v, norm(symn) if symn is not None else 'False')))
            return (v.fresh() if isinstance(v, TV) else v), s
    # ---------------- methods on values
    if isinstance(e.func, ast.Attribute):
        m = e.func.attr
        recv_node = e.func.value
        is_self = isinstance(recv_node, ast.Name) and recv_node.id == 'self'
        is_super = isinstance(recv_node, ast.Call) and isinstance(recv_node.func, ast.Name) and recv_node.func.id == 'super'
        if not is_self and not is_super:
            recv, s = cb.ev(recv_node, s, quiet=True)
            if isinstance(recv, TV):
                return tensor_method(cb, e, recv, m, args, s, quiet)
            if isinstance(recv, ShapeV) and m in ('numel',):
                return SV((), 'numel', 'size', prod_axis(list(recv.axes))), s
            if isinstance(recv, ListV) and m in ('append', 'extend'):
                return NONE, s
            if isinstance(recv, ObjV) and recv.tag in it_objects(it):
                return method_on_object(cb, e, recv, m, args, s, quiet)
            if isinstance(recv, ObjV) and recv.tag == 'tdc':
                # communication through the communicator returns the communicated value (new buffer)
                if m in ('allreduce', 'allreduce_bucketed', 'broadcast') and (args or kw(e, 'tensor') is not None):
                    v = args[0] if args else None
                    if v is None:
                        tn = kw(e, 'tensor')
                        if tn is not None:
                            v, s = cb.ev(tn, s, quiet)
                    symn = kw(e, 'symmetric')
                    it.events.append(('comm', f, e, (m, v, norm(symn) if symn is not None else 'False')))
                    return (v.fresh() if isinstance(v, TV) else v), s
                return ObjV('tdc.' + m), s
            if isinstance(recv, ObjV):
                return ObjV(f'{recv.tag}.{m}()'), s
            if isinstance(recv, (NoneV, Top)):
                return (Top(norm(e)) if quiet else it.top(f, e, f'method {m} on {recv}')), s
    # ---------------- calls into the package
    return package_call(cb, e, args, s, quiet)


def it_objects(it: Any) -> dict:
    if not hasattr(it, 'objects'):
        it.objects = {}
    return it.objects


def tensor_method(cb: Any, e: ast.Call, x: TV, m: str, args: list, s: St, quiet: bool) -> tuple[Any, St]:
    it = cb.it
    f = cb.f
    if has_q(x.axes):
        # shape-unknown tensor (paths disagreed): only alias / dtype facts are tracked
        if m in INPLACE or (m.endswith('_') and not m.startswith('_')):
            if x.alias:
                it.events.append(('inplace', f, e, (f'in-place method .{m}()', x)))
            return x, s
        if m in ('clone',):
            return x.fresh(), s
        if m in ('size', 'nelement', 'numel', 'element_size', 'dim'):
            return (SV((), '?', 'size', '?') if (m != 'size' or e.args) else ShapeV(('?',))), s
        if m in ('sum', 'item'):
            return SV(x.unit, '?', 'num'), s
        if m in VIEWS or m in ('contiguous', 'detach', 'permute', 'wait', 'cpu', 'cuda', 'float', 'half', 'bfloat16', 'double'):
            return x, s
        return replace(x, alias=frozenset()), s
    if m in INPLACE or (m.endswith('_') and not m.startswith('_') and m not in ('requires_grad_',)):
        if x.alias:
            it.events.append(('inplace', f, e, (f'in-place method .{m}()', x)))
        if m == 'fill_' and args:
            c = args[0]
            txt = 'damping' if isinstance(c, SV) and c.kind == 'damping' else (c.text if isinstance(c, SV) else norm(e.args[0]))
            u = c.unit if isinstance(c, SV) else ()
            return replace(x, const=txt, unit=u, quals=x.quals - {'placeholder'}), s
        if m == 'transpose_' and len(args) == 2:
            return tensor_method(cb, e, x, 'transpose', args, s, quiet)
        return x, s
    if m == 't' and not args:
        if len(x.axes) == 2:
            return replace(x, axes=(x.axes[1], x.axes[0]), src=f't({x.src})' if x.src else ''), s
        it.err(f, e, f'.t() of a non-matrix {x}')
        return x, s
    if m == 'transpose' and len(args) == 2:
        n = len(x.axes)
        i, j = dim_of(args[0], n), dim_of(args[1], n)
        if i is None or j is None:
            return it.top(f, e, 'transpose dims'), s
        ax = list(x.axes)
        ax[i], ax[j] = ax[j], ax[i]
        return replace(x, axes=tuple(ax), src=f't({x.src})' if x.src and n == 2 else ''), s
    if m == 'permute' and args:
        dims = args if len(args) > 1 else (list(args[0].items) if isinstance(args[0], ListV) else args)
        idx = [dim_of(d, len(x.axes)) for d in dims]
        if None in idx or sorted(idx) != list(range(len(x.axes))):
            return it.top(f, e, 'permute dims'), s
        return replace(x, axes=tuple(x.axes[i] for i in idx), src=''), s
    if m in ('contiguous', 'detach', 'cpu', 'cuda'):
        return x, s
    if m == 'clone':
        return x.fresh(), s
    if m in ('float', 'double', 'half', 'bfloat16'):
        return replace(x, dtype={'float': 'f32', 'double': 'f64', 'half': 'f16', 'bfloat16': 'bf16'}[m]), s
    if m == 'to':
        if e.args:
            a = args[0]
            if isinstance(a, DT):
                return replace(x, dtype=a.token), s     # may alias when the dtype already matches: alias kept
            if isinstance(a, ObjV):
                t = norm(e.args[0])
                if t.startswith('torch.float') or t.startswith('torch.bfloat') or t.startswith('torch.half') or t.startswith('torch.double'):
                    return replace(x, dtype={'torch.float32': 'f32', 'torch.float': 'f32', 'torch.float16': 'f16', 'torch.bfloat16': 'bf16', 'torch.float64': 'f64'}.get(t, t)), s
                return x, s      # device
            if isinstance(a, NoneV):
                return x, s
            if isinstance(a, Top):
                return replace(x, dtype='?'), s
        return x, s
    if m == 'size':
        if not e.args:
            return ShapeV(x.axes), s
        i = dim_of(args[0], len(x.axes))
        if i is None or not (0 <= i < len(x.axes)):
            return it.top(f, e, 'size index'), s
        return SV((), f'size{axes_str((x.axes[i],))}', 'size', x.axes[i]), s
    if m in ('nelement', 'numel'):
        return SV((), 'numel', 'size', prod_axis(list(x.axes))), s
    if m == 'element_size':
        return SV((), 'element_size', 'num'), s
    if m in ('view', 'reshape'):
        return view(cb, e, x, args, s)
    if m in ('new', 'new_empty', 'new_ones', 'new_zeros'):
        a = args[0] if args else None
        axes = None
        if isinstance(a, SV) and a.kind == 'size':
            axes = (a.size,)
        elif isinstance(a, ShapeV):
            axes = a.axes
        elif isinstance(a, ListV) and all(isinstance(v, SV) and v.kind in ('size', 'num') for v in a.items):
            axes = tuple(v.size if v.kind == 'size' else ('ONE' if v.text == '1' else f'n{v.text}') for v in a.items)
        elif isinstance(a, ListV) and len(a.items) == 1 and isinstance(a.items[0], SV):
            axes = (a.items[0].size,)
        if axes is None and (isinstance(a, ShapeV) or isinstance(a, ListV)):
            axes = ('?',)
        if axes is None:
            return it.top(f, e, f'{m} with {a}'), s
        const = {'new_ones': '1', 'new_zeros': '0'}.get(m)
        return TV(axes, (), x.dtype, frozenset({'placeholder'} if const is None else set()), frozenset(), const, (), ''), s
    if m == 'unfold' and len(args) == 3:
        d = dim_of(args[0], len(x.axes))
        if d is None:
            return it.top(f, e, 'unfold dim'), s
        ksz, stp = norm(e.args[1]), norm(e.args[2])
        ax = list(x.axes)
        src = ax[d]
        ax[d] = ('win', src, ksz, stp)
        ax.append(('ker', src, ksz))
        it.events.append(('unfold', f, e, (src, ksz, stp)))
        return replace(x, axes=tuple(ax)), s
    if m == 'sum':
        return SV(x.unit, f'sum({x})', 'num'), s
    if m == 'item':
        return SV(x.unit, 'item', 'num'), s
    if m == 'diagonal':
        return replace(x, axes=(x.axes[0],)), s
    if m == 'unbind' and x.axes and x.axes[0] == ('parts', 'mp'):
        dv = args[0] if args else SV((), '0', 'num')
        if dim_of(dv, len(x.axes)) == 0:
            return ListV((replace(x, axes=tuple(x.axes[1:]), quals=frozenset()),), star=True), s
    if m == 'wait':
        return x, s
    if m in ('dim', 'ndimension'):
        return SV((), str(len(x.axes)), 'num'), s
    return (Top(norm(e)) if quiet else it.top(f, e, f'tensor method .{m}()')), s


def view(cb: Any, e: ast.Call, x: TV, args: list, s: St) -> tuple[Any, St]:
    it = cb.it
    f = cb.f
    if has_q(x.axes) or any(isinstance(d, SV) and has_q(d.size) for d in args) or any(isinstance(d, ShapeV) and has_q(d.axes) for d in args):
        return replace(x, axes=('?',), quals=frozenset(), src=''), s
    if len(args) == 1 and isinstance(args[0], ShapeV):
        tgt = args[0].axes
        if sorted(map(str, sum((atoms_of_axis(a) for a in tgt), []))) != sorted(map(str, sum((atoms_of_axis(a) for a in x.axes), []))):
            it.err(f, e, f'{norm(e)[:60]}: views {x} as a tensor over {axes_str(tgt)}: not the same index spaces')
        # order check: the flattening order of atoms must be preserved
        if [str(a) for a in sum((atoms_of_axis(a) for a in tgt), [])] != [str(a) for a in sum((atoms_of_axis(a) for a in x.axes), [])]:
            it.err(f, e, f'{norm(e)[:60]}: views {x} as {axes_str(tgt)}: index spaces are reordered by a view (needs a transpose)')
        return replace(x, axes=tgt, quals=frozenset(), src=''), s
    dims = args
    if len(dims) == 1 and isinstance(dims[0], ListV):
        dims = list(dims[0].items)
    if len(dims) == 2 and isinstance(dims[0], SV) and dims[0].kind == 'mp' and isinstance(dims[1], ShapeV) and len(dims[1].axes) == len(x.axes):
        # x.view(P, *chunk): row-major storage cut into P consecutive blocks.  The blocks are the chunks of a split
        # along axis d only when d is the leading axis (every axis before it has extent one).
        chunk = dims[1].axes
        diff = [i for i, (a, c) in enumerate(zip(x.axes, chunk)) if a != c]
        single = getattr(it, 'single_partition', False)

        def sharded(a: Any, c: Any) -> bool:
            return c == ('shard', a) or (isinstance(a, tuple) and a and a[0] in ('gathered', 'times-mp') and c == a[1])
        if single and not diff:
            return replace(x, axes=('ONE',) + tuple(chunk), quals=frozenset(), src=''), s
        if len(diff) != 1 or not sharded(x.axes[diff[0]], chunk[diff[0]]):
            it.err(f, e, f'{norm(e)[:60]}: views {x} as mp blocks of {axes_str(tuple(chunk))}: the block shape is not {x} with one axis divided by the partition count')
            return replace(x, axes=('?',), quals=frozenset(), src=''), s
        d = diff[0]
        if any(a != 'ONE' for a in x.axes[:d]):
            it.err(f, e, f'{norm(e)[:60]}: views {x} as mp consecutive blocks of shape {axes_str(tuple(chunk))}: consecutive blocks of row-major storage are a split along the '
                         f'leading axis, but the block shape divides axis {d}; the blocks are not the chunks of a split along that axis')
        it.events.append(('split', f, e, (d - len(x.axes), x.axes[d])))
        return replace(x, axes=(('parts', 'mp'),) + tuple(chunk), quals=frozenset(), src=''), s
    out: list = []
    used: list = []
    hole = None
    for i, d in enumerate(dims):
        if isinstance(d, SV) and d.kind == 'size':
            out.append(d.size)
            used += atoms_of_axis(d.size)
        elif isinstance(d, SV) and d.text == '-1':
            hole = i
            out.append(None)
        elif isinstance(d, SV) and d.text == '1':
            out.append('ONE')
        else:
            return it.top(f, e, f'view dimension {d}'), s
    atoms = sum((atoms_of_axis(a) for a in x.axes), [])
    rest = list(atoms)
    for u in used:
        if u in rest:
            rest.remove(u)
        else:
            it.err(f, e, f'{norm(e)[:60]}: size {u} is not a size of {x}')
    if hole is not None:
        out[hole] = prod_axis(rest)
    elif rest:
        it.err(f, e, f'{norm(e)[:60]}: view drops index spaces {rest} of {x}')
    flat = [str(a) for a in sum((atoms_of_axis(a) for a in out), [])]
    if flat != [str(a) for a in atoms]:
        it.err(f, e, f'{norm(e)[:60]}: the view lists the index spaces of {x} in a different order ({axes_str(tuple(out))}); a view cannot permute')
    return replace(x, axes=tuple(out), quals=frozenset(), src=''), s


def method_on_object(cb: Any, e: ast.Call, recv: ObjV, m: str, args: list, s: St, quiet: bool) -> tuple[Any, St]:
    it = cb.it
    obj = it_objects(it)[recv.tag]
    cls = obj.get('__class__')
    g = it.prog.lookup_method(cls, m) if cls else None
    if g is None:
        return (Top(norm(e)) if quiet else it.top(cb.f, e, f'method {m} of object {recv.tag}')), s
    bound = bind(it, e, g, args, cb, s)
    it.events.append(('call', cb.f, e, (f'{recv.tag}.{m}', bound)))
    slots = {k: v for k, v in obj.items()}
    slots['__class__'] = ObjV(cls)
    r, fin = it.call_function(g, {'self': recv, **bound}, slots, dict(s.flags_of_obj(recv.tag)) if hasattr(s, 'flags_of_obj') else obj_flags(it, recv.tag))
    if fin is not None:
        for k, v in fin.slots:
            if k != '__class__':
                obj[k] = v
    return r, s


def obj_flags(it: Any, tag: str) -> dict:
    return getattr(it, 'object_flags', {}).get(tag, {})


def bind(it: Any, e: ast.Call, g: Func, args: list, cb: Any, s: St) -> dict:
    a = g.node.args  # type: ignore[attr-defined]
    names = [x.arg for x in a.posonlyargs + a.args]
    if names[:1] == ['self']:
        names = names[1:]
    out: dict[str, Any] = {}
    for n, v in zip(names, args):
        out[n] = v
    for k in e.keywords:
        if k.arg:
            v, _ = cb.ev(k.value, s, True)
            out[k.arg] = v
    # defaults
    allp = a.posonlyargs + a.args
    defaults = dict(zip([x.arg for x in allp][len(allp) - len(a.defaults):], a.defaults))
    for x, d in zip(a.kwonlyargs, a.kw_defaults):
        if d is not None:
            defaults[x.arg] = d
    for n, d in defaults.items():
        if n not in out and n != 'self':
            if isinstance(d, ast.Constant):
                out[n] = NONE if d.value is None else (SV((), str(d.value), 'flag') if isinstance(d.value, bool) else SV((), repr(d.value), 'num'))
            elif isinstance(d, ast.UnaryOp) and isinstance(d.op, ast.USub) and isinstance(d.operand, ast.Constant):
                out[n] = SV((), repr(-d.operand.value), 'num')
    return out


def package_call(cb: Any, e: ast.Call, args: list, s: St, quiet: bool) -> tuple[Any, St]:
    it = cb.it
    f = cb.f
    ts = it.prog.resolve_call(f, e)
    funcs = [t.ref for t in ts if t.kind == 'func']
    is_self = isinstance(e.func, ast.Attribute) and ((isinstance(e.func.value, ast.Name) and e.func.value.id == 'self')
                                                      or (isinstance(e.func.value, ast.Call) and isinstance(e.func.value.func, ast.Name) and e.func.value.func.id == 'super'))
    g = None
    if is_self and isinstance(e.func.value, ast.Name):
        cls = cb._recv_cls(s)
        g = it.prog.lookup_method(cls, e.func.attr) if cls else None
    if g is None and len(funcs) == 1:
        g = funcs[0]
    if g is None and funcs:
        for c in getattr(it, 'concrete', []):
            for h in funcs:
                if h.cls and it.prog.is_subclass(c, h.cls):
                    cand = it.prog.lookup_method(c, h.name)
                    if cand is not None:
                        g = cand
                        break
            if g is not None:
                break
    if g is None:
        return (Top(norm(e)) if quiet else it.top(f, e, f'call {norm(e.func)}')), s
    bound = bind(it, e, g, args, cb, s)
    it.events.append(('call', f, e, (g.short, bound)))
    if is_self:
        r, fin = it.call_function(g, {'self': ObjV('self'), **bound}, dict(s.slots), dict(s.flags))
        if fin is not None:
            s = St(s.env, fin.slots, s.flags)
        return r, s
    r, _fin = it.call_function(g, bound, {}, dict(s.flags))
    return r, s
