"""E4 — term normal forms for scalar code.

Expressions are normalised to polynomials over atoms with Fraction
coefficients (commutativity, associativity, distribution, constant folding),
after copy propagation through an environment of local definitions.  Division
by a monomial gives negative exponents; other denominators, function calls,
subscripts and attribute loads are opaque atoms with normalised arguments.
One expression at a time; no path exploration, no solver.
"""
from __future__ import annotations

import ast
from fractions import Fraction
from typing import Callable

Mono = tuple  # tuple[(atom:str, exp:int), ...] sorted


class Poly:
    __slots__ = ('t',)

    def __init__(self, t: dict | None = None) -> None:
        self.t: dict[Mono, Fraction] = {k: v for k, v in (t or {}).items() if v != 0}

    @staticmethod
    def const(c: object) -> 'Poly':
        return Poly({(): Fraction(c)})  # type: ignore[arg-type]

    @staticmethod
    def atom(a: str) -> 'Poly':
        return Poly({((a, 1),): Fraction(1)})

    def __add__(self, o: 'Poly') -> 'Poly':
        t = dict(self.t)
        for k, v in o.t.items():
            t[k] = t.get(k, Fraction(0)) + v
        return Poly(t)

    def __neg__(self) -> 'Poly':
        return Poly({k: -v for k, v in self.t.items()})

    def __sub__(self, o: 'Poly') -> 'Poly':
        return self + (-o)

    def __mul__(self, o: 'Poly') -> 'Poly':
        t: dict[Mono, Fraction] = {}
        for k1, v1 in self.t.items():
            for k2, v2 in o.t.items():
                m: dict[str, int] = {}
                for a, e in k1 + k2:
                    m[a] = m.get(a, 0) + e
                k = tuple(sorted((a, e) for a, e in m.items() if e != 0))
                t[k] = t.get(k, Fraction(0)) + v1 * v2
        return Poly(t)

    def is_const(self) -> bool:
        return all(k == () for k in self.t)

    def const_value(self) -> Fraction | None:
        if not self.t:
            return Fraction(0)
        if self.is_const():
            return self.t[()]
        return None

    def is_monomial(self) -> bool:
        return len(self.t) == 1

    def inverse(self) -> 'Poly':
        if self.is_monomial():
            (k, v), = self.t.items()
            return Poly({tuple((a, -e) for a, e in k): 1 / v})
        return Poly.atom(f'inv({self.canon()})')

    def pow(self, n: int) -> 'Poly':
        if n < 0:
            return self.pow(-n).inverse()
        r = Poly.const(1)
        for _ in range(n):
            r = r * self
        return r

    def canon(self) -> str:
        if not self.t:
            return '0'
        parts = []
        for k in sorted(self.t, key=lambda k: (len(k), k)):
            v = self.t[k]
            mono = '*'.join(a if e == 1 else f'{a}^{e}' for a, e in k)
            if not mono:
                parts.append(str(v))
            elif v == 1:
                parts.append(mono)
            else:
                parts.append(f'{v}*{mono}')
        return ' + '.join(parts)

    def atoms(self) -> set[str]:
        return {a for k in self.t for a, _ in k}

    def __eq__(self, o: object) -> bool:
        return isinstance(o, Poly) and self.t == o.t

    def __hash__(self) -> int:
        return hash(frozenset(self.t.items()))

    def __repr__(self) -> str:
        return f'Poly({self.canon()})'

    def coeff_of(self, atom: str) -> 'Poly':
        """Polynomial c with self = c*atom + rest, rest free of atom (atom must occur with exponent 1 only)."""
        t = {}
        for k, v in self.t.items():
            d = dict(k)
            if d.get(atom) == 1:
                d.pop(atom)
                t[tuple(sorted(d.items()))] = v
        return Poly(t)

    def without(self, atom: str) -> 'Poly':
        return Poly({k: v for k, v in self.t.items() if atom not in dict(k)})


SQRT_NAMES = {'math.sqrt', 'sqrt', 'torch.sqrt', 'np.sqrt', 'numpy.sqrt'}
ABS_NAMES = {'abs', 'math.fabs', 'torch.abs'}
FLOAT_NAMES = {'float'}


class Normalizer:
    """expr -> Poly with copy propagation.

    env: name -> ast.expr (single reaching definition) or Poly
    atom_of: optional hook mapping an opaque ast node to an atom string (e.g. to identify
             `self.steps` with `self._steps`).
    """

    def __init__(self, env: dict | None = None, atom_of: Callable[[ast.AST], str | None] | None = None) -> None:
        self.env = env or {}
        self.atom_of = atom_of
        self._busy: set[str] = set()

    def text(self, n: ast.AST) -> str:
        try:
            return ast.unparse(n)
        except Exception:  # noqa: BLE001
            return ast.dump(n)

    def poly(self, e: ast.AST) -> Poly:
        if self.atom_of is not None:
            a = self.atom_of(e)
            if a is not None:
                return Poly.atom(a)
        if isinstance(e, ast.Constant):
            if isinstance(e.value, bool):
                return Poly.atom(str(e.value))
            if isinstance(e.value, int):
                return Poly.const(e.value)
            if isinstance(e.value, float):
                return Poly.const(Fraction(str(e.value)))
            return Poly.atom(repr(e.value))
        if isinstance(e, ast.Name):
            if e.id in self.env and e.id not in self._busy:
                v = self.env[e.id]
                if isinstance(v, Poly):
                    return v
                self._busy.add(e.id)
                try:
                    return self.poly(v)
                finally:
                    self._busy.discard(e.id)
            return Poly.atom(e.id)
        if isinstance(e, ast.UnaryOp):
            if isinstance(e.op, ast.USub):
                return -self.poly(e.operand)
            if isinstance(e.op, ast.UAdd):
                return self.poly(e.operand)
            return Poly.atom(f'{type(e.op).__name__}({self.poly(e.operand).canon()})')
        if isinstance(e, ast.BinOp):
            l, r = self.poly(e.left), self.poly(e.right)
            if isinstance(e.op, ast.Add):
                return l + r
            if isinstance(e.op, ast.Sub):
                return l - r
            if isinstance(e.op, ast.Mult):
                return l * r
            if isinstance(e.op, ast.Div):
                return l * r.inverse()
            if isinstance(e.op, ast.Pow):
                c = r.const_value()
                if c is not None and c.denominator == 1 and abs(c) <= 6:
                    return l.pow(int(c))
                if c == Fraction(1, 2):
                    return Poly.atom(f'sqrt({l.canon()})')
                return Poly.atom(f'pow({l.canon()},{r.canon()})')
            return Poly.atom(f'{type(e.op).__name__}({l.canon()},{r.canon()})')
        if isinstance(e, ast.Call):
            fn = self.text(e.func)
            args = [self.poly(a) for a in e.args]
            if fn in SQRT_NAMES and len(args) == 1 and not e.keywords:
                return Poly.atom(f'sqrt({args[0].canon()})')
            if fn in ABS_NAMES and len(args) == 1:
                return Poly.atom(f'abs({args[0].canon()})')
            if fn in FLOAT_NAMES and len(args) == 1:
                return args[0]
            if fn in ('min', 'max') and not e.keywords:
                return Poly.atom(f'{fn}({",".join(sorted(a.canon() for a in args))})')
            if isinstance(e.func, ast.Attribute):
                recv = self.poly(e.func.value).canon()
                fn = f'{recv}.{e.func.attr}'
            kws = [f'{k.arg}={self.poly(k.value).canon()}' for k in e.keywords]
            return Poly.atom(f'{fn}({",".join([a.canon() for a in args] + sorted(kws))})')
        if isinstance(e, (ast.Attribute, ast.Subscript)):
            k = self.text(e)
            if k in self.env and k not in self._busy:
                v = self.env[k]
                if isinstance(v, Poly):
                    return v
        if isinstance(e, ast.Attribute):
            return Poly.atom(f'{self.poly(e.value).canon()}.{e.attr}')
        if isinstance(e, ast.Subscript):
            return Poly.atom(f'{self.poly(e.value).canon()}[{self.text(e.slice)}]')
        if isinstance(e, ast.IfExp):
            t = e.test
            if isinstance(t, ast.Compare) and len(t.ops) == 1 and isinstance(t.ops[0], ast.Is) \
                    and isinstance(t.comparators[0], ast.Constant) and t.comparators[0].value is None:
                flipped = ast.Compare(left=t.left, ops=[ast.IsNot()], comparators=t.comparators)
                return self.poly(ast.IfExp(test=flipped, body=e.orelse, orelse=e.body))
            if isinstance(t, ast.UnaryOp) and isinstance(t.op, ast.Not):
                return self.poly(ast.IfExp(test=t.operand, body=e.orelse, orelse=e.body))
            return Poly.atom(f'ite({self.text(e.test)},{self.poly(e.body).canon()},{self.poly(e.orelse).canon()})')
        return Poly.atom(self.text(e))


def single_defs(stmts: list[ast.stmt]) -> dict[str, ast.expr]:
    """Locals of a straight-line function body with exactly one plain definition (copy-propagation env)."""
    count: dict[str, int] = {}
    val: dict[str, ast.expr] = {}
    for st in stmts:
        for n in ast.walk(st):
            if isinstance(n, ast.Assign):
                for t in n.targets:
                    for nm in ast.walk(t):
                        if isinstance(nm, ast.Name):
                            count[nm.id] = count.get(nm.id, 0) + 1
                            if isinstance(t, ast.Name):
                                val[nm.id] = n.value
            elif isinstance(n, (ast.AugAssign, ast.AnnAssign)):
                if isinstance(n.target, ast.Name):
                    count[n.target.id] = count.get(n.target.id, 0) + (2 if isinstance(n, ast.AugAssign) else 1)
                    if isinstance(n, ast.AnnAssign) and n.value is not None:
                        val[n.target.id] = n.value
            elif isinstance(n, (ast.For, ast.comprehension)):
                for nm in ast.walk(n.target):
                    if isinstance(nm, ast.Name):
                        count[nm.id] = count.get(nm.id, 0) + 2
            elif isinstance(n, ast.NamedExpr):
                count[n.target.id] = count.get(n.target.id, 0) + 2
    return {k: v for k, v in val.items() if count.get(k) == 1}
