"""E4 — term normal forms for scalar code.

Expressions are normalised to polynomials over atoms with Fraction
coefficients (commutativity, associativity, distribution, constant folding),
after copy propagation through an environment of local definitions.  Division
by a monomial gives negative exponents; other denominators, function calls,
subscripts and attribute loads are opaque atoms with normalised arguments.
One expression at a time; no path exploration, no solver.
"""
from __future__ import annotations

import ast
import copy
from fractions import Fraction
from typing import Callable

Mono = tuple  # tuple[(atom:str, exp:int), ...] sorted


class Poly:
    __slots__ = ('t',)

    def __init__(self, t: dict | None = None) -> None:
        self.t: dict[Mono, Fraction] = {k: v for k, v in (t or {}).items() if v != 0}

    @staticmethod
    def const(c: object) -> 'Poly':
        return Poly({(): Fraction(c)})  # type: ignore[arg-type]

    @staticmethod
    def atom(a: str) -> 'Poly':
        return Poly({((a, 1),): Fraction(1)})

    def __add__(self, o: 'Poly') -> 'Poly':
        t = dict(self.t)
        for k, v in o.t.items():
            t[k] = t.get(k, Fraction(0)) + v
        return Poly(t)

    def __neg__(self) -> 'Poly':
        return Poly({k: -v for k, v in self.t.items()})

    def __sub__(self, o: 'Poly') -> 'Poly':
        return self + (-o)

    def __mul__(self, o: 'Poly') -> 'Poly':
        t: dict[Mono, Fraction] = {}
        for k1, v1 in self.t.items():
            for k2, v2 in o.t.items():
                m: dict[str, int] = {}
                for a, e in k1 + k2:
                    m[a] = m.get(a, 0) + e
                k = tuple(sorted((a, e) for a, e in m.items() if e != 0))
                t[k] = t.get(k, Fraction(0)) + v1 * v2
        return Poly(t)

    def is_const(self) -> bool:
        return all(k == () for k in self.t)

    def const_value(self) -> Fraction | None:
        if not self.t:
            return Fraction(0)
        if self.is_const():
            return self.t[()]
        return None

    def is_monomial(self) -> bool:
        return len(self.t) == 1

    def inverse(self) -> 'Poly':
        if self.is_monomial():
            (k, v), = self.t.items()
            return Poly({tuple((a, -e) for a, e in k): 1 / v})
        return Poly.atom(f'inv({self.canon()})')

    def pow(self, n: int) -> 'Poly':
        if n < 0:
            return self.pow(-n).inverse()
        r = Poly.const(1)
        for _ in range(n):
            r = r * self
        return r

    def canon(self) -> str:
        if not self.t:
            return '0'
        parts = []
        for k in sorted(self.t, key=lambda k: (len(k), k)):
            v = self.t[k]
            mono = '*'.join(a if e == 1 else f'{a}^{e}' for a, e in k)
            if not mono:
                parts.append(str(v))
            elif v == 1:
                parts.append(mono)
            else:
                parts.append(f'{v}*{mono}')
        return ' + '.join(parts)

    def atoms(self) -> set[str]:
        return {a for k in self.t for a, _ in k}

    def __eq__(self, o: object) -> bool:
        return isinstance(o, Poly) and self.t == o.t

    def __hash__(self) -> int:
        return hash(frozenset(self.t.items()))

    def __repr__(self) -> str:
        return f'Poly({self.canon()})'

    def coeff_of(self, atom: str) -> 'Poly':
        """Polynomial c with self = c*atom + rest, rest free of atom (atom must occur with exponent 1 only)."""
        t = {}
        for k, v in self.t.items():
            d = dict(k)
            if d.get(atom) == 1:
                d.pop(atom)
                t[tuple(sorted(d.items()))] = v
        return Poly(t)

    def without(self, atom: str) -> 'Poly':
        return Poly({k: v for k, v in self.t.items() if atom not in dict(k)})


SQRT_NAMES = {'math.sqrt', 'sqrt', 'torch.sqrt', 'np.sqrt', 'numpy.sqrt'}
ABS_NAMES = {'abs', 'math.fabs', 'torch.abs'}
FLOAT_NAMES = {'float'}


class Normalizer:
    """expr -> Poly with copy propagation.

    env: name -> ast.expr (single reaching definition) or Poly
    atom_of: optional hook mapping an opaque ast node to an atom string (e.g. to identify
             `self.steps` with `self._steps`).
    """

    def __init__(self, env: dict | None = None, atom_of: Callable[[ast.AST], str | None] | None = None,
                 facts: 'Facts | None' = None) -> None:
        self.env = env or {}
        self.atom_of = atom_of
        self.facts = facts
        self._busy: set[str] = set()

    def decide(self, t: ast.expr) -> bool | None:
        """Three-valued value of a test under the case facts (None when no facts are installed)."""
        if self.facts is None:
            return None
        tr = getattr(self.facts, 'truth', None)
        if tr:
            tx = self.text(t)
            if tx in tr:
                return tr[tx]
        if isinstance(t, ast.UnaryOp) and isinstance(t.op, ast.Not):
            v = self.decide(t.operand)
            return None if v is None else not v
        if isinstance(t, ast.BoolOp):
            vs = [self.decide(v) for v in t.values]
            if isinstance(t.op, ast.And):
                return False if any(v is False for v in vs) else (True if all(v is True for v in vs) else None)
            return True if any(v is True for v in vs) else (False if all(v is False for v in vs) else None)
        if isinstance(t, ast.Compare) and len(t.ops) == 1 and isinstance(t.ops[0], (ast.Is, ast.IsNot)) \
                and isinstance(t.comparators[0], ast.Constant) and t.comparators[0].value is None:
            v = self.facts.none(self.text(t.left)) if self.facts.none is not None else None
            return None if v is None else (v if isinstance(t.ops[0], ast.Is) else not v)
        if isinstance(t, ast.Compare) and len(t.ops) == 1:
            return self.facts.cmp(self.poly(t.left), type(t.ops[0]), self.poly(t.comparators[0]))
        if isinstance(t, ast.Constant) and isinstance(t.value, bool):
            return t.value
        if isinstance(t, (ast.Name, ast.Attribute)) and getattr(self.facts, 'truth', None):
            return self.facts.truth.get(self.text(t))
        return None

    def text(self, n: ast.AST) -> str:
        try:
            return ast.unparse(n)
        except Exception:  # noqa: BLE001
            return ast.dump(n)

    def poly(self, e: ast.AST) -> Poly:
        if self.atom_of is not None:
            a = self.atom_of(e)
            if a is not None:
                return Poly.atom(a)
        if isinstance(e, ast.Constant):
            if isinstance(e.value, bool):
                return Poly.atom(str(e.value))
            if isinstance(e.value, int):
                return Poly.const(e.value)
            if isinstance(e.value, float):
                return Poly.const(Fraction(str(e.value)))
            return Poly.atom(repr(e.value))
        if isinstance(e, ast.Name):
            if e.id in self.env and e.id not in self._busy:
                v = self.env[e.id]
                if isinstance(v, Poly):
                    return v
                self._busy.add(e.id)
                try:
                    return self.poly(v)
                finally:
                    self._busy.discard(e.id)
            return Poly.atom(e.id)
        if isinstance(e, ast.UnaryOp):
            if isinstance(e.op, ast.USub):
                return -self.poly(e.operand)
            if isinstance(e.op, ast.UAdd):
                return self.poly(e.operand)
            return Poly.atom(f'{type(e.op).__name__}({self.poly(e.operand).canon()})')
        if isinstance(e, ast.BinOp):
            l, r = self.poly(e.left), self.poly(e.right)
            if isinstance(e.op, ast.Add):
                return l + r
            if isinstance(e.op, ast.Sub):
                return l - r
            if isinstance(e.op, ast.Mult):
                return l * r
            if isinstance(e.op, ast.Div):
                return l * r.inverse()
            if isinstance(e.op, ast.Pow):
                c = r.const_value()
                if c is not None and c.denominator == 1 and abs(c) <= 6:
                    return l.pow(int(c))
                if c == Fraction(1, 2):
                    return Poly.atom(f'sqrt({l.canon()})')
                return Poly.atom(f'pow({l.canon()},{r.canon()})')
            return Poly.atom(f'{type(e.op).__name__}({l.canon()},{r.canon()})')
        if isinstance(e, ast.Call):
            fn = self.text(e.func)
            args = [self.poly(a) for a in e.args]
            if fn in SQRT_NAMES and len(args) == 1 and not e.keywords:
                return Poly.atom(f'sqrt({args[0].canon()})')
            if fn in ABS_NAMES and len(args) == 1:
                return Poly.atom(f'abs({args[0].canon()})')
            if fn in FLOAT_NAMES and len(args) == 1:
                return args[0]
            if fn == 'sum' and len(e.args) == 1 and not e.keywords and isinstance(e.args[0], (ast.GeneratorExp, ast.ListComp)) \
                    and len(e.args[0].generators) == 1 and isinstance(e.args[0].generators[0].iter, (ast.Tuple, ast.List)) \
                    and isinstance(e.args[0].generators[0].target, ast.Name):
                # sum(f(t) for t in (a, b, c) if c(t)): the finite sum, element by element
                g = e.args[0].generators[0]
                tot = Poly.const(0)
                for x in g.iter.elts:
                    sub = _SubstName(g.target.id, x)
                    term: ast.expr = sub.visit(copy.deepcopy(e.args[0].elt))
                    for cond in reversed(g.ifs):
                        term = ast.IfExp(test=sub.visit(copy.deepcopy(cond)), body=term, orelse=ast.Constant(value=0))
                    tot = tot + self.poly(ast.fix_missing_locations(term))
                return tot
            if fn in ('min', 'max') and not e.keywords and self.facts is not None and len(args) >= 2:
                keep = list(args)
                for a in args:
                    for b in list(keep):
                        if a is b or a not in keep:
                            continue
                        # drop b when a dominates it
                        d = self.facts.cmp(a, ast.LtE if fn == 'min' else ast.GtE, b)
                        if d is True and b in keep and len(keep) > 1:
                            keep.remove(b)
                if len(keep) == 1:
                    return keep[0]
                args = keep
            if fn in ('min', 'max') and not e.keywords:
                return Poly.atom(f'{fn}({",".join(sorted(a.canon() for a in args))})')
            if isinstance(e.func, ast.Attribute):
                recv = self.poly(e.func.value).canon()
                fn = f'{recv}.{e.func.attr}'
            kws = [f'{k.arg}={self.poly(k.value).canon()}' for k in e.keywords]
            return Poly.atom(f'{fn}({",".join([a.canon() for a in args] + sorted(kws))})')
        if isinstance(e, (ast.Attribute, ast.Subscript)):
            k = self.text(e)
            if k in self.env and k not in self._busy:
                v = self.env[k]
                if isinstance(v, Poly):
                    return v
        if isinstance(e, ast.Attribute):
            return Poly.atom(f'{self.poly(e.value).canon()}.{e.attr}')
        if isinstance(e, ast.Subscript):
            return Poly.atom(f'{self.poly(e.value).canon()}[{self.text(e.slice)}]')
        if isinstance(e, ast.IfExp):
            t = e.test
            if isinstance(t, ast.Compare) and len(t.ops) == 1 and isinstance(t.ops[0], ast.Is) \
                    and isinstance(t.comparators[0], ast.Constant) and t.comparators[0].value is None:
                flipped = ast.Compare(left=t.left, ops=[ast.IsNot()], comparators=t.comparators)
                return self.poly(ast.IfExp(test=flipped, body=e.orelse, orelse=e.body))
            if isinstance(t, ast.UnaryOp) and isinstance(t.op, ast.Not):
                return self.poly(ast.IfExp(test=t.operand, body=e.orelse, orelse=e.body))
            dv = self.decide(t)
            if dv is not None:
                return self.poly(e.body if dv else e.orelse)
            return Poly.atom(f'ite({self.text(e.test)},{self.poly(e.body).canon()},{self.poly(e.orelse).canon()})')
        return Poly.atom(self.text(e))


class _SubstName(ast.NodeTransformer):
    def __init__(self, name: str, val: ast.expr) -> None:
        self.name, self.val = name, val

    def visit_Name(self, n: ast.Name) -> ast.AST:  # noqa: N802
        return copy.deepcopy(self.val) if n.id == self.name and isinstance(n.ctx, ast.Load) else n


class Facts:
    """Case facts for a symbolic run: integer lower bounds on atoms.  Decides a comparison when the
    difference of its sides is a constant or (+/-)atom + constant with a bounded atom; otherwise unknown."""

    def __init__(self, lower: dict[str, int] | None = None, none: Callable[[str], bool | None] | None = None,
                 truth: dict[str, bool] | None = None) -> None:
        self.lower = dict(lower or {})
        self.none = none
        self.truth = dict(truth or {})

    def _sign_range(self, d: Poly) -> tuple[Fraction | None, Fraction | None]:
        """(lo, hi) bounds of d, None = unbounded."""
        c = d.const_value()
        if c is not None:
            return c, c
        const = Fraction(0)
        atom = None
        coef = None
        for k, v in d.t.items():
            if k == ():
                const = v
            elif len(k) == 1 and k[0][1] == 1 and atom is None:
                atom, coef = k[0][0], v
            else:
                return None, None
        if atom is None or atom not in self.lower or coef is None:
            return None, None
        lo = self.lower[atom]
        if coef > 0:
            return coef * lo + const, None
        return None, coef * lo + const

    def cmp(self, l: Poly, op: type, r: Poly) -> bool | None:
        lo, hi = self._sign_range(l - r)
        def gt0() -> bool | None:  # noqa: E306
            if lo is not None and lo > 0:
                return True
            if hi is not None and hi <= 0:
                return False
            return None
        def ge0() -> bool | None:  # noqa: E306
            if lo is not None and lo >= 0:
                return True
            if hi is not None and hi < 0:
                return False
            return None
        def eq0() -> bool | None:  # noqa: E306
            if lo is not None and hi is not None and lo == hi == 0:
                return True
            if (lo is not None and lo > 0) or (hi is not None and hi < 0):
                return False
            return None
        def neg(v: bool | None) -> bool | None:  # noqa: E306
            return None if v is None else not v
        if op is ast.Gt:
            return gt0()
        if op is ast.GtE:
            return ge0()
        if op is ast.Lt:
            return neg(ge0())
        if op is ast.LtE:
            return neg(gt0())
        if op is ast.Eq:
            return eq0()
        if op is ast.NotEq:
            return neg(eq0())
        return None


def single_defs(stmts: list[ast.stmt]) -> dict[str, ast.expr]:
    """Locals of a straight-line function body with exactly one plain definition (copy-propagation env)."""
    count: dict[str, int] = {}
    val: dict[str, ast.expr] = {}
    for st in stmts:
        for n in ast.walk(st):
            if isinstance(n, ast.Assign):
                for t in n.targets:
                    for nm in ast.walk(t):
                        if isinstance(nm, ast.Name):
                            count[nm.id] = count.get(nm.id, 0) + 1
                            if isinstance(t, ast.Name):
                                val[nm.id] = n.value
            elif isinstance(n, (ast.AugAssign, ast.AnnAssign)):
                if isinstance(n.target, ast.Name):
                    count[n.target.id] = count.get(n.target.id, 0) + (2 if isinstance(n, ast.AugAssign) else 1)
                    if isinstance(n, ast.AnnAssign) and n.value is not None:
                        val[n.target.id] = n.value
            elif isinstance(n, (ast.For, ast.comprehension)):
                for nm in ast.walk(n.target):
                    if isinstance(nm, ast.Name):
                        count[nm.id] = count.get(nm.id, 0) + 2
            elif isinstance(n, ast.NamedExpr):
                count[n.target.id] = count.get(n.target.id, 0) + 2
    return {k: v for k, v in val.items() if count.get(k) == 1}
