"""Plumbing shared by all checks: three-valued outcome, obligations, evidence,
known findings, replay files."""
from __future__ import annotations

import json
import os
import sys
import time
import traceback
from typing import Any
from typing import Callable

VERIF = os.path.dirname(os.path.dirname(os.path.abspath(__file__)))
EVIDENCE_DIR = os.path.join(VERIF, 'evidence')
KNOWN_FINDINGS = os.path.join(VERIF, 'known_findings.json')

ASSUMPTIONS = {
    'A1': 'A1 SPMD launch: all ranks run the same program with equal constructor arguments, equal model structure, '
          'equal state_dict arguments and the same train/eval sequence; model-derived predicates, hyper-parameters '
          'and the step counter are rank-uniform.',
    'A2': 'A2: process-group handles supplied by the user (GPT-NeoX data/model parallel groups) contain the local rank.',
    'A3': 'A3 torch semantics of the finite operator vocabulary used by the tensor / alias rules (matmul shape rule, '
          'eigh returns (w,V) with A=V diag(w) V^T, F.pad pads the last dimension first, unfold, triu_indices '
          'deterministic, dist.* collectives write their output arguments in place, hooks returning non-None replace '
          'inputs/grad_inputs, new_group must be entered by all ranks with equal arguments).',
    'A4': 'A4: an exception aborts the job; raise exits are not matched against collectives of other ranks.',
    'A5': 'A5: hash(int), hash(frozenset[int]) are process-independent; hash(str) is not.',
    'A6': 'A6: the receiver class mypy infers for an in-package expression is right (mypy 2.3.1 from the repository\'s own dev environment is used as type oracle only).',
}


class AnalysisError(Exception):
    """Tooling failed or an anchor vanished: exit 2, never a verdict."""


class AnalysisIncomplete(AnalysisError):
    """A construct outside the modelled vocabulary sits where it matters."""


class Ctx:
    def __init__(self, prop: str, tier: str, prog: Any, seed: int = 0) -> None:
        self.prop = prop
        self.tier = tier
        self.prog = prog
        self.seed = seed
        self.t0 = time.time()
        self.obligations: list[dict] = []
        self.violations: list[dict] = []
        self.rules: dict[str, dict] = {}
        self.notes: list[str] = []
        self.samples: list[Any] = []
        self.extra: dict[str, Any] = {}
        self.assumptions: set[str] = {'A1', 'A4', 'A6'}
        self.explanation = ''
        self.incomplete: list[str] = []

    # --- bookkeeping -----------------------------------------------------
    def rule(self, rid: str, text: str, floor: int = 0) -> None:
        self.rules.setdefault(rid, {'text': text, 'instances': 0, 'floor': floor, 'violations': 0})

    def _where(self, f: Any, node: Any = None) -> str:
        if f is None:
            return ''
        if isinstance(f, str):
            return f
        return f'{self.prog.loc(f, node)} in {f.short}'

    def ok(self, rid: str, f: Any, what: str, node: Any = None) -> None:
        if rid not in self.rules:
            self.rule(rid, rid)
        self.rules[rid]['instances'] += 1
        self.obligations.append({'rule': rid, 'where': self._where(f, node), 'what': what, 'status': 'discharged'})

    def violate(self, rid: str, f: Any, construct: str, msg: str, node: Any = None, path: Any = None) -> None:
        if rid not in self.rules:
            self.rule(rid, rid)
        self.rules[rid]['instances'] += 1
        self.rules[rid]['violations'] += 1
        fn = f if isinstance(f, str) else (f.short if f is not None else '')
        key = f'{rid}|{fn}|{construct}'
        v = {'rule': rid, 'key': key, 'where': self._where(f, node), 'function': fn,
             'construct': construct, 'message': msg}
        if path is not None:
            v['path'] = path
        if any(o['key'] == key for o in self.violations):
            return
        self.violations.append(v)
        self.obligations.append({'rule': rid, 'where': v['where'], 'what': msg, 'status': 'violated'})

    def check(self, cond: bool, rid: str, f: Any, what: str, construct: str, msg: str, node: Any = None) -> bool:
        if cond:
            self.ok(rid, f, what, node)
        else:
            self.violate(rid, f, construct, msg, node)
        return cond

    def floor(self, rid: str) -> None:
        r = self.rules[rid]
        if r['instances'] < r['floor']:
            raise AnalysisError(
                f'rule {rid}: only {r["instances"]} instance(s) found, fewer than the {r["floor"]} confirmed by hand '
                f'— an anchor vanished; the rule would pass vacuously')

    def floors(self) -> None:
        for rid in self.rules:
            self.floor(rid)

    def do(self, fn: Callable, *args: Any, **kw: Any) -> None:
        """Run one rule; an AnalysisError inside it is remembered (exit 2 unless another rule finds a
        definite violation) and the remaining rules still run."""
        try:
            fn(self, *args, **kw)
        except AnalysisError as e:
            self.incomplete.append(f'{getattr(fn, "__name__", fn)}: {e}')

    def sample(self, s: Any) -> None:
        if len(self.samples) < 40:
            self.samples.append(s)


def load_known() -> list[dict]:
    if not os.path.exists(KNOWN_FINDINGS):
        return []
    with open(KNOWN_FINDINGS) as fh:
        return json.load(fh)['findings']


def finish(ctx: Ctx, technique: str) -> int:
    """Write evidence, print verdict lines, return exit code."""
    known = [k for k in load_known() if k.get('status') == 'known' and ctx.prop in k.get('properties', [])]
    known_keys = {k['key']: k for k in known}
    new = [v for v in ctx.violations if v['key'] not in known_keys]
    listed = [v for v in ctx.violations if v['key'] in known_keys]
    os.makedirs(os.path.join(EVIDENCE_DIR, 'replay'), exist_ok=True)
    wall = time.time() - ctx.t0
    nob = len(ctx.obligations)
    disc = sum(1 for o in ctx.obligations if o['status'] == 'discharged')
    cov = {
        'explanation': ctx.explanation or technique,
        'technique': technique,
        'obligations': nob,
        'discharged': disc,
        'rules': ctx.rules,
        'samples': (ctx.samples or ctx.obligations[:12]),
        'obligation_list': ctx.obligations[:400],
        'analysed_root': ctx.prog.root if ctx.prog else None,
        'source_digest': ctx.prog.digest if ctx.prog else None,
        'modules': len(ctx.prog.modules) if ctx.prog else 0,
        'functions': len(ctx.prog.funcs) if ctx.prog else 0,
        'known_findings_reported': [v['key'] for v in listed],
        'trusted_base': [ASSUMPTIONS[a] for a in sorted(ctx.assumptions)],
        'notes': ctx.notes,
    }
    cov.update(ctx.extra)
    ev = {
        'property_id': ctx.prop, 'tier': ctx.tier, 'seed': ctx.seed, 'level': 'other',
        'coverage': cov,
        'assumptions': [ASSUMPTIONS[a] for a in sorted(ctx.assumptions)],
        'wall_s': round(wall, 3),
        'violations': len(new),
    }
    with open(os.path.join(EVIDENCE_DIR, f'{ctx.prop}.json'), 'w') as fh:
        json.dump(ev, fh, indent=1, default=str)
    for v in listed:
        print(f'KNOWN-FINDING: property={ctx.prop} {known_keys[v["key"]]["id"]} {v["rule"]} at {v["where"]}: {v["message"]}')
    if new:
        for i, v in enumerate(new):
            rp = os.path.join(EVIDENCE_DIR, 'replay', f'{ctx.prop}-{i}.json')
            with open(rp, 'w') as fh:
                json.dump({'property': ctx.prop, **v}, fh, indent=1, default=str)
            print(f'VIOLATION property={ctx.prop} replay={rp}')
            print(f'  rule={v["rule"]} at {v["where"]}')
            print(f'  construct: {v["construct"]}')
            print(f'  {v["message"]}')
            if 'path' in v:
                print(f'  path: {v["path"]}')
        return 1
    rules = ','.join(f'{r}:{d["instances"]}' for r, d in ctx.rules.items())
    print(f'OK property={ctx.prop} tier={ctx.tier} obligations={nob} discharged={disc} rules={rules} wall={wall:.1f}s')
    return 0


def main_wrapper(fn: Callable[[], int]) -> None:
    try:
        rc = fn()
    except AnalysisIncomplete as e:
        print(f'ANALYSIS-INCOMPLETE {e}')
        rc = 2
    except AnalysisError as e:
        print(f'ANALYSIS-ERROR {e}')
        rc = 2
    except Exception as e:  # noqa: BLE001
        print(f'ANALYSIS-ERROR internal error {type(e).__name__}: {e}')
        traceback.print_exc()
        rc = 2
    sys.stdout.flush()
    sys.stderr.flush()
    os._exit(rc)
