"""Canonicalisation of module ASTs before any rule looks at them.

Every transformation maps two spellings of the same behaviour to one AST shape,
so that the rules (which are written against shapes) agree on them:

  N1  `x: T = v` inside a function           -> `x = v`  (annotation kept in `_kfv_ann`)
  N2  f-strings / `+` of string constants     -> one constant
  N3  `getattr(o, 'c')`, `setattr(o, 'c', v)`  -> `o.c`, `o.c = v`
  N4  `for k in <constant tuple>: body`       -> body copies with k substituted
      (literal tuple/list of constants or simple expressions, or a module-level
      name bound once to such a literal; no break/continue/else; the loop
      variable is not read after the loop)
  N5  `v = self.<field>` followed by reads of `v` in the same block with only
      pure builtin calls in between           -> the reads use `self.<field>`

Positions of copied nodes are kept (type lookups are positional).
"""
from __future__ import annotations

import ast
import copy

PURE_BUILTINS = {'AssertionError', 'ValueError', 'RuntimeError', 'TypeError', 'KeyError', 'NotImplementedError', 'callable', 'isinstance', 'len', 'str', 'repr', 'int', 'float', 'bool', 'type', 'hasattr', 'id', 'print'}
MAX_UNROLL = 16


def _const_seq(e: ast.expr, consts: dict[str, ast.expr]) -> list[ast.expr] | None:
    if isinstance(e, ast.Name) and e.id in consts:
        e = consts[e.id]
    if isinstance(e, (ast.Tuple, ast.List)) and 0 < len(e.elts) <= MAX_UNROLL:
        if all(_simple(x) or (isinstance(x, ast.Tuple) and all(_simple(y) for y in x.elts)) for x in e.elts):
            return list(e.elts)
    return None


def _simple(e: ast.expr) -> bool:
    if isinstance(e, ast.Constant):
        return True
    if isinstance(e, ast.Name):
        return True
    if isinstance(e, ast.Attribute):
        return _simple(e.value)
    return False


def _module_consts(tree: ast.Module) -> dict[str, ast.expr]:
    count: dict[str, int] = {}
    val: dict[str, ast.expr] = {}
    for n in ast.walk(tree):
        if isinstance(n, ast.Name) and isinstance(n.ctx, (ast.Store, ast.Del)):
            count[n.id] = count.get(n.id, 0) + 1
        if isinstance(n, ast.Global):
            for nm in n.names:
                count[nm] = count.get(nm, 0) + 2
    for st in tree.body:
        tg = None
        if isinstance(st, ast.Assign) and len(st.targets) == 1:
            tg, v = st.targets[0], st.value
        elif isinstance(st, ast.AnnAssign) and st.value is not None:
            tg, v = st.target, st.value
        if isinstance(tg, ast.Name) and isinstance(v, (ast.Tuple, ast.List)) and all(isinstance(x, ast.Constant) for x in v.elts):
            val[tg.id] = v
    return {k: v for k, v in val.items() if count.get(k) == 1}


class _Sub(ast.NodeTransformer):
    def __init__(self, mapping: dict[str, ast.expr]) -> None:
        self.mapping = mapping

    def visit_Name(self, n: ast.Name) -> ast.AST:  # noqa: N802
        if isinstance(n.ctx, ast.Load) and n.id in self.mapping:
            return ast.copy_location(copy.deepcopy(self.mapping[n.id]), n)
        return n


def _stores(st: ast.AST) -> set[str]:
    return {n.id for n in ast.walk(st) if isinstance(n, ast.Name) and isinstance(n.ctx, (ast.Store, ast.Del))}


def _loads(sts: list[ast.stmt]) -> set[str]:
    return {n.id for st in sts for n in ast.walk(st) if isinstance(n, ast.Name) and isinstance(n.ctx, ast.Load)}


def _has_jump(body: list[ast.stmt]) -> bool:
    for st in body:
        for n in ast.walk(st):
            if isinstance(n, (ast.Break, ast.Continue)):
                return True
    return False


class _Fold(ast.NodeTransformer):
    """N2 + N3 (expression part)."""

    def visit_JoinedStr(self, n: ast.JoinedStr) -> ast.AST:  # noqa: N802
        self.generic_visit(n)
        parts = []
        for v in n.values:
            if isinstance(v, ast.Constant) and isinstance(v.value, str):
                parts.append(v.value)
            elif isinstance(v, ast.FormattedValue) and isinstance(v.value, ast.Constant) and isinstance(v.value.value, str) \
                    and v.conversion == -1 and v.format_spec is None:
                parts.append(v.value.value)
            else:
                return n
        return ast.copy_location(ast.Constant(value=''.join(parts)), n)

    def visit_BinOp(self, n: ast.BinOp) -> ast.AST:  # noqa: N802
        self.generic_visit(n)
        if isinstance(n.op, ast.Add) and isinstance(n.left, ast.Constant) and isinstance(n.right, ast.Constant) \
                and isinstance(n.left.value, str) and isinstance(n.right.value, str):
            return ast.copy_location(ast.Constant(value=n.left.value + n.right.value), n)
        return n

    def visit_Call(self, n: ast.Call) -> ast.AST:  # noqa: N802
        self.generic_visit(n)
        if isinstance(n.func, ast.Name) and n.func.id == 'getattr' and len(n.args) == 2 and not n.keywords \
                and isinstance(n.args[1], ast.Constant) and isinstance(n.args[1].value, str) and n.args[1].value.isidentifier():
            return ast.copy_location(ast.Attribute(value=n.args[0], attr=n.args[1].value, ctx=ast.Load()), n)
        return n


def _fold(fn: ast.AST) -> None:
    _Fold().visit(fn)
    for _owner, blk in _blocks(fn):
        for k, st in enumerate(blk):
            if isinstance(st, ast.Expr) and isinstance(st.value, ast.Call) and isinstance(st.value.func, ast.Name) and st.value.func.id == 'setattr' \
                    and len(st.value.args) == 3 and not st.value.keywords and isinstance(st.value.args[1], ast.Constant) \
                    and isinstance(st.value.args[1].value, str) and st.value.args[1].value.isidentifier():
                o, key, v = st.value.args
                tgt = ast.copy_location(ast.Attribute(value=o, attr=key.value, ctx=ast.Store()), st.value)
                blk[k] = ast.copy_location(ast.Assign(targets=[tgt], value=v, lineno=st.lineno), st)


def _root_name(e: ast.AST) -> str | None:
    while isinstance(e, (ast.Attribute, ast.Subscript, ast.Call)):
        e = e.func if isinstance(e, ast.Call) else e.value
    return e.id if isinstance(e, ast.Name) else None


def _impure_between(sts: list[ast.stmt], base: str) -> bool:
    """Something in `sts` may change what `<base>.<attr>` / `<base>[k]` denotes: a store through `base`, or a call
    that can reach `base` (it is the receiver or an argument), pure builtins excepted."""
    for st in sts:
        for n in ast.walk(st):
            if isinstance(n, ast.Call):
                if isinstance(n.func, ast.Name) and n.func.id in PURE_BUILTINS:
                    continue
                mentioned = any(isinstance(x, ast.Name) and x.id == base for part in [n.func] + list(n.args) + [k.value for k in n.keywords] for x in ast.walk(part))
                if mentioned:
                    return True
            if isinstance(n, (ast.Attribute, ast.Subscript)) and isinstance(n.ctx, (ast.Store, ast.Del)) and _root_name(n) == base:
                return True
            if isinstance(n, (ast.Await, ast.Yield, ast.YieldFrom)):
                return True
    return False


def mutable_attrs(trees: list[ast.Module]) -> set[str]:
    """Attribute names stored anywhere outside a constructor (any object): everything else is write-once."""
    out: set[str] = set()
    for tree in trees:
        for fn in ast.walk(tree):
            if isinstance(fn, ast.ClassDef):
                # anything defined in a class body (properties, methods, class attributes) is not a plain field
                for m in fn.body:
                    if isinstance(m, (ast.FunctionDef, ast.AsyncFunctionDef)):
                        out.add(m.name)
                    for t in (m.targets if isinstance(m, ast.Assign) else [m.target] if isinstance(m, ast.AnnAssign) else []):
                        if isinstance(t, ast.Name):
                            out.add(t.id)
            if not isinstance(fn, (ast.FunctionDef, ast.AsyncFunctionDef)) or fn.name == '__init__':
                continue
            for n in ast.walk(fn):
                if isinstance(n, ast.Attribute) and isinstance(n.ctx, (ast.Store, ast.Del)):
                    out.add(n.attr)
                if isinstance(n, ast.Call) and isinstance(n.func, ast.Name) and n.func.id in ('setattr', 'delattr') and len(n.args) >= 2:
                    k = n.args[1]
                    if isinstance(k, ast.Constant) and isinstance(k.value, str):
                        out.add(k.value)
                    elif isinstance(k, ast.JoinedStr):
                        out.add('*')      # computed attribute names: nothing is provably write-once
                    else:
                        out.add('*')
    return out


def _self_field(e: ast.expr) -> ast.expr | None:
    """A copyable source: <name>.<attr>, cast(T, <name>.<attr>) or <name>[<constant>]."""
    if isinstance(e, ast.Call) and isinstance(e.func, ast.Name) and e.func.id == 'cast' and len(e.args) == 2 and not e.keywords:
        e = e.args[1]
    if isinstance(e, ast.Attribute) and isinstance(e.value, ast.Name):
        return e
    if isinstance(e, ast.Subscript) and isinstance(e.value, ast.Name) and isinstance(e.slice, ast.Constant):
        return e
    return None


def _copy_prop(block: list[ast.stmt], mutable: set[str], in_init: bool) -> None:
    """N5 on one block (in place)."""
    i = 0
    while i < len(block):
        st = block[i]
        fld = _self_field(st.value) if isinstance(st, ast.Assign) and len(st.targets) == 1 and isinstance(st.targets[0], ast.Name) else None
        if fld is not None:
            v = st.targets[0].id
            j = i + 1
            base = fld.value.id  # type: ignore[attr-defined]
            if base == v:
                i += 1
                continue
            while j < len(block) and v not in _stores(block[j]) and base not in _stores(block[j]):
                j += 1
            frozen = isinstance(fld, ast.Attribute) and not in_init and '*' not in mutable and fld.attr not in mutable
            while not frozen and j > i + 1 and _impure_between(block[i + 1:j], base):
                j -= 1    # longest pure prefix: later reads keep using the local, which is still assigned
            seg = block[i + 1:j]
            if seg:
                sub = _Sub({v: st.value})
                block[i + 1:j] = [sub.visit(s) for s in seg]
        i += 1


def _blocks(node: ast.AST):  # noqa: ANN202
    for n in ast.walk(node):
        for fld in ('body', 'orelse', 'finalbody'):
            blk = getattr(n, fld, None)
            if isinstance(blk, list) and blk and isinstance(blk[0], ast.stmt):
                yield n, blk
        if isinstance(n, ast.Try):
            for h in n.handlers:
                yield h, h.body


def _unroll(fn: ast.AST, consts: dict[str, ast.expr], log: list[str]) -> None:
    changed = True
    rounds = 0
    while changed and rounds < 3:
        changed = False
        rounds += 1
        for owner, blk in list(_blocks(fn)):
            if isinstance(owner, (ast.ClassDef,)):
                continue
            i = 0
            while i < len(blk):
                st = blk[i]
                if isinstance(st, ast.For) and not st.orelse and not _has_jump(st.body):
                    seq = _const_seq(st.iter, consts)
                    tnames = [n.id for n in ast.walk(st.target) if isinstance(n, ast.Name)]
                    ok = seq is not None and (isinstance(st.target, ast.Name) or (isinstance(st.target, ast.Tuple) and all(isinstance(e, ast.Name) for e in st.target.elts)))
                    if ok:
                        # loop variable is not assigned in the body and not read after the loop
                        body_st = set()
                        for b in st.body:
                            body_st |= _stores(b)
                        after = _loads(blk[i + 1:])
                        fn_loads_outside = after
                        if set(tnames) & body_st or set(tnames) & fn_loads_outside:
                            ok = False
                    if ok and isinstance(st.target, ast.Tuple):
                        ok = all(isinstance(x, ast.Tuple) and len(x.elts) == len(st.target.elts) for x in seq)
                    if ok:
                        new: list[ast.stmt] = []
                        for x in seq:
                            if isinstance(st.target, ast.Name):
                                m = {st.target.id: x}
                            else:
                                m = {t.id: y for t, y in zip(st.target.elts, x.elts)}
                            sub = _Sub(m)
                            for b in st.body:
                                new.append(sub.visit(copy.deepcopy(b)))
                        blk[i:i + 1] = new
                        log.append(f'line {st.lineno}: unrolled loop over {len(seq)} constant elements')
                        changed = True
                        i += len(new)
                        continue
                i += 1


LOG_METHODS = {'debug', 'info', 'warning', 'warn', 'error', 'exception', 'critical', 'log'}
PURE_IN_LOG = {'get_rank', 'get_world_size', 'len', 'str', 'repr', 'int', 'float', 'round', 'sorted', 'list', 'tuple', 'type', 'format', 'join', 'getLogger', 'size', 'numel', 'nelement', 'dim',
               'keys', 'values', 'items', 'is_initialized'}


def _is_logging(st: ast.stmt) -> bool:
    """`logger.debug(...)`, `logging.info(...)`, `x.getLogger(..).warning(...)`, `print(...)` whose arguments only call pure helpers."""
    if not (isinstance(st, ast.Expr) and isinstance(st.value, ast.Call)):
        return False
    c = st.value
    f = c.func
    if isinstance(f, ast.Name) and f.id == 'print':
        pass
    elif isinstance(f, ast.Attribute) and f.attr in LOG_METHODS:
        recv = f.value
        ok = (isinstance(recv, ast.Name) and ('log' in recv.id.lower())) or \
             (isinstance(recv, ast.Call) and isinstance(recv.func, ast.Attribute) and recv.func.attr == 'getLogger') or \
             (isinstance(recv, ast.Attribute) and 'log' in recv.attr.lower())
        if not ok:
            return False
    else:
        return False
    for a in list(c.args) + [k.value for k in c.keywords]:
        for n in ast.walk(a):
            if isinstance(n, ast.Call):
                nm = n.func.attr if isinstance(n.func, ast.Attribute) else (n.func.id if isinstance(n.func, ast.Name) else None)
                if nm not in PURE_IN_LOG:
                    return False
            if isinstance(n, (ast.Await, ast.Yield, ast.YieldFrom, ast.NamedExpr)):
                return False
    return True


def _drop_logging(fn: ast.AST) -> int:
    """N11: log / print statements carry no behaviour any property speaks about."""
    n = 0
    for _owner, blk in list(_blocks(fn)):
        keep = [st for st in blk if not _is_logging(st)]
        if len(keep) != len(blk):
            n += len(blk) - len(keep)
            blk[:] = keep or [ast.copy_location(ast.Pass(), blk[0])]
    return n


def _terminal(block: list[ast.stmt]) -> bool:
    return bool(block) and isinstance(block[-1], (ast.Return, ast.Raise, ast.Continue, ast.Break))


def _drop_else(fn: ast.AST) -> None:
    """N7: `if c: ...return/raise/continue/break else: B` -> `if c: ...` followed by B (the else is redundant)."""
    def fix(blk: list[ast.stmt]) -> None:
        i = 0
        while i < len(blk):
            st = blk[i]
            if isinstance(st, ast.If) and st.orelse and _terminal(st.body):
                tail = st.orelse
                st.orelse = []
                blk[i + 1:i + 1] = tail
            for fld in ('body', 'orelse', 'finalbody'):
                sub = getattr(st, fld, None)
                if isinstance(sub, list) and sub and isinstance(sub[0], ast.stmt):
                    fix(sub)
            if isinstance(st, ast.Try):
                for h in st.handlers:
                    fix(h.body)
            i += 1
    fix(fn.body)  # type: ignore[attr-defined]


def run(tree: ast.Module, mutable: set[str] | None = None) -> tuple[ast.Module, list[str]]:
    mutable = {'*'} if mutable is None else mutable
    log: list[str] = []
    consts = _module_consts(tree)
    for fn in [n for n in ast.walk(tree) if isinstance(n, (ast.FunctionDef, ast.AsyncFunctionDef))]:
        # N1
        for _owner, blk in _blocks(fn):
            for k, st in enumerate(blk):
                if isinstance(st, ast.AnnAssign) and st.value is not None:
                    a = ast.copy_location(ast.Assign(targets=[st.target], value=st.value, lineno=st.lineno), st)
                    a._kfv_ann = st.annotation  # type: ignore[attr-defined]
                    blk[k] = a
    for fn in [n for n in tree.body if isinstance(n, (ast.FunctionDef, ast.AsyncFunctionDef))] + \
            [m for c in ast.walk(tree) if isinstance(c, ast.ClassDef) for m in c.body if isinstance(m, (ast.FunctionDef, ast.AsyncFunctionDef))]:
        _drop_logging(fn)
        _drop_else(fn)
        _unroll(fn, consts, log)
        _fold(fn)
        for _owner, blk in _blocks(fn):
            _copy_prop(blk, mutable, fn.name == '__init__')
    ast.fix_missing_locations(tree)
    return tree, log
